#!/usr/bin/env bash
# Entry point used by MANIFEST.json.
#   ./run.sh <Cxx> <quick|thorough>     run one check against /repo's current working tree
#   ./run.sh replay <path>              replay one recorded case without any explorer
#   ./run.sh setup                      warm the build cache (MANIFEST.setup_cmd)
# Everything is rebuilt from /repo's working tree on every invocation (go's build cache makes that cheap
# when nothing changed). Scratch lives in $(mktemp -d) outside /repo and /verif and is removed on exit.
set -u
export GOFLAGS=-mod=mod GOPROXY=off GOSUMDB=off GOTOOLCHAIN=local
REPO=${VERIF_REPO:-/repo}
HERE="$(cd "$(dirname "${BASH_SOURCE[0]}")" && pwd)"
SCRATCH="$(mktemp -d "${TMPDIR:-/tmp}/xverif.XXXXXX")"
cleanup() { chmod -R u+w "$SCRATCH" 2>/dev/null; rm -rf "$SCRATCH"; }
trap cleanup EXIT

# modfile: module path that is allowed to import the tool's internal packages, require block copied
# verbatim from $REPO/go.mod, replace => $REPO.
{
  echo "module github.com/gontainer/gontainer/xverif"
  echo
  awk '/^go /{print; print ""} /^require \(/{p=1} p{print} /^\)/{p=0}' "$REPO/go.mod"
  echo
  echo "require github.com/gontainer/gontainer v0.0.0"
  echo "replace github.com/gontainer/gontainer => $REPO"
} > "$SCRATCH/go.mod"
cp "$REPO/go.sum" "$SCRATCH/go.sum"

# The probe-based checks compile thousands of generated packages; each leaves an entry in go's build cache.
# Keep the cache bounded: `setup` starts from an empty cache when it has grown past 6 GB (nothing else runs then);
# a check only drops entries that no build has touched for two hours (safe next to concurrent builds, this is
# how go trims its cache itself, just with a shorter horizon).
trim_cache() {
  local dir kb
  dir="$(go env GOCACHE 2>/dev/null)"; [ -d "$dir" ] || return 0
  kb=$(du -sk "$dir" 2>/dev/null | cut -f1); kb=${kb:-0}
  if [ "$1" = setup ] && [ "$kb" -gt 6000000 ]; then go clean -cache >/dev/null 2>&1
  elif [ "$kb" -gt 15000000 ]; then find "$dir" -type f -mmin +120 -delete 2>/dev/null; fi
  return 0
}

build() {
  ( cd "$HERE/xverif" && go build -modfile="$SCRATCH/go.mod" -o "$SCRATCH/xv" ./cmd/xv ) 2> "$SCRATCH/build.err"
  local rc=$?
  if [ $rc -ne 0 ]; then
    echo "INTERNAL: harness does not build against $REPO (tree does not compile?)" >&2
    cat "$SCRATCH/build.err" >&2
    exit 2
  fi
}

case "${1:-}" in
  setup)
    trim_cache setup
    build
    "$SCRATCH/xv" setup --repo "$REPO" --verif "$HERE" --scratch "$SCRATCH" --modfile "$SCRATCH/go.mod"
    exit $?
    ;;
  replay)
    build
    "$SCRATCH/xv" replay --repo "$REPO" --verif "$HERE" --scratch "$SCRATCH" --modfile "$SCRATCH/go.mod" "${2:?path}"
    exit $?
    ;;
  C[0-9][0-9])
    trim_cache check
    build
    "$SCRATCH/xv" check --repo "$REPO" --verif "$HERE" --scratch "$SCRATCH" --modfile "$SCRATCH/go.mod" \
        --tier "${2:-${VERIF_TIER:-quick}}" --seed "${VERIF_SEED:-0}" "$1"
    exit $?
    ;;
  *)
    echo "usage: $0 <Cxx> <quick|thorough> | replay <path> | setup" >&2
    exit 2
    ;;
esac
