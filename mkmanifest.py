#!/usr/bin/env python3
"""Writes /verif/MANIFEST.json from the table below (kept in one place so the manifest is always valid)."""
import json, os, sys

HERE = os.path.dirname(os.path.abspath(__file__))

# id -> (level category, technique, text, note, design_ref, engine)
CHECKS = {
 "C18": ("exploration",
         "bounded-exhaustive enumeration of the full (build version, declared version) grid on the real command",
         "Every pair of a 96x96 semantic-version grid plus non-semver builds, absent and malformed versions is executed through the real build command (and 28 runs of 4 really linked binaries); the verdict is compared with a hand-written truth table of the statement. The space named by the quantifier is finite and is enumerated completely, so this is exhaustive for the grid, nothing above it.",
         "trusted: hand-written semver recogniser (oracle); in-process cmd.NewBuildCmd stands for the binary except for main.go's v-stripping, which the linked binaries cover",
         "3/C18", "CFG-X"),

 "C06": ("exploration",
         "bounded-exhaustive enumeration of all subsets of reference positions made dangling, executed on the real command",
         "All 2^12 subsets of the twelve reference positions (parameter, service and decorator referrers; single-chunk, multi-chunk, after %%) x 3 declared-ness variants of the targets are run through the real pipeline; acceptance must equal 'subset empty', every dangling reference must be reported by the right rule naming referrer and missing name, and nothing declared may be reported. Exhaustive over the position set; the base configuration is fixed.",
         "trusted: the abstract base configuration and the content-based matching of diagnostics (rule prefix + referrer token + quoted missing name)",
         "3/C06", "CFG-X"),
 "C07": ("exploration",
         "bounded-exhaustive enumeration of all dependency edge sets up to k atoms with an independent reachability oracle",
         "Every set of <=3 (quick) / <=5 (thorough, 1.2M configurations) of 44 edge atoms over 3 services, 2 tags, 2 decorators, 3 parameters, all 512 parameter graphs in two realisations, all 512 service graphs and the 6-atom tag/decorator chains are run through the real pipeline; cyclic <=> rejected, every element on a cycle is shown, every reported line is a closed walk checked edge by edge.",
         "trusted: own graph construction from the abstract atoms (never from the YAML) and own reachability code",
         "3/C07", "CFG-X"),
 "C16": ("exploration",
         "bounded-exhaustive enumeration of defect mixes x all four flag combinations, differential against the no-flag run",
         "All subsets of <=5 (quick) / all 1024 (thorough) of 10 injected defects x the 4 flag combinations on the real command: under a flag the ordered diagnostics must equal the no-flag diagnostics minus the ignored class, verdict = 'nothing remains', accepted configurations give byte-identical output under all flags; an independent expectation checks that each defect's class appears in the no-flag run.",
         "trusted: classification of diagnostics by the rule prefix printed by the tool",
         "3/C16", "CFG-X"),
 "C19": ("exploration",
         "execution of the complete (finite) generation history of the self-configuration",
         "tool0 built from the tree regenerates internal/gontainer/gontainer.go (must equal the checked-in file modulo the version line), a tool rebuilt with the regenerated file must reproduce it (2 generations quick, 3 thorough), the in-process command must agree with the binary, and the --stub variant must build with the tag. The quantified space is this one chain; it is walked completely.",
         "trusted: go build of scratch copies of the tree",
         "3/C19", "CFG-X"),

 "C01": ("exploration",
         "bounded-exhaustive enumeration of configurations (<=3 / <=4 factor departures, full literal x position and pattern-shape x position products) with go/format + go/types on every accepted output and real compilation of a covering subset",
         "Every configuration departing from a base service in <=3 (quick) / <=4 (thorough) of 13 factors, every parameter literal kind (incl. non-finite and huge floats) in every position, every pattern shape in every position is run through the real command; each accepted output must be gofmt-stable, type-check against export data of the pinned runtime and the fixture universe, and satisfy (statically) the interface assertion its init() evaluates; all single (thorough: pair) departures are really compiled, linked and started, normal and with -tags gontainerstub.",
         "trusted: go/types + gc export data, the fixture universe (every referenced symbol exists; declared types are consistent with declared values)",
         "3/C01", "CFG-X"),
 "C02": ("exploration",
         "bounded-exhaustive enumeration of (argument position x argument form), call words and creation methods, each executed in a probe binary against a reference interpreter",
         "Every (position, form) pair singly (thorough: every pair of pairs, ~55k configurations), all call/wither words of length <=3 on 5 receiver kinds, 24 creation methods x 4 scopes and 10 error paths are generated, compiled and linked with the real runtime; six operations per container are compared (canonical object-graph descriptions incl. identity structure and dynamic types) with a sequential reference model of the documentation.",
         "trusted: fixture universe (self-describing objects), reference model (oracle), the pinned runtime's reflection helpers",
         "3/C02", "CFG-X"),
 "C13": ("exploration",
         "complete truth-table enumeration decided on the go/types method set, plus collision rows and an executed subset",
         "The full product getter x 8 type forms x must_getter x default_must_getter x 8 meta-name settings x 2 creation methods (2160 rows) is run through the real command; the exported method set of the generated container type must equal the runtime container's exported methods plus exactly the documented getters with exactly the documented signatures; 84 collision rows (equal getters, every reserved name and Must/InContext combination) must be rejected; 24 typed configurations are executed (getter, InContext twin, Must twins incl. panics).",
         "trusted: go/types view of the pinned runtime; unexported helper methods are not API",
         "3/C13", "CFG-X"),
 "C14": ("exploration",
         "bounded-exhaustive enumeration of alias tables x written references x positions, resolved with go/types",
         "All alias tables of <=2 (quick) / <=3 (thorough) of 14 aliases (prefix-related aliases, aliases named like the template's own imports, a quoted target) x every written import form that denotes an existing fixture package x 6 positions: the selector carrying the position's own symbol must resolve to the package an independent denotation function computes; imports unique, local names distinct, file type-checks.",
         "trusted: own denotation function; fixture packages export identical symbols",
         "3/C14", "CFG-X"),
 "C17": ("exploration",
         "pairwise enumeration (normal, --stub) over the C01 factor space with go/types API diff, types-only universe, and an executed stub probe",
         "For every vector with <=2 (quick) / <=3 (thorough) factor departures, the getter truth table and 10 rejected configurations, both modes are run: same verdict and diagnostics, build constraint first, identical exported view, the stub type-checks against a universe that declares types only and references nothing but type names; all single departures are compiled with the tag and their constructor and getters called (must panic 'stub'); without the tag the package is excluded.",
         "trusted: go/types; the types-only twin universe",
         "3/C17", "CFG-X"),

 "C03": ("exploration",
         "bounded-exhaustive enumeration of all strings up to length L and all chunk sequences up to length k, verdict against a hand-written evaluator and run-time evaluation in a probe",
         "Every string of length <=3 and every string containing '%' of length <=5 (quick, 45k) / <=6 (thorough) over a 10-character alphabet is built as a parameter value: the verdict must equal a hand-written evaluator's (unbalanced %, unknown function, malformed token rejected naming the token); accepted ones are packed and evaluated by GetParam on the real runtime (type and value); every chunk sequence of length <=3/<=4 over 22 chunk kinds is evaluated as parameter and as constructor argument; the %-doubling corollary is checked for every string.",
         "trusted: hand-written chunker/evaluator (oracle); function arguments that are valid Go but not string literals are unspecified",
         "3/C03", "CFG-X"),
 "C04": ("exploration",
         "bounded-exhaustive enumeration of priority vectors, decorator/tag incidence matrices and file distributions, executed in a probe against the reference model",
         "All 6^3 priority vectors for one tag over three services (thorough 7^3 + 12^3 with two tags), all 2-decorator x 2-tag x 2-service incidence matrices with three argument sets, all 27 distributions of three decorators (and split tag lists) over three files, and all scope pairs of tagged services are generated, compiled, linked with the real runtime and compared (order and identity of injected slices, nesting order and payload of decorators) with the reference model.",
         "trusted: fixture universe, reference model; decorator tag '*' is unspecified and not generated",
         "3/C04", "CFG-X"),
 "C05": ("model_checking",
         "explicit-state BFS to fixpoint over Get/GetInContext histories of real generated containers, states read from the container's private caches; plus exhaustive DAG x edge kind x scope enumeration for the verdict",
         "Verdict: every DAG on 3 services x 6 edge kinds x 4^3 scope assignments (thorough: all DAGs on 4 services, all kind assignments) on the real command against an own transitive-closure oracle, pairs named in diagnostics compared exactly. Histories: for ~1800 accepted configurations the cache state machine (shared cache, bag of context A, bag of context B) is explored breadth-first to fixpoint with the reference model's transition function; every one of ~237k transitions is executed on a fresh real container and all observations (identity structure of every returned object graph) and the reached state (dumped from the real container by reflection) must equal the model's.",
         "trusted: reference model as state enumerator; canonical renumbering of identities; reflection dump of the runtime's caches",
         "3/C05", "HIST-X"),
 "C11": ("exploration",
         "bounded-exhaustive enumeration of all strings up to length L per grammar position against hand-written recognisers",
         "All strings of length <=3 (quick, 3616 x 28 positions) / <=4 (thorough) over a 15-character alphabet (incl. a non-ASCII letter and a line feed) in each of 28 grammar positions and all token words of length <=4/<=6 in the 7 structured positions are run through the real command; the verdict must equal hand-written scanners of the documented grammar and each rejection must name the offending key; creation truth table, reserved getters, todo exemption, documented !value forms (read from docs/SERVICES.md), and all 1-/2-(3-)subsets of 25 validation-stage and 8 compile-stage defects (all reported in one run).",
         "trusted: hand-written recognisers (no regexp); stage-wise reading of 'all violations are reported'",
         "3/C11", "CFG-X"),
 "C15": ("model_checking",
         "explicit-state BFS (depth-bounded, <=2 overrides) over GetParam/Get/OverrideParam/OverrideService histories of real generated containers",
         "All 16 todo subsets must be accepted. For 4 subsets the state machine (parameter cache, service cache, current overrides) is explored breadth-first to depth 4 (quick, ~12.7k transitions) / 5 (thorough) over 15 operations; every transition is executed on a fresh real container; compared: todo errors, values seen by dependants not yet constructed at override time, laziness (zero function calls after construction, counters afterwards), reached cache state. Observations the statement leaves open (dependants constructed before the override) are masked.",
         "trusted: reference model as state enumerator; masking rule for unspecified observations",
         "3/C15", "HIST-X"),

 "C08": ("model_checking",
         "stateless DFS over map-iteration-order choice points injected with go build -overlay (deviation-bounded), plus exhaustive key permutations and an environment grid",
         "Every range-over-map in the tool's non-test code (located with go/types, rewritten at build time) becomes a choice point offering every permutation of the entries; for 10 configurations (valid and invalid with several simultaneous defects of every class) all executions with <=1 (quick, ~3000) / <=2 (thorough) non-canonical choices are run and exit status, report and -o bytes must be identical; every permutation of the keys of each YAML mapping must give identical bytes; the real binary is run under 6 environments x 2 working directories and 30 fresh processes per configuration (the latter a backstop, not the deciding step).",
         "trusted: the overlay rewriter (its output is compiled; intercepted and non-intercepted sites are listed in the evidence); map iteration inside third-party packages is only sampled by the fresh-process backstop",
         "3/C08", "CHOICE-X"),
 "C09": ("exploration",
         "bounded-exhaustive enumeration of all splits of configurations into files, overriding pairs, pattern/file-name assignments, and the algebra of the real merge function",
         "Three base configurations of 8-10 atoms x every order-respecting assignment of atoms to 3 files (~14k splits): -o bytes must equal the single-file form; 18 overriding pairs x 3 placements; 8 file-naming / pattern scenarios (incl. a directory glob whose lexical path order differs from directory order, uncleaned patterns); associativity over all triples and identity over all elements of a universe of inputs, on the real input.Merge.",
         "trusted: the single-file equivalent is constructed from abstract atoms, never by merging YAML",
         "3/C09", "CFG-X"),
 "C10": ("fault_enumeration",
         "exhaustive enumeration of configuration class x flags x output pre-state x injected file-system answers (every fs call of the runner is a choice point, <=1 / <=2 faults)",
         "39 configuration/environment classes x 16 flag combinations x 11 output pre-states; for every fault-free run every os.ReadFile / os.WriteFile / filepath.Glob call of the runner (rewritten with go build -overlay) is failed in turn (EACCES, EIO, ErrBadPattern; thorough: pairs): exit 0 iff the -o path holds exactly the fault-free bytes (and parses), otherwise the path is byte-for-byte and stat-for-stat unchanged; the numbered error list matches the failing step's count; --quiet prints nothing and changes neither exit status nor file effects; real binaries confirm the exit status per class.",
         "trusted: the fs shim; writes failing after truncation are outside the statement's fault list",
         "3/C10", "CHOICE-X"),
 "C12": ("exploration",
         "bounded-exhaustive enumeration of byte strings, schema-aware node-kind confusions, glob patterns, flag combinations and dense graphs, each executed in crash/hang-isolated workers",
         "All byte strings of length <=3 (quick) / <=4 (thorough) over 22 YAML-significant bytes as whole file and spliced at 3 anchors, 41 schema positions x 30 node shapes singly and in pairs, all glob patterns of length <=3/<=4 over 10 characters, all 64 flag presence combinations, complete digraphs up to K5/K6 as service / parameter / tag graphs, nesting up to depth 4096 and 64 KiB names: the command must return, exit 0 or 1, and obey the output-file contract. A worker that dies or exceeds the watchdog is re-run three times in isolation before it is reported.",
         "trusted: per-case watchdog (120 s) as the definition of a hang",
         "3/C12", "CFG-X"),
 "C20": ("model_checking",
         "preemption-bounded stateless DFS over thread interleavings of real generated code and a sync-shimmed copy of the pinned runtime (cooperative scheduler), plus a separate free-running -race pass",
         "18 collision-forcing drivers x 3 threads: every interleaving with <=2 preemptions (quick, ~210k complete executions) / <=3 preemptions and 2-operation threads (thorough, time-capped and reported) with scheduling points before every Mutex.Lock, RWMutex.RLock/Lock, Once.Do of the runtime and before every statement of generated code; each execution must not deadlock and must return exactly the sequential run's canonical object graphs and counters (each shared service / parameter built once, contextual instances per context). The same bodies run free on the real sync package under -race (16 goroutines x 200 rounds).",
         "trusted: the scheduler and shim (RWMutex with writer preference); accesses below statement / sync-operation granularity are left to the race detector pass",
         "3/C20", "SCHED-X"),
}

NOT_YET = {
}

def main():
    props = [json.loads(l) for l in open(os.path.join(HERE, "properties.jsonl"))]
    checks = []
    na = []
    for p in props:
        pid = p["id"]
        if pid in CHECKS:
            cat, tech, text, note, ref, engine = CHECKS[pid]
            checks.append({
                "property_id": pid,
                "quick_cmd": f"./run.sh {pid} quick",
                "thorough_cmd": f"./run.sh {pid} thorough",
                "evidence_file": f"/verif/evidence/{pid}.json",
                "replay_cmd_template": "./run.sh replay {path}",
                "engine": engine,
                "level_claimed": {"category": cat, "text": text, "design_ref": "DESIGN.md section " + ref},
                "level_note": note,
                "technique": tech,
            })
        else:
            na.append({"property_id": pid, "reason": NOT_YET.get(pid, "check not built yet in this session (planned: DESIGN.md section 3); not claimed until it runs green")})
    m = {
        "version": 1,
        "setup_cmd": "./run.sh setup",
        "hooks": {
            "guard": "verif",
            "enable": "no source hooks: instrumentation is applied at build time (go build -overlay for choice points in /repo's packages; rewritten scratch copies of the pinned runtime for the sync shim); /repo is compiled as it is",
            "baseline_off_cmd": "cd /repo && GOFLAGS=-mod=mod GOPROXY=off GOSUMDB=off GOTOOLCHAIN=local go test -vet=off -count=1 ./...",
            "source_commits": [],
            "add_only": True,
        },
        "engines": [
            {"name": "CFG-X", "path": "xverif/core", "serves_properties": sorted(k for k, v in CHECKS.items() if v[5] == "CFG-X"),
             "kind_free_text": "bounded-exhaustive configuration explorer: deterministic enumeration of abstract configurations, sharded over worker processes, each executed on the real build command in-process (crash/hang isolation per worker)"},
            {"name": "HIST-X", "path": "xverif/checks", "serves_properties": sorted(k for k, v in CHECKS.items() if v[5] == "HIST-X"),
             "kind_free_text": "explicit-state BFS over Get/Override histories of the generated container inside a probe binary"},
            {"name": "CHOICE-X", "path": "xverif/checks", "serves_properties": sorted(k for k, v in CHECKS.items() if v[5] == "CHOICE-X"),
             "kind_free_text": "stateless DFS over environment answers (map iteration order, file-system results) injected with go build -overlay"},
            {"name": "SCHED-X", "path": "xverif/checks", "serves_properties": sorted(k for k, v in CHECKS.items() if v[5] == "SCHED-X"),
             "kind_free_text": "preemption-bounded stateless schedule exploration with a cooperative scheduler behind a sync shim"},
        ],
        "checks": checks,
        "not_applicable": na,
        "notes": "All checks: ./run.sh <id> <quick|thorough>; exit 0 = held on everything explored, exit 1 + VIOLATION line otherwise, exit 2 = harness-internal error (no verdict). Known findings: /verif/known_findings.txt.",
    }
    m["engines"] = [e for e in m["engines"] if e["serves_properties"]]
    json.dump(m, open(os.path.join(HERE, "MANIFEST.json"), "w"), indent=1)
    print("wrote MANIFEST.json:", len(checks), "checks,", len(na), "not claimed")

main()
