#!/usr/bin/env python3
"""Writes /verif/MANIFEST.json from the table below (kept in one place so the manifest is always valid)."""
import json, os, sys

HERE = os.path.dirname(os.path.abspath(__file__))

# id -> (level category, technique, text, note, design_ref, engine)
CHECKS = {
 "C18": ("exploration",
         "bounded-exhaustive enumeration of the full (build version, declared version) grid on the real command",
         "Every pair of a 96x96 semantic-version grid plus non-semver builds, absent and malformed versions is executed through the real build command (and 28 runs of 4 really linked binaries); the verdict is compared with a hand-written truth table of the statement. The space named by the quantifier is finite and is enumerated completely, so this is exhaustive for the grid, nothing above it.",
         "trusted: hand-written semver recogniser (oracle); in-process cmd.NewBuildCmd stands for the binary except for main.go's v-stripping, which the linked binaries cover",
         "3/C18", "CFG-X"),
}

NOT_YET = {
}

def main():
    props = [json.loads(l) for l in open(os.path.join(HERE, "properties.jsonl"))]
    checks = []
    na = []
    for p in props:
        pid = p["id"]
        if pid in CHECKS:
            cat, tech, text, note, ref, engine = CHECKS[pid]
            checks.append({
                "property_id": pid,
                "quick_cmd": f"./run.sh {pid} quick",
                "thorough_cmd": f"./run.sh {pid} thorough",
                "evidence_file": f"/verif/evidence/{pid}.json",
                "replay_cmd_template": "./run.sh replay {path}",
                "engine": engine,
                "level_claimed": {"category": cat, "text": text, "design_ref": "DESIGN.md section " + ref},
                "level_note": note,
                "technique": tech,
            })
        else:
            na.append({"property_id": pid, "reason": NOT_YET.get(pid, "check not built yet in this session (planned: DESIGN.md section 3); not claimed until it runs green")})
    m = {
        "version": 1,
        "setup_cmd": "./run.sh setup",
        "hooks": {
            "guard": "verif",
            "enable": "no source hooks: instrumentation is applied at build time (go build -overlay for choice points in /repo's packages; rewritten scratch copies of the pinned runtime for the sync shim); /repo is compiled as it is",
            "baseline_off_cmd": "cd /repo && GOFLAGS=-mod=mod GOPROXY=off GOSUMDB=off GOTOOLCHAIN=local go test -vet=off -count=1 ./...",
            "source_commits": [],
            "add_only": True,
        },
        "engines": [
            {"name": "CFG-X", "path": "xverif/core", "serves_properties": sorted(k for k, v in CHECKS.items() if v[5] == "CFG-X"),
             "kind_free_text": "bounded-exhaustive configuration explorer: deterministic enumeration of abstract configurations, sharded over worker processes, each executed on the real build command in-process (crash/hang isolation per worker)"},
            {"name": "HIST-X", "path": "xverif/checks", "serves_properties": sorted(k for k, v in CHECKS.items() if v[5] == "HIST-X"),
             "kind_free_text": "explicit-state BFS over Get/Override histories of the generated container inside a probe binary"},
            {"name": "CHOICE-X", "path": "xverif/checks", "serves_properties": sorted(k for k, v in CHECKS.items() if v[5] == "CHOICE-X"),
             "kind_free_text": "stateless DFS over environment answers (map iteration order, file-system results) injected with go build -overlay"},
            {"name": "SCHED-X", "path": "xverif/checks", "serves_properties": sorted(k for k, v in CHECKS.items() if v[5] == "SCHED-X"),
             "kind_free_text": "preemption-bounded stateless schedule exploration with a cooperative scheduler behind a sync shim"},
        ],
        "checks": checks,
        "not_applicable": na,
        "notes": "All checks: ./run.sh <id> <quick|thorough>; exit 0 = held on everything explored, exit 1 + VIOLATION line otherwise, exit 2 = harness-internal error (no verdict). Known findings: /verif/known_findings.txt.",
    }
    m["engines"] = [e for e in m["engines"] if e["serves_properties"]]
    json.dump(m, open(os.path.join(HERE, "MANIFEST.json"), "w"), indent=1)
    print("wrote MANIFEST.json:", len(checks), "checks,", len(na), "not claimed")

main()
