package checks

import (
	"errors"
	"fmt"
	"go/parser"
	"go/token"
	"os"
	"os/exec"
	"path/filepath"
	"regexp"
	"strings"
	"syscall"
	"time"

	. "github.com/gontainer/gontainer/xverif/core"
	"github.com/gontainer/gontainer/xverif/vfs"
)

// C10 — exit status, diagnostics and output-file contract of `build`.
// configuration class x flags x output pre-state x real environment faults x injected file-system answers.

type c10class struct {
	id    string
	files func() []File
	args  func(files []File) []string // -i arguments (default: one -i per file)
	valid bool
}

func c10valid() *Cfg {
	return &Cfg{Meta: &Meta{Pkg: P("gen"), Imports: []KV{{"pk", "fx/pk"}}}, Params: []Param{{"p", 1}},
		Services: []Service{{Name: "a", Constructor: P("pk.New"), Args: []any{"%p%"}}}}
}

func c10classes() []c10class {
	one := func(c *Cfg) func() []File { return func() []File { return []File{{"c.yaml", c.YAML()}} } }
	mod := func(f func(c *Cfg)) func() []File { c := c10valid(); f(c); return one(c) }
	return []c10class{
		{"valid", one(c10valid()), nil, true},
		{"valid-two-files", func() []File {
			a := c10valid()
			b := &Cfg{Params: []Param{{"q", "%p%"}}, Services: []Service{{Name: "b", Value: P("pk.Var")}}}
			return []File{{"a.yaml", a.YAML()}, {"b.yaml", b.YAML()}}
		}, nil, true},
		{"valid-odd-file-names", func() []File {
			a := c10valid()
			b := &Cfg{Params: []Param{{"q", "%p%"}}}
			return []File{{"a,b.yaml", a.YAML()}, {"c d (1).yaml", b.YAML()}}
		}, nil, true},
		{"yaml-error", func() []File { return []File{{"c.yaml", "services: [unclosed\n"}} }, nil, false},
		{"shape-error", func() []File { return []File{{"c.yaml", "services:\n  a:\n    constructor: New\n    calls: [[]]\n"}} }, nil, false},
		{"yaml-type-error", func() []File { return []File{{"c.yaml", "parameters: []\nservices: 5\n"}} }, nil, false},
		{"yaml-type-errors-nested", func() []File {
			return []File{{"c.yaml", "meta:\n  imports: [a]\nservices:\n  a:\n    constructor: [1]\n    arguments: 5\n    tags: {x: 1}\n"}}
		}, nil, false},
		{"yaml-type-error-second-file", func() []File {
			return []File{{"a.yaml", c10valid().YAML()}, {"b.yaml", "decorators: {a: 1}\nparameters: 7\n"}}
		}, nil, false},
		{"grammar-error", mod(func(c *Cfg) { c.Services[0].Getter = P("1bad") }), nil, false},
		{"two-grammar-errors", mod(func(c *Cfg) {
			c.Services[0].Getter = P("1bad")
			c.Meta.Pkg = P("a-b")
			c.Params = append(c.Params, Param{"9", 1})
		}), nil, false},
		{"token-error", mod(func(c *Cfg) { c.Params = append(c.Params, Param{"t", "%nofn()%"}, Param{"u", "50%"}) }), nil, false},
		{"compile-error-must-getter", mod(func(c *Cfg) {
			c.Meta.DefaultMustGetter = P(true)
			c.Services[0].MustGetter = P(true) // explicit must_getter without a getter, whatever the default says
		}), nil, false},
		{"compile-error-argument", mod(func(c *Cfg) { c.Services[0].Args = []any{"@", "!value 1x"} }), nil, false},
		{"token-error-unexpected", mod(func(c *Cfg) {
			// a closed %...% chunk that is neither %%, a reference nor a function call, and nothing else wrong
			c.Params = append(c.Params, Param{"t", "%first name%"})
		}), nil, false},
		{"token-error-unexpected-in-argument", mod(func(c *Cfg) { c.Services[0].Args = []any{"%p%", "x%1st%y"} }), nil, false},
		{"token-error-field-with-arguments", mod(func(c *Cfg) {
			c.Services[0].Args = []any{"%p%", 1}
			c.Services[0].Fields = []KV{{"Port", "%p"}}
		}), nil, false},
		{"token-error-call-with-field", mod(func(c *Cfg) {
			c.Services[0].Fields = []KV{{"Port", "%p%"}}
			c.Services[0].Calls = []Call{{Method: "Set", Args: []any{"50%"}}, {Method: "Set", Args: []any{"%p%"}}}
		}), nil, false},
		{"token-error-decorator-with-services", mod(func(c *Cfg) {
			c.Services[0].Tags = []Tag{{Name: "tg"}}
			c.Decorators = []Decorator{{Tag: "tg", Decorator: "pk.Dec1", Args: []any{"%p%", "%nofn()%"}}}
		}), nil, false},
		{"formatter-error", mod(func(c *Cfg) { c.Meta.ContainerType = P("func") }), nil, false},
		{"missing-param", mod(func(c *Cfg) { c.Services[0].Args = []any{"%nope%", "%nope2%"} }), nil, false},
		{"missing-service", mod(func(c *Cfg) { c.Services[0].Args = []any{"@nope"} }), nil, false},
		// the same violation found more than once: as many list entries as the step counts, word for word equal or not
		{"same-missing-param-three-times", mod(func(c *Cfg) {
			c.Services[0].Args = []any{"%nope%", "%nope%"}
			c.Services[0].Fields = []KV{{"F1", "%nope%"}}
		}), nil, false},
		{"same-missing-service-twice-and-a-param", mod(func(c *Cfg) {
			c.Services[0].Args = []any{"@nope", "@nope", "%gone%"}
			c.Services[0].Calls = []Call{{Method: "Set1", Args: []any{"@nope"}}}
		}), nil, false},
		{"cycle", mod(func(c *Cfg) { c.Services[0].Args = []any{"@a"} }), nil, false},
		{"scope", mod(func(c *Cfg) {
			c.Services[0].Scope = P("shared")
			c.Services[0].Args = []any{"@ctx"}
			c.Services = append(c.Services, Service{Name: "ctx", Value: P("pk.Var"), Scope: P("contextual")})
		}), nil, false},
		{"mixed-output-errors", mod(func(c *Cfg) { c.Services[0].Args = []any{"@a", "%nope%", "@gone"} }), nil, false},
		{"version-mismatch", mod(func(c *Cfg) { c.Version = P("9.9.9") }), nil, false},
		{"matched-twice", one(c10valid()), func(fs []File) []string { return []string{"-i", "c.yaml", "-i", "c*.yaml"} }, false},
		{"matched-twice-identical", one(c10valid()), func(fs []File) []string { return []string{"-i", "c.yaml", "-i", "c.yaml"} }, false},
		{"matched-twice-identical-glob", one(c10valid()), func(fs []File) []string { return []string{"-i", "c*.yaml", "-i", "c*.yaml"} }, false},
		{"matched-thrice", one(c10valid()), func(fs []File) []string { return []string{"-i", "c.yaml", "-i", "*.yaml", "-i", "c.yaml"} }, false},
		{"matched-twice-dot-slash", one(c10valid()), func(fs []File) []string { return []string{"-i", "c.yaml", "-i", "./c.yaml"} }, false},
		{"matched-twice-dirty-path", func() []File { return []File{{"c.yaml", c10valid().YAML()}, {"sub/keep", ""}} }, func(fs []File) []string { return []string{"-i", "sub/../c.yaml", "-i", "c.yaml"} }, false},
		{"matched-twice-glob-and-dirty", one(c10valid()), func(fs []File) []string { return []string{"-i", ".//c.yaml", "-i", "?.yaml"} }, false},
		{"missing-input", one(c10valid()), func(fs []File) []string { return []string{"-i", "c.yaml", "-i", "nope.yaml"} }, true},
		{"only-missing-input", one(c10valid()), func(fs []File) []string { return []string{"-i", "nope.yaml"} }, false},
		{"empty-glob", one(c10valid()), func(fs []File) []string { return []string{"-i", "zz*.yaml"} }, false},
		{"invalid-glob", one(c10valid()), func(fs []File) []string { return []string{"-i", "c.yaml", "-i", "[x"} }, false},
		{"input-is-directory", func() []File { return []File{{"c.yaml", c10valid().YAML()}, {"dir.yaml/keep", ""}} }, func(fs []File) []string { return []string{"-i", "c.yaml", "-i", "dir.yaml"} }, false},
	}
}

type c10pre struct {
	id    string
	out   string
	setup func()
}

var c10pres = []c10pre{
	{"absent", "out.go", func() {}},
	{"sentinel-file", "out.go", func() {
		// longer than anything the tool writes: a write without truncation leaves a tail
		os.WriteFile("out.go", []byte("SENTINEL\n"+strings.Repeat("// tail of the previous file\n", 8000)), 0o600)
		old := time.Unix(1_000_000_000, 0)
		os.Chtimes("out.go", old, old)
	}},
	{"directory", "out.go", func() { os.MkdirAll("out.go/sub", 0o755) }},
	{"missing-parent", "nodir/out.go", func() {}},
	{"same-as-input", "c.yaml", func() {}},
	// output paths that cannot even be inspected: a regular file as parent, a name that is too long, a symbolic-link loop
	{"parent-is-a-file", "blocker/out.go", func() { os.WriteFile("blocker", []byte("x"), 0o644) }},
	{"name-too-long", strings.Repeat("n", 300) + ".go", func() {}},
	{"symlink-loop", "loop/out.go", func() { os.Symlink("loop", "loop") }},
	{"dangling-symlink-to-missing-directory", "out.go", func() { os.Symlink("nowhere/else.go", "out.go") }},
	// paths that can be opened for writing and refuse the data (a full device): the failure arrives with the write or the close
	{"device-that-refuses-writes", "/dev/full", func() {}},
	{"symlink-to-a-device-that-refuses-writes", "out.go", func() { os.Symlink("/dev/full", "out.go") }},
}

type pathState struct {
	Kind  string
	Mode  os.FileMode
	Size  int64
	Sha   string
	Mtime int64
}

func statePath(p string) pathState {
	fi, err := os.Lstat(p)
	if err != nil {
		return pathState{Kind: "absent"}
	}
	if fi.IsDir() {
		ents, _ := os.ReadDir(p)
		return pathState{Kind: "dir", Mode: fi.Mode(), Size: int64(len(ents))}
	}
	b, _ := readRegular(p)
	return pathState{Kind: "file", Mode: fi.Mode(), Size: fi.Size(), Sha: Sha(string(b)), Mtime: fi.ModTime().UnixNano()}
}

// readRegular reads a path only when it leads to a regular file (a device like /dev/full answers reads for ever).
func readRegular(p string) ([]byte, error) {
	fi, err := os.Stat(p)
	if err != nil {
		return nil, err
	}
	if !fi.Mode().IsRegular() {
		return nil, fmt.Errorf("%s is not a regular file (%s)", p, fi.Mode())
	}
	return os.ReadFile(p)
}

var reFailCount = regexp.MustCompile(`\[⨉\] \((\d+) errors?\)`)

// c10run executes one build with an optional fault plan and checks the contract. plan: choice-point index
// -> error to inject. It returns the choice points that were passed (kind per index).
func c10run(c *C, id string, cl c10class, flags []string, pre c10pre, plan map[int]error, reference string) (points []string, exit int) {
	w := c.W
	w.FreshDir()
	files := cl.files()
	for _, f := range files {
		if d := filepath.Dir(f.Name); d != "." {
			os.MkdirAll(d, 0o755)
		}
		os.WriteFile(f.Name, []byte(f.Content), 0o644)
	}
	pre.setup()
	var args []string
	if cl.args != nil {
		args = cl.args(files)
	} else {
		for _, f := range files {
			args = append(args, "-i", f.Name)
		}
	}
	args = append(args, "-o", pre.out)
	args = append(args, flags...)
	before := statePath(pre.out)
	vfs.Hook = func(kind, arg string) error {
		i := len(points)
		points = append(points, kind)
		if e, ok := plan[i]; ok {
			return e
		}
		return nil
	}
	r := Tool("1.2.3", "1.2.3 unknown", args...)
	vfs.Hook = nil
	after := statePath(pre.out)
	fm := FilesMap(files)
	extra := map[string]any{"args": args, "pre_state": pre.id, "plan": fmt.Sprint(plan)}
	quiet := false
	for _, f := range flags {
		if f == "--quiet" || f == "-q" {
			quiet = true
		}
	}
	c.Count("runs")
	c.Count("evaluations_extra")
	if r.Panic != "" {
		c.Violation("panic:"+cl.id, "tool panicked ("+id+"):\n"+r.Panic, fm, extra)
		return points, 2
	}
	if r.Exit == 0 {
		content, err := readRegular(pre.out)
		if err != nil {
			c.Violation("exit0-without-output", "exit 0 but the -o path cannot be read ("+id+"): "+err.Error(), fm, extra)
		} else {
			if reference != "" && string(content) != reference {
				c.Violation("exit0-output-differs", "exit 0 but the -o path does not hold the bytes of the fault-free run ("+id+"): "+firstDiff(reference, string(content)), fm, extra)
			}
			if _, err := parser.ParseFile(token.NewFileSet(), "out.go", content, parser.AllErrors); err != nil {
				c.Violation("exit0-output-not-go", "exit 0 but the -o path does not parse as Go ("+id+"): "+err.Error(), fm, extra)
			}
		}
		mustFail := !cl.valid
		ignP, ignS := false, false
		for _, f := range flags {
			ignP = ignP || f == "--ignore-missing-params"
			ignS = ignS || f == "--ignore-missing-services"
		}
		if ignP && (cl.id == "missing-param" || cl.id == "same-missing-param-three-times") || ignS && cl.id == "missing-service" || ignP && ignS && cl.id == "same-missing-service-twice-and-a-param" {
			mustFail = false
		}
		if reference == "" && mustFail {
			c.Violation("failure-class-exit0:"+cl.id, "class "+cl.id+" must fail but exited 0 ("+id+")\n"+r.Out, fm, extra)
		}
	} else {
		if before != after {
			c.Violation("failure-touches-output", fmt.Sprintf("exit != 0 but the -o path changed (%s): before %+v after %+v\n%s", id, before, after, r.Out), fm, extra)
		}
		if !quiet {
			m := reFailCount.FindAllStringSubmatch(r.Out, -1)
			n := len(ErrorLines(r.Out))
			if len(m) == 0 {
				c.Violation("failure-without-count", "failure without a step marked [⨉] (N errors) ("+id+"):\n"+r.Out, fm, extra)
			} else if want := m[len(m)-1][1]; fmt.Sprint(n) != want {
				c.Violation("error-count-mismatch", fmt.Sprintf("the failing step reports %s error(s) but %d numbered entries are printed (%s):\n%s", want, n, id, r.Out), fm, extra)
			}
			if n == 0 {
				c.Violation("failure-without-errors", "exit != 0 without a numbered error list ("+id+"):\n"+r.Out, fm, extra)
			}
		}
	}
	if quiet && r.Out != "" {
		c.Violation("quiet-prints", "--quiet printed something ("+id+"):\n"+r.Out, fm, extra)
	}
	return points, r.Exit
}

func init() {
	Register(&Check{
		ID:    "C10",
		Level: "fault_enumeration",
		Rule: "39 configuration / environment classes (the same missing parameter / service referenced several times by one service, valid, two files, file names with a comma / spaces / parentheses, YAML syntax error, YAML type errors whose message spans several lines (one file, nested, second file), shape error, grammar error(s), token errors (several; a single unexpected token in a parameter / in an argument), compile errors (must-getter without getter under default_must_getter, malformed @ / !value arguments), formatter error, missing parameter / service, cycle, scope, mixed output errors, version mismatch, file matched twice (the identical pattern repeated, glob repeated, three times, file + glob, ./ prefix, dirty path, glob + dirty path), missing input, only missing input, empty glob, invalid glob, input is a directory) x all 16 flag combinations (quiet, stub, ignore-missing-params, ignore-missing-services) x 11 output pre-states (a device that accepts the open and refuses the data, directly and behind a symbolic link, absent, existing file with old mtime and 0600, directory, missing parent, same path as an input, parent is a regular file, name of 300 bytes, symbolic-link loop, dangling symbolic link) " +
			"x injected file-system answers at every os.ReadFile / os.WriteFile / filepath.Glob call of internal/cmd/runner (EACCES, EIO, ErrBadPattern): all executions with <= 1 injected answer (quick) / <= 2 (thorough); plus the real binary's exit status for one representative of every class. non-trivial = a failure class, a non-absent pre-state or an injected fault; distinct = distinct (class, flags, pre-state, fault plan)",
		Assumptions: []string{
			"file-system answers are injected with go build -overlay (os.ReadFile, os.WriteFile, filepath.Glob in internal/cmd/runner rewritten to a shim); a write that fails after truncation is outside the statement's fault list and not injected",
			"in-process Execute() != nil is exit status 1 in main.go; the mapping is checked on real binaries for one representative per class",
		},
		BudgetQuick: 280 * time.Second, BudgetThorough: 1500 * time.Second,
		Prepare: func(p *Parent) error {
			// overlay: route the runner's file-system calls through the shim
			repl := map[string]string{}
			dir := filepath.Join(p.Env.Repo, "internal/cmd/runner")
			ents, err := os.ReadDir(dir)
			if err != nil {
				return err
			}
			sites := 0
			for _, e := range ents {
				if !strings.HasSuffix(e.Name(), ".go") || strings.HasSuffix(e.Name(), "_test.go") {
					continue
				}
				b, err := os.ReadFile(filepath.Join(dir, e.Name()))
				if err != nil {
					return err
				}
				src := string(b)
				n := strings.Count(src, "os.ReadFile(") + strings.Count(src, "os.WriteFile(") + strings.Count(src, "filepath.Glob(")
				if n == 0 {
					continue
				}
				sites += n
				src = strings.ReplaceAll(src, "os.ReadFile(", "vfs.ReadFile(")
				src = strings.ReplaceAll(src, "os.WriteFile(", "vfs.WriteFile(")
				src = strings.ReplaceAll(src, "filepath.Glob(", "vfs.Glob(")
				src = strings.Replace(src, "import (", "import (\n\tvfs \"github.com/gontainer/gontainer/xverif/vfs\"", 1)
				if strings.Contains(src, `"os"`) {
					src += "\nvar _ = os.Getpid\n"
				}
				if strings.Contains(src, `"path/filepath"`) {
					src += "\nvar _ = filepath.Clean\n"
				}
				out := filepath.Join(p.Shared, "ovl-"+e.Name())
				if err := os.WriteFile(out, []byte(src), 0o644); err != nil {
					return err
				}
				repl[filepath.Join(dir, e.Name())] = out
			}
			if sites == 0 {
				return errors.New("no file-system call found in internal/cmd/runner: the fault injector has nothing to intercept")
			}
			p.Extra["intercepted_fs_call_sites"] = sites
			// calls elsewhere in the tool are not intercepted: list them
			var others []string
			filepath.Walk(filepath.Join(p.Env.Repo, "internal"), func(path string, fi os.FileInfo, err error) error {
				if err != nil || fi.IsDir() || !strings.HasSuffix(path, ".go") || strings.HasSuffix(path, "_test.go") || strings.HasPrefix(path, dir) {
					return nil
				}
				b, _ := os.ReadFile(path)
				for _, k := range []string{"os.ReadFile(", "os.WriteFile(", "filepath.Glob(", "os.Open(", "os.Create(", "os.OpenFile(", "ioutil."} {
					if strings.Contains(string(b), k) {
						others = append(others, strings.TrimPrefix(path, p.Env.Repo+"/")+": "+k)
					}
				}
				return nil
			})
			p.Extra["fs_calls_not_intercepted"] = others
			bin, err := p.BuildInstrumented("xv-fs", repl)
			if err != nil {
				return err
			}
			p.WorkerBinary = bin
			// real binary for exit codes
			cmd := exec.Command("go", "build", "-ldflags", "-X main.version=v1.2.3", "-o", filepath.Join(p.Shared, "gontainer"), ".")
			cmd.Dir = p.Env.Repo
			if b, err := cmd.CombinedOutput(); err != nil {
				return fmt.Errorf("go build /repo: %v\n%s", err, b)
			}
			return nil
		},
		Run: func(w *W) {
			classes := c10classes()
			faults := map[string][]error{
				"read":  {&os.PathError{Op: "open", Path: "injected", Err: syscall.EACCES}, &os.PathError{Op: "read", Path: "injected", Err: syscall.EIO}},
				"write": {&os.PathError{Op: "open", Path: "injected", Err: syscall.EACCES}},
				"glob":  {filepath.ErrBadPattern},
			}
			maxFaults := 1
			if !w.Env.Quick() {
				maxFaults = 2
			}
			for _, cl := range classes {
				for fm := 0; fm < 16; fm++ {
					var flags []string
					if fm&1 != 0 {
						flags = append(flags, "--quiet")
					}
					if fm&2 != 0 {
						flags = append(flags, "--stub")
					}
					if fm&4 != 0 {
						flags = append(flags, "--ignore-missing-params")
					}
					if fm&8 != 0 {
						flags = append(flags, "--ignore-missing-services")
					}
					for _, pre := range c10pres {
						if pre.id == "same-as-input" && cl.args != nil && cl.id != "missing-input" {
							continue
						}
						cl, flags, pre, fm := cl, flags, pre, fm
						id := fmt.Sprintf("%s/flags=%04b/%s", cl.id, fm, pre.id)
						w.Case(id, func(c *C) {
							c.Distinct("all", id)
							if cl.id != "valid" || pre.id != "absent" {
								c.Distinct("nontrivial", id)
							}
							// reference: the same configuration and flags, fault-free, fresh output path
							refPoints, refExit := c10run(c, id+"/reference", cl, flags, c10pres[0], nil, "")
							reference := ""
							if refExit == 0 {
								b, _ := os.ReadFile("out.go")
								reference = string(b)
							}
							// some classes are valid only without / with particular flags: the reference run decides
							// the expected verdict of the fault-free runs; the class table only says which must fail
							_, exit := c10run(c, id, cl, flags, pre, nil, reference)
							wantFail := refExit != 0 || pre.id == "directory" || pre.id == "missing-parent" || pre.id == "parent-is-a-file" || pre.id == "name-too-long" || pre.id == "symlink-loop" || pre.id == "dangling-symlink-to-missing-directory" || strings.HasSuffix(pre.id, "device-that-refuses-writes")
							if wantFail && exit == 0 {
								c.Violation("unwritable-output-exit0:"+pre.id, "the -o path cannot be written ("+pre.id+") but the command exited 0 ("+id+")", nil, nil)
							}
							if !wantFail && exit != 0 {
								c.Violation("prestate-changes-verdict:"+pre.id, "the fault-free run on a fresh path succeeds but this one fails ("+id+")", nil, nil)
							}
							// quiet twin: same exit status and file effects
							if fm&1 == 0 {
								_, qexit := c10run(c, id+"/quiet-twin", cl, append([]string{"-q"}, flags...), pre, nil, reference)
								if (qexit == 0) != (exit == 0) {
									c.Violation("quiet-changes-exit", fmt.Sprintf("exit status differs with --quiet (%d vs %d) (%s)", qexit, exit, id), nil, nil)
								}
							}
							if pre.id != "absent" && pre.id != "sentinel-file" {
								return
							}
							// injected answers: every choice point of the fault-free run, every fault kind
							var explore func(plan map[int]error, from int, points []string, depth int)
							explore = func(plan map[int]error, from int, points []string, depth int) {
								for i := from; i < len(points); i++ {
									for fi, f := range faults[points[i]] {
										np := map[int]error{}
										for k, v := range plan {
											np[k] = v
										}
										np[i] = f
										fid := fmt.Sprintf("%s/fault@%d.%d", id, i, fi)
										pts, fexit := c10run(c, fid, cl, flags, pre, np, reference)
										c.Count("fault_runs")
										c.Distinct("nontrivial", fid+fmt.Sprint(np))
										if fexit == 0 {
											c.Violation("injected-fault-exit0:"+points[i], fmt.Sprintf("a %s error was injected at file-system call %d but the command exited 0 (%s)", points[i], i, fid), FilesMap(cl.files()), map[string]any{"plan": fmt.Sprint(np)})
										}
										if depth+1 < maxFaults {
											explore(np, i+1, pts, depth+1)
										}
									}
								}
							}
							explore(map[int]error{}, 0, refPoints, 0)
							if cl.id == "valid-two-files" && fm == 0 && pre.id == "sentinel-file" {
								c.Sample(map[string]any{"class": cl.id, "flags": flags, "pre_state": pre.id, "choice_points": refPoints})
							}
						})
					}
				}
			}
			// what the process built before is no input of the contract: after a build that registers functions, overrides a
			// built-in, uses ignore flags and --stub, the failing classes still fail and leave the output path alone
			w.Case("process-history", func(c *C) {
				prep := &Cfg{Meta: &Meta{Pkg: P("gen"), Imports: []KV{{"pk", "fx/pk"}}, Functions: []KV{{"upper", "pk.FnStr"}, {"nofn", "pk.FnInt"}, {"env", "pk.FnStr"}}},
					Params: []Param{{"nope", 1}, {"nope2", 2}, {"u", `%upper("x")%`}}, Services: []Service{{Name: "nope", Constructor: P("pk.New"), Getter: P("GetA")}, {Name: "gone", Constructor: P("pk.New")}}}
				for _, cl := range classes {
					if cl.args != nil {
						continue
					}
					for _, pf := range [][]string{nil, {"--ignore-missing-params", "--ignore-missing-services", "--stub"}} {
						w.FreshDir()
						os.WriteFile("prep.yaml", []byte(prep.YAML()), 0o644)
						Tool("1.2.3", "1.2.3 unknown", append([]string{"-i", "prep.yaml", "-o", "prep.go"}, pf...)...)
						var args []string
						for _, f := range cl.files() {
							os.WriteFile(f.Name, []byte(f.Content), 0o644)
							args = append(args, "-i", f.Name)
						}
						r := Tool("1.2.3", "1.2.3 unknown", append(args, "-o", "out.go")...)
						_, serr := os.Stat("out.go")
						c.Count("evaluations_extra")
						c.Distinct("nontrivial", c.ID+cl.id+fmt.Sprint(pf))
						if cl.valid != (r.Exit == 0) {
							c.Violation("verdict-depends-on-earlier-builds:"+cl.id, fmt.Sprintf("class %s right after another build %v in the same process: exit %d\n%s", cl.id, pf, r.Exit, tailStr(r.Out, 600)), FilesMap(cl.files()), nil)
						} else if r.Exit != 0 && serr == nil {
							c.Violation("failure-writes-output-after-earlier-builds:"+cl.id, "a failing build wrote the output file ("+cl.id+")", FilesMap(cl.files()), nil)
						}
					}
				}
				c.Distinct("all", c.ID)
			})
			// the report cannot be written (stdout is /dev/full, or closed): whatever happens, exit status 0 still means
			// that the complete file is there
			for _, cl := range classes[:2] {
				for si, how := range []string{"/dev/full", "closed"} {
					for _, quiet := range []bool{false, true} {
						cl, si, how, quiet := cl, si, how, quiet
						w.Case(fmt.Sprintf("stdout-unwritable/%s/%d/quiet=%v", cl.id, si, quiet), func(c *C) {
							dir := w.FreshDir()
							files := cl.files()
							var args []string
							for _, f := range files {
								os.WriteFile(f.Name, []byte(f.Content), 0o644)
								args = append(args, "-i", f.Name)
							}
							ref := Tool("1.2.3", "1.2.3 unknown", append(append([]string{}, args...), "-o", "ref.go")...)
							want, _ := os.ReadFile("ref.go")
							a := append(append([]string{"build"}, args...), "-o", "out.go")
							if quiet {
								a = append(a, "--quiet")
							}
							cmd := exec.Command(filepath.Join(w.Shared, "gontainer"), a...)
							cmd.Dir = dir
							cmd.Env = []string{"HOME=/nonexistent", "PATH=/usr/bin:/bin"}
							if how == "/dev/full" {
								f, err := os.OpenFile("/dev/full", os.O_WRONLY, 0)
								if err != nil {
									return
								}
								defer f.Close()
								cmd.Stdout, cmd.Stderr = f, f
							} else {
								f, _ := os.CreateTemp(dir, "closed")
								f.Close()
								cmd.Stdout, cmd.Stderr = f, f // a closed descriptor
							}
							err := cmd.Run()
							code := 0
							if ee, ok := err.(*exec.ExitError); ok {
								code = ee.ExitCode()
							} else if err != nil {
								return // could not even be started this way
							}
							got, rerr := os.ReadFile(filepath.Join(dir, "out.go"))
							c.Count("binary_runs")
							c.Distinct("nontrivial", c.ID)
							if code == 0 && (rerr != nil || !ref.OK() || stripVersionLine(string(got)) != stripVersionLine(string(want))) {
								c.Violation("exit0-without-complete-output:stdout-unwritable", fmt.Sprintf("stdout %s, quiet=%v: exit status 0 but the output file is missing or incomplete (%v)", how, quiet, rerr), FilesMap(files), nil)
							}
						})
					}
				}
			}
			// real binary: exit status per class
			for _, cl := range classes {
				cl := cl
				w.Case("binary/"+cl.id, func(c *C) {
					dir := w.FreshDir()
					files := cl.files()
					for _, f := range files {
						if d := filepath.Dir(f.Name); d != "." {
							os.MkdirAll(d, 0o755)
						}
						os.WriteFile(f.Name, []byte(f.Content), 0o644)
					}
					var args []string
					if cl.args != nil {
						args = cl.args(files)
					} else {
						for _, f := range files {
							args = append(args, "-i", f.Name)
						}
					}
					ipr := Tool("1.2.3", "1.2.3 unknown", append(append([]string{}, args...), "-o", "inproc.go")...)
					cmd := exec.Command(filepath.Join(w.Shared, "gontainer"), append(append([]string{"build"}, args...), "-o", "out.go")...)
					cmd.Dir = dir
					cmd.Env = []string{"HOME=/nonexistent", "PATH=/usr/bin:/bin"}
					out, err := cmd.CombinedOutput()
					code := 0
					if ee, ok := err.(*exec.ExitError); ok {
						code = ee.ExitCode()
					} else if err != nil {
						code = -1
					}
					c.Count("binary_runs")
					c.Distinct("nontrivial", c.ID)
					want := 0
					if ipr.Exit != 0 {
						want = 1
					}
					if code != want {
						c.Violation("binary-exit-status:"+cl.id, fmt.Sprintf("binary exits %d, in-process command says %d (class %s)\n%s", code, want, cl.id, out), FilesMap(files), nil)
					}
					if code != 0 && code != 1 {
						c.Violation("binary-exit-not-0-or-1", fmt.Sprintf("exit status %d", code), FilesMap(files), nil)
					}
					_, statErr := os.Stat("out.go")
					if (code == 0) != (statErr == nil) {
						c.Violation("binary-exit-vs-file", fmt.Sprintf("exit %d but output file present=%v (class %s)", code, statErr == nil, cl.id), FilesMap(files), nil)
					}
				})
			}
		},
	})
}
