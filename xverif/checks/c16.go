package checks

import (
	"fmt"
	"strings"
	"time"

	. "github.com/gontainer/gontainer/xverif/core"
)

// C16 — ignore flags only narrow the set of diagnostics. Defect mixes x the four flag combinations,
// differential against the no-flag run plus an independent expectation of the classes that must appear.

type c16defect struct {
	id    string
	class string // params | services | cycle | scope | grammar
	apply func(c *Cfg)
	token string // must appear in a diagnostic of the class
}

var c16defects = []c16defect{
	{"mp-param", "params", func(c *Cfg) { c.Params = append(c.Params, Param{"pmOne", "%goneOne%"}) }, `"goneOne"`},
	{"mp-service", "params", func(c *Cfg) {
		c.Services = append(c.Services, Service{Name: "smTwo", Constructor: P("NewT"), Args: []any{"a%goneTwo%"}})
	}, `"goneTwo"`},
	{"mp-decorator", "params", func(c *Cfg) {
		c.Decorators = append(c.Decorators, Decorator{Tag: "tg", Decorator: "DecA", Args: []any{"%goneThree%"}})
	}, `"goneThree"`},
	{"ms-ctor", "services", func(c *Cfg) {
		c.Services = append(c.Services, Service{Name: "ssOne", Constructor: P("NewT"), Args: []any{"@lostOne"}})
	}, `"lostOne"`},
	{"ms-call", "services", func(c *Cfg) {
		c.Services = append(c.Services, Service{Name: "ssTwo", Constructor: P("NewT"), Calls: []Call{{Method: "Set", Args: []any{"@lostTwo"}}}})
	}, `"lostTwo"`},
	{"ms-decorator", "services", func(c *Cfg) {
		c.Decorators = append(c.Decorators, Decorator{Tag: "tg", Decorator: "DecB", Args: []any{"@lostThree"}})
	}, `"lostThree"`},
	{"mp-value-field", "params", func(c *Cfg) {
		c.Services = append(c.Services, Service{Name: "svmOne", Value: P("Thing{}"), Fields: []KV{{"F", "x%goneValue%"}}})
	}, `"goneValue"`},
	{"ms-value-call", "services", func(c *Cfg) {
		c.Services = append(c.Services, Service{Name: "svsOne", Type: P("Thing"), Calls: []Call{{Method: "Set", Args: []any{1, "@lostValue"}}}})
	}, `"lostValue"`},
	{"cycle-next-to-missing-in-one-value", "cycle", func(c *Cfg) {
		c.Params = append(c.Params, Param{"pxDsn", "%aaGoneScheme%://%pxHost%/%zzGonePath%"}, Param{"pxHost", "%pxDsn%"})
		c.Services = append(c.Services, Service{Name: "sxOne", Constructor: P("NewT"), Args: []any{"@aaLostFirst", "@sxTwo", "@zzLostLast"}},
			Service{Name: "sxTwo", Constructor: P("NewT"), Args: []any{"@sxOne"}})
	}, "%pxDsn%"},
	{"param-cycle", "cycle", func(c *Cfg) {
		c.Params = append(c.Params, Param{"pcOne", "%pcTwo%"}, Param{"pcTwo", "x%pcOne%"})
	}, "%pcOne%"},
	{"service-cycle", "cycle", func(c *Cfg) {
		c.Services = append(c.Services, Service{Name: "scOne", Constructor: P("NewT"), Args: []any{"@scTwo"}},
			Service{Name: "scTwo", Constructor: P("NewT"), Fields: []KV{{"F", "@scOne"}}})
	}, "@scOne"},
	{"scope", "scope", func(c *Cfg) {
		c.Services = append(c.Services, Service{Name: "svShared", Constructor: P("NewT"), Args: []any{"@svCtx"}, Scope: P("shared")},
			Service{Name: "svCtx", Constructor: P("NewT"), Scope: P("contextual")})
	}, `"svShared"`},
	{"ms-shared-service", "services", func(c *Cfg) {
		c.Services = append(c.Services, Service{Name: "shHandler", Constructor: P("NewT"), Args: []any{"@shRepo"}, Scope: P("shared")},
			Service{Name: "shRepo", Constructor: P("NewT"), Args: []any{"@lostDb"}, Scope: P("non_shared")})
	}, `"lostDb"`},
	{"scope-next-to-missing", "scope", func(c *Cfg) {
		c.Services = append(c.Services, Service{Name: "smShared", Constructor: P("NewT"), Args: []any{"@aaaMissing", "@smCtx", "@zzzMissing", "%aaaGone%"}, Scope: P("shared")},
			Service{Name: "smCtx", Constructor: P("NewT"), Scope: P("contextual")})
	}, `"smShared"`},
	{"token", "token", func(c *Cfg) {
		// malformed references made of name characters only: a compile error, never a "missing parameter"
		c.Params = append(c.Params, Param{"ptTrailing", "%host.%"}, Param{"ptDouble", "x%db..name%"}, Param{"ptDash", "%time-%y"})
		c.Services = append(c.Services, Service{Name: "stToken", Constructor: P("NewT"), Args: []any{"%a_%"}})
	}, `"%host.%"`},
	{"ref-trailing-blank", "token2", func(c *Cfg) {
		// a declared name followed by white space is a malformed reference (compile error), not a missing service
		c.Services = append(c.Services, Service{Name: "stTrailing", Constructor: P("NewT"), Args: []any{"@carrier\n"}, Fields: []KV{{"F", "@carrier "}}})
	}, `"stTrailing"`},
	{"grammar", "grammar", func(c *Cfg) {
		c.Services = append(c.Services, Service{Name: "1bad", Constructor: P("NewT")})
	}, `"1bad"`},
}

// c16classes: the classes of diagnostics a defect produces
func c16classes(d c16defect) []string {
	switch d.id {
	case "scope-next-to-missing":
		return []string{"scope", "services", "params"}
	case "ms-shared-service":
		return []string{"services"}
	case "cycle-next-to-missing-in-one-value":
		return []string{"cycle", "params", "services"}
	}
	return []string{d.class}
}

var c16prefix = map[string]string{
	"params":   "output.ValidateParamsExist:",
	"services": "output.ValidateServicesExist:",
	"cycle":    "output.ValidateCircularDeps:",
	"scope":    "output.ValidateServicesScopes:",
	"grammar":  "compiler.StepValidateInput:",
	"token":    "compiler.StepCompile",
	"token2":   "compiler.StepCompile",
}

func c16base() *Cfg {
	return &Cfg{
		Params: []Param{{"host", "localhost"}, {"port", 80}, {"addr", "%host%:%port%"}},
		Services: []Service{
			{Name: "carrier", Constructor: P("NewT"), Args: []any{"%addr%"}, Tags: []Tag{{Name: "tg"}}},
			{Name: "user", Constructor: P("NewT"), Args: []any{"@carrier", "!tagged tg"}},
		},
		Decorators: []Decorator{{Tag: "tg", Decorator: "DecBase", Args: []any{"%port%"}}},
	}
}

func init() {
	flagSets := [][]string{{}, {"--ignore-missing-params"}, {"--ignore-missing-services"}, {"--ignore-missing-params", "--ignore-missing-services"},
		{"--stub"}, {"--stub", "--ignore-missing-params"}, {"--stub", "--ignore-missing-services"}, {"--stub", "--ignore-missing-params", "--ignore-missing-services"}}
	Register(&Check{
		ID:    "C16",
		Level: "exploration",
		Rule: "all subsets of size <= k (k=5 quick, all subsets thorough) of 17 injected defects {parameter and service cycles whose members name missing things before the reference that closes the cycle, references to declared services followed by white space (compile stage), missing parameter in a field of a value service, missing service in a call of a type-only service, malformed references made of name characters (compile stage), missing param x3 positions, missing service x3 positions, param cycle, service cycle, scope violation, scope violation on a service that also has missing dependencies, grammar violation} x the 4 combinations of --ignore-missing-params / --ignore-missing-services, each with and without --stub, with --quiet / -q, and in twelve flag spellings; eight sparse configurations (whole sections absent); " +
			"non-trivial = at least one defect and at least one flag set; distinct = distinct (defect set, flags)",
		Assumptions: []string{
			"diagnostic classes are told apart by the rule prefix the tool prints; lines are compared as ordered lists between flag combinations",
			"stage-wise reading: a grammar violation fails the Compile step, so later-stage diagnostics are masked identically under all flag combinations",
		},
		BudgetQuick: 120 * time.Second, BudgetThorough: 600 * time.Second,
		Run: func(w *W) {
			// sparse configurations: whole sections are absent, the defects sit in what is left
			sparse := []struct {
				id      string
				cfg     *Cfg
				classes []string
			}{
				{"only-a-decorator", &Cfg{Decorators: []Decorator{{Tag: "t", Decorator: "Dec", Args: []any{"@lost", "%gone%"}}}}, []string{"services", "params"}},
				{"only-a-decorator-missing-service", &Cfg{Decorators: []Decorator{{Tag: "t", Decorator: "Dec", Args: []any{"@lost"}}}}, []string{"services"}},
				{"decorator-and-parameters-no-services", &Cfg{Params: []Param{{"p", 1}}, Decorators: []Decorator{{Tag: "t", Decorator: "Dec", Args: []any{"@lost", "%p%"}}}}, []string{"services"}},
				{"only-parameters", &Cfg{Params: []Param{{"p", "%gone%"}}}, []string{"params"}},
				{"services-no-parameters", &Cfg{Services: []Service{{Name: "s", Constructor: P("NewT"), Args: []any{"%gone%"}}}}, []string{"params"}},
				{"services-no-parameters-missing-service", &Cfg{Services: []Service{{Name: "s", Constructor: P("NewT"), Fields: []KV{{"F", "@lost"}}}}}, []string{"services"}},
				{"one-todo-service-and-a-decorator", &Cfg{Services: []Service{{Name: "s", Todo: P(true)}}, Decorators: []Decorator{{Tag: "t", Decorator: "Dec", Args: []any{"@lost"}}}}, []string{"services"}},
				{"nothing-missing-only-a-decorator", &Cfg{Decorators: []Decorator{{Tag: "t", Decorator: "Dec", Args: []any{1}}}}, nil},
			}
			// where the missing name would sort among the declared ones (before all, between each two, after all), the
			// declared ones being of every scope, the referrer of every scope and sorting first or last, the reference direct,
			// through a service of default scope, or in the argument of a decorator: missing is missing, nothing else
			for _, refScope := range []*string{nil, P("shared"), P("contextual"), P("non_shared")} {
				for _, refName := range []string{"aa_ref", "zz_ref"} {
					for _, missing := range []string{"a_gone", "c_gone", "e_gone", "g_gone", "i_gone", "zzz_gone"} {
						for _, via := range []string{"direct", "through-default", "decorator"} {
							decl := []Service{{Name: "b_ctx", Constructor: P("NewT"), Scope: P("contextual")}, {Name: "d_def", Constructor: P("NewT")}, {Name: "f_shared", Constructor: P("NewT"), Scope: P("shared")}, {Name: "h_non", Constructor: P("NewT"), Scope: P("non_shared")}}
							ref := Service{Name: refName, Constructor: P("NewT"), Scope: refScope, Args: []any{"@d_def", "@f_shared"}}
							cfgS := &Cfg{Params: []Param{{"b_p", 1}, {"d_p", "%b_p%"}, {"f_p", "x"}}, Services: decl}
							cfgP := &Cfg{Params: []Param{{"b_p", 1}, {"d_p", "%b_p%"}, {"f_p", "x"}}, Services: append([]Service{}, decl...)}
							refP := ref
							switch via {
							case "direct":
								ref.Args = append(ref.Args, "@"+missing)
								refP.Fields = []KV{{"F", "<%" + missing + "%>"}}
							case "through-default":
								ref.Args = append(ref.Args, "@m_mid")
								refP.Args = append(refP.Args, "@m_mid")
								cfgS.Services = append(cfgS.Services, Service{Name: "m_mid", Constructor: P("NewT"), Calls: []Call{{Method: "Set", Args: []any{"@" + missing}}}})
								cfgP.Services = append(cfgP.Services, Service{Name: "m_mid", Constructor: P("NewT"), Calls: []Call{{Method: "Set", Args: []any{"%" + missing + "%"}}}})
							case "decorator":
								ref.Tags = []Tag{{Name: "tgd"}}
								refP.Tags = []Tag{{Name: "tgd"}}
								cfgS.Decorators = []Decorator{{Tag: "tgd", Decorator: "Dec", Args: []any{"@" + missing}}}
								cfgP.Decorators = []Decorator{{Tag: "tgd", Decorator: "Dec", Args: []any{"%" + missing + "%"}}}
							}
							cfgS.Services = append(cfgS.Services, ref)
							cfgP.Services = append(cfgP.Services, refP)
							sc := "unset"
							if refScope != nil {
								sc = *refScope
							}
							id := fmt.Sprintf("missing-name-position/%s/%s/%s/%s", sc, refName, missing, via)
							sparse = append(sparse, struct {
								id      string
								cfg     *Cfg
								classes []string
							}{id + "/service", cfgS, []string{"services"}}, struct {
								id      string
								cfg     *Cfg
								classes []string
							}{id + "/parameter", cfgP, []string{"params"}})
						}
					}
				}
			}
			for _, sp := range sparse {
				sp := sp
				w.Case("sparse/"+sp.id, func(c *C) {
					files := []File{{"c.yaml", sp.cfg.YAML()}}
					c.Distinct("all", c.ID)
					c.Distinct("nontrivial", c.ID)
					for fi, flags := range flagSets {
						ign := map[string]bool{}
						for _, f := range flags {
							if f == "--ignore-missing-params" {
								ign["params"] = true
							}
							if f == "--ignore-missing-services" {
								ign["services"] = true
							}
						}
						want := true
						for _, cl := range sp.classes {
							want = want && ign[cl]
						}
						br := w.Build(files, flags...)
						c.Count("runs")
						c.Count("evaluations_extra")
						if br.Panic != "" {
							c.Violation("panic", "tool panicked ("+sp.id+"):\n"+br.Panic, FilesMap(files), nil)
							return
						}
						if want != (br.Exit == 0) {
							c.Violation("sparse-verdict:"+sp.id, fmt.Sprintf("%s under %v (flag set %d): every defect is of an ignored class = %v, exit %d\n%s", sp.id, flags, fi, want, br.Exit, strings.Join(ErrorLines(br.Out), "\n")), FilesMap(files), map[string]any{"flags": flags})
						}
						lines := ErrorLines(br.Out)
						if strings.HasPrefix(sp.id, "missing-name-position/") {
							for _, l := range lines {
								if !strings.HasPrefix(l, c16prefix[sp.classes[0]]) {
									c.Violation("sparse-foreign-diagnostic:"+sp.classes[0], fmt.Sprintf("%s under %v: the only defect is a missing %s, reported is\n%s", sp.id, flags, sp.classes[0], strings.Join(lines, "\n")), FilesMap(files), map[string]any{"flags": flags})
									break
								}
							}
						}
						for _, cl := range sp.classes {
							n := len(LinesWithPrefix(lines, c16prefix[cl]))
							if ign[cl] && n > 0 {
								c.Violation("sparse-ignored-class-reported:"+sp.id, fmt.Sprintf("%s under %v: diagnostics of the ignored class %s are reported", sp.id, flags, cl), FilesMap(files), map[string]any{"flags": flags})
							}
							if !ign[cl] && n == 0 {
								c.Violation("sparse-defect-not-reported:"+sp.id, fmt.Sprintf("%s under %v: no %s diagnostic\n%s", sp.id, flags, c16prefix[cl], br.Out), FilesMap(files), map[string]any{"flags": flags})
							}
						}
					}
				})
			}
			// the defects and the flags mean the same however the YAML presents the configuration
			for _, sel := range [][]int{{}, {0, 1, 2}, {3, 4, 5}, {0, 4, 6, 8}, {1, 5, 10}} {
				for _, flags := range flagSets[:4] {
					sel, flags := sel, flags
					w.Case(fmt.Sprintf("yaml-presentation/defects%v/%v", sel, flags), func(c *C) {
						cfg := c16base()
						for _, i := range sel {
							c16defects[i].apply(cfg)
						}
						c.Distinct("all", c.ID)
						if len(sel) == 0 {
							w.ShapeInvarianceOK(c, c.ID, []File{{"c.yaml", cfg.YAML()}}, true, flags...)
							w.NameInvariance(c, c.ID, cfg, flags...)
							return
						}
						w.ShapeInvariance(c, c.ID, []File{{"c.yaml", cfg.YAML()}}, flags...)
						w.NameInvariance(c, c.ID, cfg, flags...)
					})
				}
			}
			k := 5
			if !w.Env.Quick() {
				k = len(c16defects)
			}
			for size := 0; size <= k; size++ {
				combos(len(c16defects), size, func(idx []int) {
					sel := append([]int{}, idx...)
					w.Case(fmt.Sprintf("defects%v", sel), func(c *C) {
						cfg := c16base()
						var ids []string
						hasGrammar, hasToken, hasToken2 := false, false, false
						for _, i := range sel {
							c16defects[i].apply(cfg)
							ids = append(ids, c16defects[i].id)
							if c16defects[i].class == "grammar" {
								hasGrammar = true
							}
							if c16defects[i].class == "token" {
								hasToken = true
							}
							if c16defects[i].class == "token2" {
								hasToken2 = true
							}
						}
						y := cfg.YAML()
						files := []File{{"c.yaml", y}}
						fm := FilesMap(files)
						desc := strings.Join(ids, "+")
						if len(sel) == 2 && sel[0] == 1 && sel[1] == 5 {
							c.Sample(map[string]any{"defects": ids, "yaml": y})
						}
						var base BuildResult
						var baseLines []string
						for fi, flags := range flagSets {
							br := w.Build(files, flags...)
							c.Count("runs")
							c.Count("evaluations_extra")
							c.Distinct("all", c.ID+fmt.Sprint(fi))
							if len(sel) > 0 && fi > 0 {
								c.Distinct("nontrivial", c.ID+fmt.Sprint(fi))
							}
							if br.Panic != "" {
								c.Violation("panic", "tool panicked ("+desc+", "+strings.Join(flags, " ")+"):\n"+br.Panic, fm, nil)
								return
							}
							lines := ErrorLines(br.Out)
							if fi == 4 {
								// the --stub block is compared with its own no-ignore-flag run
								if br.Exit != base.Exit || strings.Join(lines, "\n") != strings.Join(baseLines, "\n") {
									c.Violation("stub-changes-diagnostics", fmt.Sprintf("defects %s: --stub changes the verdict or the diagnostics", desc), fm, nil)
								}
								base, baseLines = br, lines
								continue
							}
							if fi == 0 {
								base, baseLines = br, lines
								// independent expectation for the no-flag run
								if len(sel) == 0 {
									if br.Exit != 0 {
										c.Violation("base-rejected", "defect-free configuration rejected:\n"+br.Out, fm, nil)
									}
								} else if br.Exit == 0 {
									c.Violation("defects-accepted:"+desc, "configuration with defects "+desc+" accepted without flags", fm, nil)
								}
								for _, i := range sel {
									d := c16defects[i]
									// stages run in sequence (validation, parameters, services, output rules); the first failing one masks the rest
									stage := map[string]int{"grammar": 1, "token": 2, "token2": 3}
									st := func(cl string) int {
										if v, ok := stage[cl]; ok {
											return v
										}
										return 4
									}
									first := 4
									if hasToken2 {
										first = 3
									}
									if hasToken {
										first = 2
									}
									if hasGrammar {
										first = 1
									}
									if st(d.class) != first {
										continue // masked by the earlier stage
									}
									found := false
									for _, l := range LinesWithPrefix(lines, c16prefix[d.class]) {
										if strings.Contains(l, d.token) {
											found = true
										}
									}
									if !found {
										c.Violation("noflag-missing-diagnostic:"+d.id, fmt.Sprintf("defect %s: no %s diagnostic mentioning %s in the no-flag run\n%s", d.id, c16prefix[d.class], d.token, br.Out), fm, nil)
									}
								}
								continue
							}
							ignore := map[string]bool{}
							for _, f := range flags {
								if f == "--ignore-missing-params" {
									ignore[c16prefix["params"]] = true
								}
								if f == "--ignore-missing-services" {
									ignore[c16prefix["services"]] = true
								}
							}
							var want []string
							for _, l := range baseLines {
								drop := false
								for p := range ignore {
									if strings.HasPrefix(l, p) {
										drop = true
									}
								}
								if hasGrammar || hasToken || hasToken2 {
									drop = false
								}
								if !drop {
									want = append(want, l)
								}
							}
							fl := strings.Join(flags, " ")
							if strings.Join(want, "\n") != strings.Join(lines, "\n") {
								c.Violation("flag-changes-other-diagnostics:"+fl, fmt.Sprintf("defects %s under %s: expected the no-flag diagnostics minus the ignored class(es):\n%s\nobserved:\n%s", desc, fl, strings.Join(want, "\n"), strings.Join(lines, "\n")), fm, map[string]any{"flags": flags})
							}
							// independent of the tool's own no-flag report: accepted iff every injected defect is of an ignored class
							indep := true
							for _, i := range sel {
								for _, cl := range c16classes(c16defects[i]) {
									if !(cl == "params" && ignore[c16prefix["params"]] || cl == "services" && ignore[c16prefix["services"]]) {
										indep = false
									}
								}
							}
							if indep != (br.Exit == 0) {
								c.Violation("flag-verdict-vs-injected-defects:"+fl, fmt.Sprintf("defects %s under %s: every injected defect is of an ignored class = %v, exit %d\n%s", desc, fl, indep, br.Exit, strings.Join(lines, "\n")), fm, map[string]any{"flags": flags})
							}
							wantAccept := len(want) == 0
							if wantAccept != (br.Exit == 0) {
								c.Violation("flag-verdict:"+fl, fmt.Sprintf("defects %s under %s: remaining diagnostics %d, exit %d\n%s", desc, fl, len(want), br.Exit, br.Out), fm, map[string]any{"flags": flags})
							}
							if base.Exit == 0 && (br.Exit != 0 || br.Output != base.Output) {
								c.Violation("flag-changes-accepted-output:"+fl, "configuration accepted without flags yields a different result under "+fl, fm, map[string]any{"flags": flags})
							}
							if br.Exit == 0 && !br.OutExists {
								c.Violation("accepted-without-output", "exit 0 but no output under "+fl, fm, nil)
							}
						}
						// --quiet changes what is printed, never what the ignore flags mean
						if len(sel) <= 3 {
							for _, fl := range [][]string{{}, {"--ignore-missing-params"}, {"--ignore-missing-services"}, {"--ignore-missing-params", "--ignore-missing-services"}} {
								a := w.Build(files, fl...)
								for _, q := range [][]string{{"--quiet"}, {"-q"}} {
									b := w.Build(files, append(append([]string{}, q...), fl...)...)
									c.Count("runs")
									c.Count("evaluations_extra")
									if a.Exit != b.Exit || a.Output != b.Output || a.OutExists != b.OutExists {
										c.Violation("quiet-changes-flag-meaning:"+strings.Join(fl, " "), fmt.Sprintf("defects %s under %v: exit %d, with %s exit %d (or a different output file)", desc, fl, a.Exit, q[0], b.Exit), fm, map[string]any{"flags": append(q, fl...)})
									}
								}
							}
						}
						// spellings of the same flag values: explicit =true / =false, repeated flags (the last one wins)
						if len(sel) <= 2 {
							P_, S_ := "--ignore-missing-params", "--ignore-missing-services"
							for _, sp := range []struct{ spelled, canonical []string }{
								{[]string{P_ + "=false"}, nil},
								{[]string{S_ + "=false"}, nil},
								{[]string{P_ + "=false", S_ + "=false"}, nil},
								{[]string{P_ + "=true"}, []string{P_}},
								{[]string{S_ + "=true"}, []string{S_}},
								{[]string{P_, P_ + "=false"}, nil},
								{[]string{S_, S_ + "=false"}, nil},
								{[]string{P_ + "=false", P_}, []string{P_}},
								{[]string{P_ + "=false", S_}, []string{S_}},
								{[]string{P_, S_ + "=false"}, []string{P_}},
								{[]string{"--stub=false", S_}, []string{S_}},
								{[]string{"--quiet=false", P_, S_ + "=true"}, []string{P_, S_}},
							} {
								a := w.Build(files, sp.spelled...)
								b := w.Build(files, sp.canonical...)
								c.Count("runs")
								c.Count("evaluations_extra")
								if a.Exit != b.Exit || strings.Join(ErrorLines(a.Out), "\n") != strings.Join(ErrorLines(b.Out), "\n") || a.Output != b.Output {
									fl := strings.Join(sp.spelled, " ")
									c.Violation("flag-spelling:"+fl, fmt.Sprintf("defects %s: %q must behave like %q; exit %d vs %d\n%s\n--- vs ---\n%s", desc, fl, strings.Join(sp.canonical, " "), a.Exit, b.Exit, strings.Join(ErrorLines(a.Out), "\n"), strings.Join(ErrorLines(b.Out), "\n")), fm, map[string]any{"flags": sp.spelled})
								}
							}
						}
					})
				})
			}
		},
	})
}
