package checks

import (
	"fmt"
	"go/parser"
	"go/token"
	"os"
	"strings"
	"time"

	. "github.com/gontainer/gontainer/xverif/core"
)

// C12 — total on arbitrary input: no panic, no hang. Bounded byte strings (whole file and spliced into a
// valid configuration), schema-aware node-kind confusions (singly and in pairs), glob patterns, flag
// presence combinations, dense dependency graphs, deep nesting and long names. Every case runs in a worker
// process with a per-case watchdog; a worker that dies or hangs is re-run in isolation three times.

var c12sigma = []string{"a", "0", ":", " ", "\n", "\t", "-", "[", "]", "{", "}", `"`, "'", "&", "*", "!", "%", "@", "#", "|", "<", "\xff"}

// positions of the schema and their default (valid) YAML text
var c12positions = []struct{ id, def string }{
	{"top", ""}, {"version", `"1.0.0"`}, {"meta", ""}, {"meta.pkg", `"gen"`}, {"meta.container_type", `"Box"`}, {"meta.container_constructor", `"NewBox"`},
	{"meta.default_must_getter", "true"}, {"meta.imports", ""}, {"meta.imports.x", `"fx/pk"`}, {"meta.functions", ""}, {"meta.functions.f", `"pk.Fn"`},
	{"parameters", ""}, {"parameters.p", "1"}, {"services", ""}, {"services.s", ""}, {"getter", `"GetS"`}, {"must_getter", "true"}, {"type", `"*pk.T"`}, {"value", "null"},
	{"constructor", `"pk.New"`}, {"arguments", ""}, {"arguments.0", `"%p%"`}, {"calls", ""}, {"calls.0", ""}, {"calls.0.0", `"Set"`}, {"calls.0.1", `["x"]`}, {"calls.0.2", "false"},
	{"fields", ""}, {"fields.F", "2"}, {"tags", ""}, {"tags.0", ""}, {"tags.0.name", `"tg"`}, {"tags.0.priority", "5"}, {"scope", `"shared"`}, {"todo", "false"},
	{"decorators", ""}, {"decorators.0", ""}, {"decorators.0.tag", `"tg"`}, {"decorators.0.decorator", `"pk.Dec"`}, {"decorators.0.arguments", ""}, {"decorators.0.arguments.0", `"%p%"`},
}

var c12shapes = []string{"null", "~", "true", "1", "-1", "1.5", ".nan", ".inf", `""`, `"x"`, "[]", "[x]", "[[x]]", "{}", "{a: b}", "{1: 2}", "{[a]: b}", "&anc x", "*anc", "!!binary aGVsbG8=", "!!str 5", "!custom x", "2001-12-14t21:59:43.10-05:00", "{<<: {a: 1}}", "0x1F", "0o17", "1e400", "18446744073709551616", "? a", "- x"}

func c12render(over map[string]string) string {
	g := func(id string) (string, bool) {
		if v, ok := over[id]; ok {
			return v, true
		}
		for _, p := range c12positions {
			if p.id == id {
				return p.def, p.def != ""
			}
		}
		return "", false
	}
	leaf := func(id string) string { v, _ := g(id); return v }
	comp := func(id string, build func() string) string {
		if v, ok := over[id]; ok {
			return v
		}
		return build()
	}
	if v, ok := over["top"]; ok {
		return "anchor: &anc x\n" + "doc: " + v + "\n"
	}
	tag0 := comp("tags.0", func() string { return "{name: " + leaf("tags.0.name") + ", priority: " + leaf("tags.0.priority") + "}" })
	call0 := comp("calls.0", func() string {
		return "[" + leaf("calls.0.0") + ", " + leaf("calls.0.1") + ", " + leaf("calls.0.2") + "]"
	})
	svc := comp("services.s", func() string {
		return "{getter: " + leaf("getter") + ", must_getter: " + leaf("must_getter") + ", type: " + leaf("type") + ", value: " + leaf("value") + ", constructor: " + leaf("constructor") +
			", arguments: " + comp("arguments", func() string { return "[" + leaf("arguments.0") + "]" }) +
			", calls: " + comp("calls", func() string { return "[" + call0 + "]" }) +
			", fields: " + comp("fields", func() string { return "{F: " + leaf("fields.F") + "}" }) +
			", tags: " + comp("tags", func() string { return "[" + tag0 + "]" }) +
			", scope: " + leaf("scope") + ", todo: " + leaf("todo") + "}"
	})
	dec0 := comp("decorators.0", func() string {
		return "{tag: " + leaf("decorators.0.tag") + ", decorator: " + leaf("decorators.0.decorator") + ", arguments: " + comp("decorators.0.arguments", func() string { return "[" + leaf("decorators.0.arguments.0") + "]" }) + "}"
	})
	meta := comp("meta", func() string {
		return "{pkg: " + leaf("meta.pkg") + ", container_type: " + leaf("meta.container_type") + ", container_constructor: " + leaf("meta.container_constructor") + ", default_must_getter: " + leaf("meta.default_must_getter") +
			", imports: " + comp("meta.imports", func() string { return "{pk: " + leaf("meta.imports.x") + "}" }) +
			", functions: " + comp("meta.functions", func() string { return "{f: " + leaf("meta.functions.f") + "}" }) + "}"
	})
	var b strings.Builder
	b.WriteString("anchors: &anc x\n")
	b.WriteString("version: " + leaf("version") + "\n")
	b.WriteString("meta: " + meta + "\n")
	b.WriteString("parameters: " + comp("parameters", func() string { return "{p: " + leaf("parameters.p") + "}" }) + "\n")
	b.WriteString("services: " + comp("services", func() string { return "{s: " + svc + "}" }) + "\n")
	b.WriteString("decorators: " + comp("decorators", func() string { return "[" + dec0 + "]" }) + "\n")
	return b.String()
}

var c12sentinel = strings.Repeat("this is not Go, it was here before; ", 6000)

// c12check runs the command and asserts the universal obligations.
func c12check(c *C, id string, files []File, args []string, keyClass string) {
	w := c.W
	w.FreshDir()
	for _, f := range files {
		os.WriteFile(f.Name, []byte(f.Content), 0o644)
	}
	// a third of the cases find something at the output path: longer than anything the command writes
	prefilled := false
	if h := Sha(id); h[0] <= '5' {
		for i := 0; i+1 < len(args); i++ {
			if args[i] == "-o" && args[i+1] == "out.go" {
				prefilled = true
			}
		}
		if prefilled {
			os.WriteFile("out.go", []byte(c12sentinel), 0o644)
			c.Count("runs_with_existing_output")
		}
	}
	start := time.Now()
	r := Tool("1.0.0", "1.0.0 unknown", args...)
	el := time.Since(start)
	c.Count("runs")
	fm := FilesMap(files)
	extra := map[string]any{"args": args}
	if r.Panic != "" {
		first := strings.SplitN(r.Panic, "\n", 2)[0]
		c.Violation("panic:"+keyClass+":"+compilerKey(first), fmt.Sprintf("the command panicked (%s): %s", id, r.Panic), fm, extra)
		return
	}
	if el > 20*time.Second {
		// not an alarm (wall-clock under load proves nothing); the hang watchdog with isolated re-runs decides
		c.W.Note(fmt.Sprintf("slow case: the command needed %s on %s", el, id))
		c.Count("slow_cases")
	}
	content, err := os.ReadFile("out.go")
	if r.Exit == 0 {
		c.Count("accepted")
		if err != nil {
			c.Violation("exit0-without-output", "exit 0 without the output file ("+id+")", fm, extra)
		} else if _, perr := parser.ParseFile(token.NewFileSet(), "out.go", content, 0); perr != nil {
			c.Violation("exit0-output-not-go:"+keyClass, "exit 0 but the output does not parse as Go ("+id+"): "+perr.Error(), fm, extra)
		}
	} else {
		c.Count("rejected")
		if prefilled {
			if err != nil || string(content) != c12sentinel {
				c.Violation("failure-touches-output", "exit != 0 but the existing output file was changed or removed ("+id+")", fm, extra)
			}
		} else if err == nil {
			c.Violation("failure-writes-output", "exit != 0 but the output file was written ("+id+")", fm, extra)
		}
	}
}

func init() {
	valid := c12render(nil)
	Register(&Check{
		ID:    "C12",
		Level: "exploration",
		Rule: "(a) every byte string of length <= 3 (quick) / <= 4 (thorough) over 22 YAML-significant bytes (incl. 0xFF) as a whole input file and spliced at three anchor points of a valid configuration; (b) 41 schema positions x 30 node shapes (null, bools, numbers, non-finite and overflowing numbers, strings, sequences, mappings with scalar / numeric / sequence keys, anchors and aliases, tags, timestamps, merge keys, block indicators) singly and (thorough: all; quick: every pair involving a composite shape in the first position) in pairs; " +
			"(c) every glob pattern of length <= 3 (quick) / <= 4 (thorough) over {*, ?, [, ], \\, a, /, ., -, ^}; (c2) 1..100 -i patterns at once (matching nothing, the same file, a file each; next to a valid / an invalid file); (l) eleven output paths that cannot be written or inspected (file as parent, over-long name / path, link loop, directory, NUL, /dev/full ...) x valid / invalid input x {plain, quiet, stub}; (d) all 64 presence combinations of the 6 flags; (e) complete digraphs K2..K5 (thorough K6) as service and as parameter dependency graphs; (e2) layered acyclic graphs of depth 8 / 20 / 40 with 2^depth paths (service arguments, fields + calls, tags, decorators, parameters) x root and leaf scopes; (k) configurations producing exactly n diagnostics for n around 1, 10, 100, 256, 1000 in four classes x {plain, --quiet, --stub}; (f) nesting depth 2^k up to 4096 and names of 64 KiB; (g) every string of length <= 4 (quick) / <= 5 (thorough) over {(, ), \", a, +, [, ], ., comma, 1} as the argument text of env / envInt / todo chunks; (i) all 64 two-alias tables whose paths begin with aliases x 5 references; (j) input file names (non-ASCII, combining characters, invalid UTF-8, spaces, up to 240 bytes) x 3 contents x 3 ways of naming them; (h) all pairs and triples of the 11 semantic defects of C16 x 4 flag combinations. Oracle: returns, exit status 0 or 1, exit 0 => the output parses as Go, exit != 0 => no output written and (a third of the cases start with a long file at the output path) an existing file untouched; non-trivial = rejected or contains a non-alphanumeric byte; distinct = distinct input",
		Assumptions: []string{"a hang is one invocation exceeding the 60 s tool watchdog in the worker and in three isolated re-runs; cases slower than 20 s are listed as notes, never as violations", "printer write errors (closed stdout) are outside the input space", "glob patterns that start with / or contain .. are not generated: they match files outside the case directory (devices, /proc), which are not inputs of bounded size"},
		BudgetQuick: 280 * time.Second, BudgetThorough: 1700 * time.Second,
		Run: func(w *W) {
			L, G := 3, 3
			if !w.Env.Quick() {
				L, G = 4, 4
			}
			std := []string{"-i", "c.yaml", "-o", "out.go"}
			// (a)
			anchors := []struct{ id, before, after string }{
				{"whole", "", ""},
				{"param-value", "parameters:\n  p: ", "\nservices:\n  s: {value: \"T{}\"}\n"},
				{"service-body", "services:\n  s:\n    constructor: \"New\"\n    ", "\n"},
				{"argument", "services:\n  s:\n    constructor: \"New\"\n    arguments: [", "]\n"},
			}
			words(c12sigma, L, func(x string) {
				for _, a := range anchors {
					a := a
					id := fmt.Sprintf("bytes/%s/%q", a.id, x)
					w.Case(id, func(c *C) {
						c.Distinct("all", id)
						c.Distinct("nontrivial", id)
						c12check(c, id, []File{{"c.yaml", a.before + x + a.after}}, std, "bytes-"+a.id)
					})
				}
			})
			// (b)
			for _, p := range c12positions {
				for _, sh := range c12shapes {
					p, sh := p, sh
					id := fmt.Sprintf("shape/%s=%s", p.id, sh)
					w.Case(id, func(c *C) {
						c.Distinct("all", id)
						c.Distinct("nontrivial", id)
						c12check(c, id, []File{{"c.yaml", c12render(map[string]string{p.id: sh})}}, std, "shape-"+p.id)
						if p.id == "calls.0.1" && sh == "{a: b}" {
							c.Sample(map[string]any{"position": p.id, "shape": sh, "yaml": c12render(map[string]string{p.id: sh})})
						}
					})
				}
			}
			composite := map[string]bool{"[]": true, "[x]": true, "{}": true, "{a: b}": true, "*anc": true, "{<<: {a: 1}}": true, "null": true}
			for i, p1 := range c12positions {
				for j, p2 := range c12positions {
					if j <= i || strings.HasPrefix(p2.id, p1.id+".") || p1.id == "top" {
						continue
					}
					for _, s1 := range c12shapes {
						if w.Env.Quick() && !composite[s1] {
							continue
						}
						for _, s2 := range c12shapes {
							if w.Env.Quick() && !composite[s2] {
								continue
							}
							p1, p2, s1, s2 := p1, p2, s1, s2
							id := fmt.Sprintf("pair/%s=%s/%s=%s", p1.id, s1, p2.id, s2)
							w.Case(id, func(c *C) {
								c.Distinct("all", id)
								c.Distinct("nontrivial", id)
								c12check(c, id, []File{{"c.yaml", c12render(map[string]string{p1.id: s1, p2.id: s2})}}, std, "pair")
							})
						}
					}
				}
			}
			// (c) glob patterns
			words([]string{"*", "?", "[", "]", `\`, "a", "/", ".", "-", "^"}, G, func(x string) {
				if strings.HasPrefix(x, "/") || strings.Contains(x, "..") {
					// patterns that leave the case directory match whatever the machine holds (device files, /proc):
					// those inputs are neither bounded nor under the check's control
					return
				}
				id := fmt.Sprintf("glob/%q", x)
				w.Case(id, func(c *C) {
					c.Distinct("all", id)
					c.Distinct("nontrivial", id)
					c12check(c, id, []File{{"a", valid}, {"a.a", valid}}, []string{"-i", x, "-o", "out.go"}, "glob")
				})
			})
			// (c2) many -i patterns at once: k patterns that match nothing (and k that match) next to a valid file, and alone
			for _, k := range []int{1, 2, 5, 10, 11, 12, 15, 16, 20, 40, 100} {
				for _, mode := range []string{"none-match+valid", "none-match", "all-match-the-same", "each-matches-its-own", "none-match+invalid"} {
					k, mode := k, mode
					id := fmt.Sprintf("many-patterns/%s/%d", mode, k)
					w.Case(id, func(c *C) {
						var files []File
						var args []string
						switch mode {
						case "none-match+valid", "none-match", "none-match+invalid":
							for i := 0; i < k; i++ {
								args = append(args, "-i", fmt.Sprintf("nothing-%d-*.yaml", i))
							}
							if mode == "none-match+valid" {
								files = []File{{"c.yaml", valid}}
								args = append(args, "-i", "c.yaml")
							}
							if mode == "none-match+invalid" {
								files = []File{{"c.yaml", "parameters: {p: \"%nope%\"}\n"}}
								args = append([]string{"-i", "c.yaml"}, args...)
							}
						case "all-match-the-same":
							files = []File{{"c.yaml", valid}}
							for i := 0; i < k; i++ {
								args = append(args, "-i", "c.yaml")
							}
						case "each-matches-its-own":
							for i := 0; i < k; i++ {
								files = append(files, File{fmt.Sprintf("f%03d.yaml", i), fmt.Sprintf("parameters: {p%d: %d}\n", i, i)})
								args = append(args, "-i", fmt.Sprintf("f%03d.yaml", i))
							}
						}
						c.Distinct("all", id)
						c.Distinct("nontrivial", id)
						c12check(c, id, files, append(args, "-o", "out.go"), "many-patterns")
					})
				}
			}
			// (l) output paths that cannot be written or not even inspected: status 1, no panic, whatever the flags
			for oi, o := range []struct {
				id, path string
				setup    func()
			}{
				{"parent-is-a-file", "blocker/out.go", func() { os.WriteFile("blocker", []byte("x"), 0o644) }},
				{"name-too-long", strings.Repeat("n", 300) + ".go", func() {}},
				{"path-too-long", strings.Repeat("d/", 2500) + "out.go", func() {}},
				{"symlink-loop", "loop/out.go", func() { os.Symlink("loop", "loop") }},
				{"is-a-directory", "outdir", func() { os.MkdirAll("outdir/sub", 0o755) }},
				{"missing-parent", "no/such/dir/out.go", func() {}},
				{"empty-name", "", func() {}},
				{"nul-in-name", "a\x00b.go", func() {}},
				{"dangling-symlink", "dangling.go", func() { os.Symlink("nowhere/else.go", "dangling.go") }},
				{"dev-null", "/dev/null", func() {}},
				{"dev-full", "/dev/full", func() {}},
			} {
				for _, flags := range [][]string{nil, {"--quiet"}, {"--stub"}} {
					for _, ok := range []bool{true, false} {
						oi, o, flags, ok := oi, o, flags, ok
						id := fmt.Sprintf("output-path/%d-%s/valid=%v/%v", oi, o.id, ok, flags)
						w.Case(id, func(c *C) {
							w.FreshDir()
							content := valid
							if !ok {
								content = "parameters: {p: \"%nope%\"}\n"
							}
							os.WriteFile("c.yaml", []byte(content), 0o644)
							o.setup()
							args := append([]string{"-i", "c.yaml", "-o", o.path}, flags...)
							r := Tool("1.0.0", "1.0.0 unknown", args...)
							c.Count("runs")
							c.Distinct("all", id)
							c.Distinct("nontrivial", id)
							fm := map[string]string{"c.yaml": content}
							if r.Panic != "" {
								first := strings.SplitN(r.Panic, "\n", 2)[0]
								c.Violation("panic:output-path:"+compilerKey(first), fmt.Sprintf("the command panicked (%s): %s", id, r.Panic), fm, map[string]any{"args": args})
								return
							}
							if o.id != "dev-null" && r.Exit == 0 {
								c.Violation("exit0-unwritable-output:"+o.id, "exit 0 although the output path cannot hold the file ("+id+")", fm, map[string]any{"args": args})
							}
						})
					}
				}
			}
			// (m) input entries that exist as names and cannot be read or not even inspected - named literally, matched by a
			// pattern, alone, before and after a readable file: status 1 (or 0 where the entry can be read after all), no panic
			for ii, in := range []struct {
				id    string
				setup func()
				ok    bool // the entry is readable in the end
			}{
				{"dangling-symlink", func() { os.Symlink("nowhere.yaml", "in-x.yaml") }, false},
				{"self-loop-symlink", func() { os.Symlink("in-x.yaml", "in-x.yaml") }, false},
				{"two-link-loop", func() { os.Symlink("in-y.yaml", "in-x.yaml"); os.Symlink("in-x.yaml", "in-y.yaml") }, false},
				{"directory", func() { os.MkdirAll("in-x.yaml/sub", 0o755) }, false},
				{"symlink-to-a-directory", func() { os.MkdirAll("d", 0o755); os.Symlink("d", "in-x.yaml") }, false},
				{"symlink-to-a-valid-file", func() {
					os.WriteFile("target", []byte("parameters: {q: 1}\n"), 0o644)
					os.Symlink("target", "in-x.yaml")
				}, true},
				{"symlink-into-a-file", func() { os.WriteFile("target", []byte("x"), 0o644); os.Symlink("target/below", "in-x.yaml") }, false},
				{"empty-file", func() { os.WriteFile("in-x.yaml", nil, 0o644) }, true},
				{"dev-null-link", func() { os.Symlink("/dev/null", "in-x.yaml") }, true},
				{"very-long-link-target", func() { os.Symlink(strings.Repeat("t", 255), "in-x.yaml") }, false},
			} {
				for _, shape := range []string{"literal", "pattern", "literal-after-valid", "pattern-with-valid", "literal-before-valid"} {
					for _, flags := range [][]string{nil, {"--quiet", "--stub"}} {
						ii, in, shape, flags := ii, in, shape, flags
						id := fmt.Sprintf("input-entry/%d-%s/%s/%v", ii, in.id, shape, flags)
						w.Case(id, func(c *C) {
							w.FreshDir()
							os.WriteFile("in-a.yaml", []byte(valid), 0o644)
							in.setup()
							var args []string
							switch shape {
							case "literal":
								args = []string{"-i", "in-x.yaml"}
							case "pattern":
								args = []string{"-i", "in-x*"}
							case "literal-after-valid":
								args = []string{"-i", "in-a.yaml", "-i", "in-x.yaml"}
							case "pattern-with-valid":
								args = []string{"-i", "in-*.yaml"}
							case "literal-before-valid":
								args = []string{"-i", "in-x.yaml", "-i", "in-a.yaml"}
							}
							args = append(append(args, "-o", "out.go"), flags...)
							r := Tool("1.0.0", "1.0.0 unknown", args...)
							c.Count("runs")
							c.Distinct("all", id)
							c.Distinct("nontrivial", id)
							if r.Panic != "" {
								first := strings.SplitN(r.Panic, "\n", 2)[0]
								c.Violation("panic:input-entry:"+compilerKey(first), fmt.Sprintf("the command panicked (%s): %s", id, r.Panic), nil, map[string]any{"args": args, "entry": in.id})
								return
							}
							if !in.ok && r.Exit == 0 {
								c.Violation("exit0-unreadable-input:"+in.id, "exit 0 although an input entry cannot be read ("+id+")", nil, map[string]any{"args": args, "entry": in.id})
							}
							if in.ok && r.Exit != 0 && shape != "literal" && shape != "pattern" {
								c.Violation("readable-input-rejected:"+in.id, "exit "+fmt.Sprint(r.Exit)+" although every input entry can be read ("+id+"):\n"+r.Out, nil, map[string]any{"args": args, "entry": in.id})
							}
						})
					}
				}
			}
			// (d) flag presence
			for m := 0; m < 64; m++ {
				m := m
				w.Case(fmt.Sprintf("flags/%06b", m), func(c *C) {
					var args []string
					if m&1 != 0 {
						args = append(args, "-i", "c.yaml")
					}
					if m&2 != 0 {
						args = append(args, "-o", "out.go")
					}
					if m&4 != 0 {
						args = append(args, "--stub")
					}
					if m&8 != 0 {
						args = append(args, "--quiet")
					}
					if m&16 != 0 {
						args = append(args, "--ignore-missing-params")
					}
					if m&32 != 0 {
						args = append(args, "--ignore-missing-services")
					}
					c.Distinct("all", c.ID)
					c.Distinct("nontrivial", c.ID)
					c12check(c, c.ID, []File{{"c.yaml", valid}}, args, "flags")
				})
			}
			for _, extra := range [][]string{{"--nope"}, {"-i"}, {"-o"}, {"extra-positional"}, {"-i", "", "-o", ""}, {"-i", "c.yaml", "-o", ""}, {"-i", "c.yaml", "-o", "."}, {"-i", "c.yaml", "-o", "/"}, {"-i", "c.yaml", "-o", "out.go", "-o", "other.go"}, {"--help"}} {
				extra := extra
				w.Case(fmt.Sprintf("flags/odd/%v", extra), func(c *C) {
					c.Distinct("nontrivial", c.ID)
					w.FreshDir()
					os.WriteFile("c.yaml", []byte(valid), 0o644)
					r := Tool("1.0.0", "x", extra...)
					c.Count("runs")
					if r.Panic != "" {
						c.Violation("panic:flags", "the command panicked on "+fmt.Sprint(extra)+": "+r.Panic, nil, map[string]any{"args": extra})
					}
				})
			}
			// (g) function-call chunks of the built-in functions whose argument text contains Go operators / brackets
			F := 4
			if !w.Env.Quick() {
				F = 5
			}
			words([]string{"(", ")", `"`, "a", "+", "[", "]", ".", ",", "1", "/"}, F, func(x string) {
				id := fmt.Sprintf("fnchunk/%q", x)
				w.Case(id, func(c *C) {
					c.Distinct("all", id)
					c.Distinct("nontrivial", id)
					y := (&Cfg{Params: []Param{{"p", "%env(" + x + ")%"}, {"q", "a%envInt(" + x + ")%%todo(" + x + ")%"}}}).YAML()
					c12check(c, id, []File{{"c.yaml", y}}, std, "fnchunk")
				})
			})
			// (h) semantic defect mixes (the generators of C16) under the universal oracle, all flag combinations
			combos(len(c16defects), 2, func(idx []int) {
				sel := append([]int{}, idx...)
				w.Case(fmt.Sprintf("semantic/%v", sel), func(c *C) {
					for _, extra := range []int{-1, 0, 1, 2, 3, 4, 5, 6, 7, 8, 9, 10} {
						cfg := c16base()
						for _, i := range sel {
							c16defects[i].apply(cfg)
						}
						if extra >= 0 && extra != sel[0] && extra != sel[1] && extra < len(c16defects) {
							c16defects[extra].apply(cfg)
						}
						for fl := 0; fl < 4; fl++ {
							args := append([]string{}, std...)
							if fl&1 != 0 {
								args = append(args, "--ignore-missing-params")
							}
							if fl&2 != 0 {
								args = append(args, "--ignore-missing-services")
							}
							c12check(c, c.ID, []File{{"c.yaml", cfg.YAML()}}, args, "semantic")
						}
					}
					c.Distinct("all", c.ID)
					c.Distinct("nontrivial", c.ID)
				})
			})
			// (i) alias tables whose paths begin with (other) aliases, with references through them
			paths := []string{"a", "b", "a/x", "b/x", "c/a", "x/y", "a/a", "b/a/b"}
			for _, pa := range paths {
				for _, pb := range paths {
					for _, ref := range []string{"a.T", "b.T", "a/z.T", "b/a.T", "c.T"} {
						pa, pb, ref := pa, pb, ref
						id := fmt.Sprintf("aliases/a=%s/b=%s/%s", pa, pb, ref)
						w.Case(id, func(c *C) {
							cfg := &Cfg{Meta: &Meta{Pkg: P("gen"), Imports: []KV{{"a", pa}, {"b", pb}}, Functions: []KV{{"f", "b.F"}}}, Params: []Param{{"p", "%f()%"}},
								Services:   []Service{{Name: "s", Constructor: P(strings.TrimSuffix(ref, ".T") + ".New"), Type: P("*" + ref), Getter: P("GetS"), Args: []any{"!value " + ref + "{}"}}},
								Decorators: []Decorator{{Tag: "t", Decorator: strings.TrimSuffix(ref, ".T") + ".Dec"}}}
							c.Distinct("all", id)
							c.Distinct("nontrivial", id)
							c12check(c, id, []File{{"c.yaml", cfg.YAML()}}, std, "aliases")
						})
					}
				}
			}
			// (e2) layered acyclic graphs: two nodes per layer, each depending on both nodes of the next layer - no cycle,
			// 2^depth paths; the root with each scope, the leaves with each scope (a scope violation is a legitimate answer)
			for _, depth := range []int{8, 20, 40} {
				for _, kind := range []string{"services", "params", "tags", "fields-and-calls", "decorators"} {
					for _, scopes := range [][2]string{{"", ""}, {"shared", ""}, {"shared", "contextual"}, {"contextual", "shared"}, {"non_shared", "non_shared"}} {
						depth, kind, scopes := depth, kind, scopes
						if kind == "params" && scopes[0] != "" {
							continue
						}
						id := fmt.Sprintf("layered/%s/depth%d/root=%s/leaves=%s", kind, depth, scopes[0], scopes[1])
						w.Case(id, func(c *C) {
							cfg := &Cfg{Meta: &Meta{Pkg: P("gen")}}
							node := func(l int, x string) string { return fmt.Sprintf("n%02d%s", l, x) }
							for l := 0; l < depth; l++ {
								for _, x := range []string{"a", "b"} {
									n1, n2 := node(l+1, "a"), node(l+1, "b")
									switch kind {
									case "params":
										v := any("%" + n1 + "%-%" + n2 + "%")
										if l == depth-1 {
											v = l
										}
										cfg.Params = append(cfg.Params, Param{node(l, x), v})
									default:
										sv := Service{Name: node(l, x), Constructor: P("New")}
										if l == 0 && scopes[0] != "" {
											sv.Scope = P(scopes[0])
										}
										if l == depth-1 {
											if scopes[1] != "" {
												sv.Scope = P(scopes[1])
											}
										} else {
											switch kind {
											case "services":
												sv.Args = []any{"@" + n1, "@" + n2}
											case "tags":
												sv.Args = []any{fmt.Sprintf("!tagged t%02d", l+1)}
											case "fields-and-calls":
												sv.Fields = []KV{{"F", "@" + n1}}
												sv.Calls = []Call{{Method: "Set", Args: []any{"@" + n2}}}
											case "decorators":
												sv.Tags = []Tag{{Name: fmt.Sprintf("d%02d%s", l, x)}}
												cfg.Decorators = append(cfg.Decorators, Decorator{Tag: fmt.Sprintf("d%02d%s", l, x), Decorator: "Dec", Args: []any{"@" + n1, "@" + n2}})
											}
										}
										if kind == "tags" && l > 0 {
											sv.Tags = append(sv.Tags, Tag{Name: fmt.Sprintf("t%02d", l)})
										}
										cfg.Services = append(cfg.Services, sv)
									}
								}
							}
							c.Distinct("all", id)
							c.Distinct("nontrivial", id)
							c12check(c, id, []File{{"c.yaml", cfg.YAML()}}, std, "layered")
						})
					}
				}
			}
			// (k) how many diagnostics: 1 ... 1000 errors of one class (powers of ten and of two on either side)
			for _, n := range []int{1, 2, 9, 10, 11, 99, 100, 101, 255, 256, 257, 999, 1000, 1001} {
				for _, class := range []string{"missing-params", "invalid-getters", "unknown-functions", "mixed-output"} {
					for _, flags := range [][]string{nil, {"--quiet"}, {"--stub"}} {
						n, class, flags := n, class, flags
						id := fmt.Sprintf("error-count/%s/%d/%v", class, n, flags)
						w.Case(id, func(c *C) {
							cfg := &Cfg{Meta: &Meta{Pkg: P("gen")}}
							for i := 0; i < n; i++ {
								switch class {
								case "missing-params":
									cfg.Params = append(cfg.Params, Param{fmt.Sprintf("p%04d", i), fmt.Sprintf("%%gone%04d%%", i)})
								case "invalid-getters":
									cfg.Services = append(cfg.Services, Service{Name: fmt.Sprintf("s%04d", i), Constructor: P("New"), Getter: P(fmt.Sprintf("%dx", i))})
								case "unknown-functions":
									cfg.Params = append(cfg.Params, Param{fmt.Sprintf("p%04d", i), fmt.Sprintf("%%nofn%d()%%", i)})
								case "mixed-output":
									if i%2 == 0 {
										cfg.Params = append(cfg.Params, Param{fmt.Sprintf("p%04d", i), fmt.Sprintf("%%gone%04d%%", i)})
									} else {
										cfg.Services = append(cfg.Services, Service{Name: fmt.Sprintf("s%04d", i), Constructor: P("New"), Args: []any{fmt.Sprintf("@lost%04d", i)}})
									}
								}
							}
							c.Distinct("all", id)
							c.Distinct("nontrivial", id)
							c12check(c, id, []File{{"c.yaml", cfg.YAML()}}, append(append([]string{}, std...), flags...), "error-count")
						})
					}
				}
			}
			// (e) dense graphs
			maxK := 5
			if !w.Env.Quick() {
				maxK = 6
			}
			for k := 2; k <= maxK; k++ {
				for _, kind := range []string{"services", "params", "tags"} {
					k, kind := k, kind
					w.Case(fmt.Sprintf("dense/%s/K%d", kind, k), func(c *C) {
						cfg := &Cfg{Meta: &Meta{Pkg: P("gen")}}
						for i := 0; i < k; i++ {
							var args []any
							pat := ""
							for j := 0; j < k; j++ {
								if kind == "tags" {
									args = append(args, "!tagged t"+fmt.Sprint(j))
									continue
								}
								if i != j {
									args = append(args, fmt.Sprintf("@s%d", j))
									pat += fmt.Sprintf("%%p%d%%", j)
								}
							}
							s := Service{Name: fmt.Sprintf("s%d", i), Constructor: P("New")}
							if kind != "params" {
								s.Args = args
							}
							if kind == "tags" {
								s.Tags = []Tag{{Name: "t" + fmt.Sprint(i)}}
							}
							cfg.Services = append(cfg.Services, s)
							if kind == "params" {
								cfg.Params = append(cfg.Params, Param{fmt.Sprintf("p%d", i), pat})
							}
						}
						c.Distinct("all", c.ID)
						c.Distinct("nontrivial", c.ID)
						c12check(c, c.ID, []File{{"c.yaml", cfg.YAML()}}, std, "dense")
					})
				}
			}
			// (f) deep nesting and long names
			for d := 1; d <= 4096; d *= 2 {
				for _, where := range []string{"param", "argument", "top", "mapping"} {
					d, where := d, where
					w.Case(fmt.Sprintf("deep/%s/%d", where, d), func(c *C) {
						nest := strings.Repeat("[", d) + "1" + strings.Repeat("]", d)
						var y string
						switch where {
						case "param":
							y = "parameters:\n  p: " + nest + "\n"
						case "argument":
							y = "services:\n  s:\n    constructor: New\n    arguments: " + nest + "\n"
						case "top":
							y = nest + "\n"
						case "mapping":
							y = "parameters: " + strings.Repeat("{a: ", d) + "1" + strings.Repeat("}", d) + "\n"
						}
						c.Distinct("all", c.ID)
						c.Distinct("nontrivial", c.ID)
						c12check(c, c.ID, []File{{"c.yaml", y}}, std, "deep")
					})
				}
			}
			// (j) names of the input files: non-ASCII, spaces, long, named directly and through a glob, valid and invalid content
			for _, base := range []string{"a", "é", "語", "😀", "a b", "x-", "%d%s", "конфигурация-контейнера", "q\u0301", "\xff\xfe", "a,b", "x=y;z", "it's", "{a}", "[a]*"} {
				for _, rep := range []int{1, 2, 4, 9, 20, 60} {
					name := strings.Repeat(base, rep)
					if len(name) > 240 {
						continue
					}
					name += ".yaml"
					for ci, content := range []string{valid, "services: [unclosed\n", "parameters: {p: \"%nope%\"}\n"} {
						for gi, pat := range []string{name, "*.yaml", "./" + name} {
							name, content, pat := name, content, pat
							id := fmt.Sprintf("filename/%q/content%d/pattern%d", name, ci, gi)
							w.Case(id, func(c *C) {
								c.Distinct("all", id)
								c.Distinct("nontrivial", id)
								c12check(c, id, []File{{name, content}}, []string{"-i", pat, "-o", "out.go"}, "filename")
							})
						}
					}
				}
			}
			for _, where := range []string{"param-name", "service-name", "param-value", "getter", "tag", "pattern-ref", "long-args", "many-services", "many-shared-services", "many-contextual-services-one-tag", "many-parameters-referenced"} {
				where := where
				w.Case("long/"+where, func(c *C) {
					long := strings.Repeat("a", 64*1024)
					cfg := &Cfg{Meta: &Meta{Pkg: P("gen")}}
					switch where {
					case "param-name":
						cfg.Params = []Param{{long, 1}}
					case "service-name":
						cfg.Services = []Service{{Name: long, Constructor: P("New")}}
					case "param-value":
						cfg.Params = []Param{{"p", long + "%%" + long}}
					case "getter":
						cfg.Services = []Service{{Name: "s", Constructor: P("New"), Getter: P("G" + long)}}
					case "tag":
						cfg.Services = []Service{{Name: "s", Constructor: P("New"), Tags: []Tag{{Name: long}}}}
					case "pattern-ref":
						cfg.Params = []Param{{"p", "%" + long + "%"}}
					case "long-args":
						args := make([]any, 3000)
						for i := range args {
							args[i] = fmt.Sprintf("%%p%%-%d", i)
						}
						cfg.Params = []Param{{"p", 1}}
						cfg.Services = []Service{{Name: "s", Constructor: P("New"), Args: args}}
					case "many-shared-services":
						for i := 0; i < 8000; i++ {
							cfg.Services = append(cfg.Services, Service{Name: fmt.Sprintf("s%d", i), Constructor: P("New"), Scope: P("shared"), Args: []any{"%p%"}})
						}
						cfg.Params = []Param{{"p", 1}}
					case "many-contextual-services-one-tag":
						for i := 0; i < 4000; i++ {
							cfg.Services = append(cfg.Services, Service{Name: fmt.Sprintf("s%d", i), Constructor: P("New"), Scope: P("contextual"), Tags: []Tag{{Name: "t", Priority: P(i % 7)}}})
						}
						cfg.Services = append(cfg.Services, Service{Name: "all", Constructor: P("New"), Args: []any{"!tagged t"}})
						cfg.Decorators = []Decorator{{Tag: "t", Decorator: "Dec"}}
					case "many-parameters-referenced":
						for i := 0; i < 6000; i++ {
							v := any(i)
							if i > 0 {
								v = fmt.Sprintf("%%p%d%%", (i-1)/2)
							}
							cfg.Params = append(cfg.Params, Param{fmt.Sprintf("p%d", i), v})
						}
					case "many-services":
						for i := 0; i < 1500; i++ {
							s := Service{Name: fmt.Sprintf("s%d", i), Constructor: P("New")}
							if i > 0 {
								s.Args = []any{fmt.Sprintf("@s%d", i-1)}
							}
							cfg.Services = append(cfg.Services, s)
						}
					}
					c.Distinct("all", c.ID)
					c.Distinct("nontrivial", c.ID)
					c12check(c, c.ID, []File{{"c.yaml", cfg.YAML()}}, std, "long")
				})
			}
		},
	})
}
