package checks

import (
	"fmt"
	"math"
	"os"
	"sort"
	"strings"
	"time"

	. "github.com/gontainer/gontainer/xverif/core"
)

// C01 — accepted configurations yield Go code that compiles. Factor space of one service under test
// (all single / pair [/ triple] departures from a base), the parameter-literal x position product, the
// pattern-shape product; every accepted output is checked with go/format + go/types (+ the predicate of
// init()), a covering subset is compiled, linked and started.

type c01factors [13]int

var c01names = []string{"creation", "type", "import", "getter", "must_getter", "default_must_getter", "scope", "tags", "calls", "fields", "decorator", "stub", "files"}
var c01levels = []int{10, 4, 5, 2, 3, 3, 4, 3, 4, 3, 2, 2, 2}

func c01ref(imp int, sym string) (string, bool) {
	switch imp {
	case 0:
		return "pk." + sym, false
	case 1:
		return "fxroot/pk." + sym, false
	case 2:
		return "fx/pk." + sym, false
	case 3:
		return `"fx/pk".` + sym, false
	default:
		return `".".` + sym, true
	}
}

// c01cfg builds the configuration for a factor vector; ok=false when the combination cannot be written
// with existing symbols (precondition of the statement).
func c01cfg(f c01factors) (cfg *Cfg, local bool, ok bool) {
	cfg = &Cfg{Meta: stdMeta()}
	cfg.Meta.Imports = append(cfg.Meta.Imports, KV{"fxroot", "fx"})
	switch f[5] {
	case 1:
		cfg.Meta.DefaultMustGetter = P(true)
	case 2:
		cfg.Meta.DefaultMustGetter = P(false)
	}
	s := Service{Name: "sut"}
	imp := f[2]
	use := func(sym string) string {
		r, l := c01ref(imp, sym)
		local = local || l
		return r
	}
	tyBase := "Obj"
	switch f[0] {
	case 0:
		s.Constructor = P(use("New"))
		s.Args = []any{1, "%pStr%"}
	case 1:
		s.Constructor = P(use("NewVal"))
		tyBase = "Val"
	case 2:
		s.Constructor = P(use("NewE"))
		s.Args = []any{"@dep"}
	case 3:
		s.Value = P(use("Obj{}"))
	case 4:
		s.Value = P("&" + use("Obj{}"))
	case 5:
		s.Value = P(use("Var"))
	case 6:
		if imp != 3 && imp != 4 {
			return nil, false, false
		}
		s.Value = P("&" + use("VarVal.F1"))
	case 7:
		if imp != 3 && imp != 4 {
			return nil, false, false
		}
		s.Value = P(use("VarVal.F1"))
	case 8:
		s.Type = P(use("Val"))
		tyBase = "Val"
	case 9:
		s.Type = P("*" + use("Obj"))
	}
	// a declared type must be the static type of a declared value (a type-inconsistent declaration is a
	// mistake in the configuration, outside the statement's precondition "every named symbol exists")
	switch f[0] {
	case 3:
		if f[1] == 2 || f[1] == 3 {
			return nil, false, false
		}
	case 4, 5:
		if f[1] == 1 || f[1] == 3 {
			return nil, false, false
		}
	case 6, 7:
		if f[1] != 0 {
			return nil, false, false
		}
	}
	if f[0] < 8 {
		switch f[1] {
		case 1:
			s.Type = P(use(tyBase))
		case 2:
			s.Type = P("*" + use(tyBase))
		case 3:
			// a type from a package nothing else refers to (only printed when the service has a getter)
			if f[0] > 2 {
				return nil, false, false
			}
			s.Type = P(`*"fx/b/pkg".Obj`)
		}
	}
	if f[3] == 1 {
		s.Getter = P("GetSut")
	}
	switch f[4] {
	case 1:
		s.MustGetter = P(true)
	case 2:
		s.MustGetter = P(false)
	}
	switch f[6] {
	case 1:
		s.Scope = P("shared")
	case 2:
		s.Scope = P("contextual")
	case 3:
		s.Scope = P("non_shared")
	}
	switch f[7] {
	case 1:
		s.Tags = []Tag{{Name: "tg"}}
	case 2:
		s.Tags = []Tag{{Name: "tg", Priority: P(-7)}, {Name: "other.tag", MapForm: true}}
	}
	switch f[8] {
	case 1:
		s.Calls = []Call{{Method: "Set1", Args: []any{"%pInt%", "!tagged tg2"}}}
	case 2:
		s.Calls = []Call{{Method: "With1", Args: []any{"$gontainer"}, Immutable: P(true)}}
	case 3:
		s.Calls = []Call{{Method: "Set2", NoArgs: true}, {Method: "With2", Args: []any{"@dep"}, Immutable: P(true)}}
	}
	switch f[9] {
	case 1:
		s.Fields = []KV{{"F1", "!value pk2.Const"}}
	case 2:
		s.Fields = []KV{{"f3", "%pMulti%"}}
	}
	if f[10] == 1 {
		has := false
		for _, t := range s.Tags {
			if t.Name == "tg" {
				has = true
			}
		}
		if !has {
			s.Tags = append(s.Tags, Tag{Name: "tg"})
		}
		cfg.Decorators = []Decorator{{Tag: "tg", Decorator: use("Dec1"), Args: []any{"@dep", "%pInt%"}}}
	}
	cfg.Params = []Param{{"pInt", 7}, {"pStr", "v"}, {"pMulti", "a%pInt%b%%"}}
	cfg.Services = []Service{
		{Name: "dep", Constructor: P("pk2.New")},
		{Name: "tagged2", Constructor: P("pk2.New"), Tags: []Tag{{Name: "tg2"}}},
		s,
	}
	return cfg, local, true
}

func c01files(cfg *Cfg, three bool) []File {
	if !three {
		return []File{{"c.yaml", cfg.YAML()}}
	}
	a := &Cfg{Meta: cfg.Meta}
	b := &Cfg{Params: cfg.Params, Decorators: cfg.Decorators}
	c := &Cfg{Services: cfg.Services}
	return []File{{"a.yaml", a.YAML()}, {"b.yaml", b.YAML()}, {"c.yaml", c.YAML()}}
}

func c01id(f c01factors) string {
	var p []string
	for i, v := range f {
		if v != 0 {
			p = append(p, fmt.Sprintf("%s=%d", c01names[i], v))
		}
	}
	if len(p) == 0 {
		return "base"
	}
	return strings.Join(p, ",")
}

// c01vectors enumerates all vectors departing from the base in at most k factors.
func c01vectors(k int, f func(c01factors)) {
	var rec func(start int, left int, cur c01factors)
	rec = func(start, left int, cur c01factors) {
		f(cur)
		if left == 0 {
			return
		}
		for i := start; i < len(c01levels); i++ {
			for l := 1; l < c01levels[i]; l++ {
				n := cur
				n[i] = l
				rec(i+1, left-1, n)
			}
		}
	}
	rec(0, k, c01factors{})
}

var c01identKey string

// staticOracle is C01's verdict on one accepted output.
func c01static(w *W, c *C, id string, src string, local bool, stub bool, fm map[string]string) *GenInfo {
	extra := map[string]string{}
	if local {
		if stub {
			extra["fixture_local.go"] = LocalFixtureTypesOnly("gen")
		} else {
			extra["fixture_local.go"] = LocalFixture("gen", "./gen")
		}
	}
	gi := Analyze(w.TC(false), src, extra)
	mode := ""
	if stub {
		mode = "stub:"
	}
	if !gi.GofmtStable {
		c.Violation(mode+"not-gofmt-stable", "generated file is not gofmt-stable ("+id+")", fm, nil)
	}
	if len(gi.Errs) > 0 && c01identKey != "" {
		c.Violation(c01identKey, "a configured identifier collides with a name the generated code uses itself ("+id+"):\n"+strings.Join(gi.Errs, "\n"), fm, nil)
		return gi
	}
	if len(gi.Errs) > 0 {
		c.Violation(mode+"typecheck:"+compilerKey(gi.Errs[0]), "generated file does not type-check ("+id+"):\n"+strings.Join(gi.Errs, "\n"), fm, nil)
		return gi
	}
	if gi.InitImplements == nil {
		c.Violation(mode+"init-predicate-not-found", "could not locate the interface assertion of init() ("+id+")", fm, nil)
	} else if !*gi.InitImplements {
		c.Violation(mode+"init-panics", "init() of the generated package would panic: the container type does not implement the interface literal ("+id+")", fm, nil)
	}
	return gi
}

func init() {
	lits := []struct {
		id string
		v  any
	}{
		{"int", 42}, {"negint", -42}, {"minint", math.MinInt64}, {"uint64max", uint64(math.MaxUint64)}, {"float", 2.5}, {"bigfloat", 1e300}, {"negbigfloat", -1e300}, {"maxfloat", math.MaxFloat64}, {"negmaxfloat", -math.MaxFloat64}, {"float1e21", 1e21}, {"negfloat1e21", -1e21}, {"float1e154", 1.4e154}, {"negfloat1e155", -1.4e155}, {"tinyfloat", 5e-324}, {"negtinyfloat", -5e-324}, {"negzero", math.Copysign(0, -1)},
		{"inf", math.Inf(1)}, {"neginf", math.Inf(-1)}, {"nan", math.NaN()}, {"true", true}, {"null", nil}, {"empty", ""}, {"string", "text"}, {"backtick", "a`b"}, {"newline", "a\nb"}, {"nul", "a\x00b"}, {"unicode", "é😀"},
	}
	shapes := []struct{ id, v string }{
		{"lit", "plain"}, {"pct", "%%"}, {"ref", "%pInt%"}, {"fn", `%fnStr("x")%`}, {"env", `%env("HOME", "d")%`}, {"envint", `%envInt("PORT", 80)%`}, {"todo", `%todo()%`}, {"todo-msg", `%todo("m")%`},
		{"lit-ref", "a%pInt%"}, {"ref-lit", "%pInt%a"}, {"ref-ref", "%pInt%%pStr%"}, {"pct-ref", "%%%pInt%"}, {"ref-pct", "%pInt%%%"}, {"fn-ref", `%fnInt()%%pInt%`}, {"ref-fn", `%pInt%%fnE("a", 1)%`}, {"fn-fn", `%fnNil()%%fnStr()%`}, {"lit-pct-lit", "50%% off"},
	}
	positions := []string{"param", "ctor", "field", "call", "decorator"}
	Register(&Check{
		ID:    "C01",
		Level: "exploration",
		Rule: "service factors {creation(10) x type(3) x import form(5) x getter(2) x must_getter(3) x default_must_getter(3) x scope(4) x tags(3) x calls(4) x fields(3) x decorator(2) x stub(2) x files(2)}: all vectors departing from the base in <= 3 factors (quick) / <= 4 (thorough); " +
			"parameter literal (28 kinds incl. non-finite, huge and tiny floats of both signs) x position (5) x stub; pattern shape (17) x position (5); every accepted output: gofmt-stable, go/types clean against the pinned runtime + universe, init() predicate true; covering subset (all single departures; thorough all pairs) compiled, linked and started with and without -tags gontainerstub. non-trivial = accepted and analysed; distinct = distinct configuration",
		Assumptions: []string{"go/types with gc export data stands for the compiler on the statically checked outputs; the really compiled subset cross-checks it", "rejected combinations are outside the statement (it starts from exit 0) and only counted"},
		BudgetQuick: 240 * time.Second, BudgetThorough: 1500 * time.Second,
		Prepare: PrepareUniverse,
		Run: func(w *W) {
			k := 3
			if !w.Env.Quick() {
				k = 4
			}
			evalCfg := func(c *C, id string, cfg *Cfg, files []File, local, stub bool) {
				var flags []string
				if stub {
					flags = []string{"--stub"}
				}
				br := w.Build(files, flags...)
				fm := FilesMap(files)
				c.Distinct("all", id)
				if br.Panic != "" {
					c.Violation("panic", "tool panicked ("+id+"):\n"+br.Panic, fm, nil)
					return
				}
				if br.Exit != 0 {
					c.Count("rejected")
					return
				}
				c.Count("accepted")
				c.Distinct("nontrivial", id)
				c01static(w, c, id, br.Output, local, stub, fm)
			}
			c01vectors(k, func(f c01factors) {
				cfg, local, ok := c01cfg(f)
				if !ok {
					return
				}
				id := "svc/" + c01id(f)
				w.Case(id, func(c *C) {
					evalCfg(c, id, cfg, c01files(cfg, f[12] == 1), local, f[11] == 1)
					if id == "svc/creation=4,getter=1" {
						c.Sample(map[string]any{"factors": c01id(f), "yaml": cfg.YAML()})
					}
				})
			})
			// no parameter is declared at all; what the arguments need (function calls, concatenation, %%, env, todo) is
			// needed all the same - in a constructor argument, a call, a field, a decorator argument; both modes
			for ai, arg := range []any{`%env("C01_X", "d")%`, `a%env("C01_X", "d")%b`, "100%%", `%envInt("C01_N", 1)%`, `%todo("later")%`, `%fnStr("x")%-%fnInt()%`, "x%%y%%", "plain", 5, nil} {
				for _, pos := range []string{"ctor", "call", "field", "decorator", "value-field"} {
					for stub := 0; stub < 2; stub++ {
						ai, arg, pos, stub := ai, arg, pos, stub
						id := fmt.Sprintf("no-parameters/%d/%s/stub=%d", ai, pos, stub)
						w.Case(id, func(c *C) {
							cfg := &Cfg{Meta: stdMeta()}
							sv := Service{Name: "sut", Constructor: P("pk.New")}
							switch pos {
							case "ctor":
								sv.Args = []any{arg}
							case "call":
								sv.Calls = []Call{{Method: "Set1", Args: []any{arg}}}
							case "field":
								sv.Fields = []KV{{"F1", arg}}
							case "decorator":
								sv.Tags = []Tag{{Name: "tg"}}
								cfg.Decorators = []Decorator{{Tag: "tg", Decorator: "pk.Dec1", Args: []any{arg}}}
							case "value-field":
								sv = Service{Name: "sut", Value: P("pk.Obj{}"), Fields: []KV{{"F1", arg}}}
							}
							cfg.Services = []Service{sv}
							evalCfg(c, id, cfg, []File{{"c.yaml", cfg.YAML()}}, false, stub == 1)
						})
					}
				}
			}
			// no service is declared at all (parameters only, decorators only, nothing but meta); both modes
			for ni, mk := range []func() *Cfg{
				func() *Cfg {
					return &Cfg{Meta: stdMeta(), Params: []Param{{"a", 1}, {"b", "%a%-%fnStr()%"}, {"c", `%env("X", "d")%`}}}
				},
				func() *Cfg { return &Cfg{Meta: stdMeta(), Params: []Param{{"a", nil}}} },
				func() *Cfg { return &Cfg{Meta: stdMeta()} },
				func() *Cfg { return &Cfg{Meta: &Meta{Pkg: P("gen")}} },
				func() *Cfg {
					return &Cfg{Meta: stdMeta(), Params: []Param{{"a", 1}}, Decorators: []Decorator{{Tag: "nobody", Decorator: "pk.Dec1", Args: []any{"%a%"}}}}
				},
				func() *Cfg { return &Cfg{Meta: stdMeta(), Services: []Service{{Name: "onlyTodo", Todo: P(true)}}} },
			} {
				for stub := 0; stub < 2; stub++ {
					ni, mk, stub := ni, mk, stub
					id := fmt.Sprintf("no-services/%d/stub=%d", ni, stub)
					w.Case(id, func(c *C) {
						cfg := mk()
						evalCfg(c, id, cfg, []File{{"c.yaml", cfg.YAML()}}, false, stub == 1)
					})
				}
			}
			// how a registered function names its package x how often it is used (0, 1, 2, 3 times) x both modes
			for _, ff := range []struct {
				id, fn string
				local  bool
			}{{"alias", "pk.FnStr", false}, {"alias-subpath", "fxroot/pk2.FnInt", false}, {"quoted", `"fx/pk".FnStr`, false}, {"unquoted-path", "fx/pk2.FnStr", false},
				{"dotted-path", "fx/p-k.g.FnStr", false}, {"quoted-dotted-path", `"fx/p-k.g".FnInt`, false}, {"local-dot", `".".FnStr`, true}, {"local-bare", "FnInt", true}} {
				for uses := 0; uses <= 3; uses++ {
					for stub := 0; stub < 2; stub++ {
						ff, uses, stub := ff, uses, stub
						id := fmt.Sprintf("function-form/%s/uses=%d/stub=%d", ff.id, uses, stub)
						w.Case(id, func(c *C) {
							cfg := &Cfg{Meta: &Meta{Pkg: P("gen"), Imports: []KV{{"pk", "fx/pk"}, {"fxroot", "fx"}}, Functions: []KV{{"fut", ff.fn}, {"other", "pk.FnNil"}}}}
							for u := 0; u < uses; u++ {
								cfg.Params = append(cfg.Params, Param{fmt.Sprintf("p%d", u), fmt.Sprintf(`%%fut(%d)%%-%%other()%%`, u)})
							}
							cfg.Services = []Service{{Name: "s", Constructor: P("pk.New"), Args: []any{`%fut("in a service")%`}}}
							if uses == 0 {
								cfg.Services[0].Args = nil
							}
							evalCfg(c, id, cfg, []File{{"c.yaml", cfg.YAML()}}, ff.local, stub == 1)
						})
					}
				}
			}
			// more distinct import paths than one hexadecimal digit numbers (both modes)
			for mi, cfg := range manyImportsCfgs() {
				for stub := 0; stub < 2; stub++ {
					mi, cfg, stub := mi, cfg, stub
					id := fmt.Sprintf("many-imports/%d/stub=%d", mi, stub)
					w.Case(id, func(c *C) { evalCfg(c, id, cfg, []File{{"c.yaml", cfg.YAML()}}, false, stub == 1) })
				}
			}
			// aliases named like the first segments of the packages the generated code imports for itself (the runtime module,
			// the standard library): declared and never used, or used for a fixture package - the generated code's own imports
			// are not subject to the user's alias table
			for ai, alias := range []string{"github.com", "github.com/gontainer", "github.com/gontainer/gontainer-helpers", "github.com/gontainer/gontainer-helpers/v3", "fmt", "os", "errors", "context", "reflect", "strconv", "container", "exporter", "caller", "copier", "grouperror", "golang.org"} {
				for used := 0; used < 2; used++ {
					for stub := 0; stub < 2; stub++ {
						ai, alias, used, stub := ai, alias, used, stub
						id := fmt.Sprintf("alias-named-like-own-imports/%d/used=%d/stub=%d", ai, used, stub)
						w.Case(id, func(c *C) {
							cfg := &Cfg{Meta: stdMeta(), Params: []Param{{"e", `%env("C01_X", "d")%`}, {"i", `%envInt("C01_I", 3)%`}, {"t", `%todo("later")%`}, {"m", "a%e%b%i%"}}}
							cfg.Meta.Imports = append(append([]KV{}, cfg.Meta.Imports...), KV{alias, "fx/pk2"})
							cfg.Services = []Service{{Name: "one", Constructor: P("pk.New"), Args: []any{"%m%", "x%e%"}, Getter: P("GetOne"), Type: P("*pk.Obj"), Tags: []Tag{{Name: "tg"}}, Fields: []KV{{"F1", "%i%"}}, Calls: []Call{{Method: "With1", Args: []any{"@two"}, Immutable: P(true)}}},
								{Name: "two", Constructor: P("pk.New1"), Scope: P("contextual")}, {Name: "later", Todo: P(true)}}
							cfg.Decorators = []Decorator{{Tag: "tg", Decorator: "pk.Dec1", Args: []any{"%i%"}}}
							if used == 1 {
								cfg.Services = append(cfg.Services, Service{Name: "viaAlias", Constructor: P(`"` + alias + `".New`), Getter: P("GetViaAlias"), Type: P(`*"` + alias + `".Obj`)})
							}
							evalCfg(c, id, cfg, []File{{"c.yaml", cfg.YAML()}}, false, stub == 1)
						})
					}
				}
			}
			// literals x positions x stub
			place := func(cfg *Cfg, pos string, v any) {
				s := Service{Name: "sut", Constructor: P("pk.New")}
				switch pos {
				case "param":
					cfg.Params = append(cfg.Params, Param{"pUnderTest", v}, Param{"pUser", "<%pUnderTest%>"})
				case "ctor":
					s.Args = []any{v}
				case "field":
					s.Fields = []KV{{"F1", v}}
				case "call":
					s.Calls = []Call{{Method: "Set1", Args: []any{v}}}
				case "decorator":
					s.Tags = []Tag{{Name: "tg"}}
					cfg.Decorators = []Decorator{{Tag: "tg", Decorator: "pk.Dec1", Args: []any{v}}}
				}
				cfg.Services = append(cfg.Services, s)
			}
			for _, l := range lits {
				for _, pos := range positions {
					for stub := 0; stub < 2; stub++ {
						l, pos, stub := l, pos, stub
						id := fmt.Sprintf("lit/%s/%s/stub=%d", l.id, pos, stub)
						w.Case(id, func(c *C) {
							cfg := &Cfg{Meta: stdMeta(), Params: []Param{{"pInt", 7}, {"pStr", "v"}}}
							place(cfg, pos, l.v)
							evalCfg(c, id, cfg, []File{{"c.yaml", cfg.YAML()}}, false, stub == 1)
						})
					}
				}
			}
			for _, sh := range shapes {
				for _, pos := range positions {
					sh, pos := sh, pos
					id := fmt.Sprintf("shape/%s/%s", sh.id, pos)
					w.Case(id, func(c *C) {
						cfg := &Cfg{Meta: stdMeta(), Params: []Param{{"pInt", 7}, {"pStr", "v"}}}
						place(cfg, pos, sh.v)
						evalCfg(c, id, cfg, []File{{"c.yaml", cfg.YAML()}}, false, false)
					})
				}
			}
			// identifier stress: legal Go identifiers that coincide with names the templates use themselves, in every
			// identifier position; whatever is accepted must still compile
			stress := []string{"c", "s", "r", "p", "err", "ctx", "result", "chunk", "chunks", "first", "key", "def", "val", "ok", "res", "params", "provider", "args",
				"rootGontainer", "interface_", "nilContainer", "implements", "interfaceType", "dependencyService", "dependencyValue", "dependencyTag", "dependencyProvider",
				"newService", "concatenateChunks", "paramTodo", "getEnv", "getEnvInt", "getParam", "callProvider",
				"_getEnv", "_getEnvInt", "_paramTodo", "_concatenateChunks", "_callProvider", "_", "Gontainer", "NewGontainer", "init", "main", "Container", "New", "gen", "Root", "i0_fmt", "i1_pk", "fmt", "os", "errors", "strconv", "context", "reflect"}
			// ... and every name the embedded runtime container already has (methods and fields, read from its export data),
			// with the Must / InContext spellings the generator derives from a getter
			{
				m0, f0, _ := w.TC(false).ContainerMethods()
				var api []string
				for m := range m0 {
					api = append(api, m)
				}
				api = append(api, f0...)
				sort.Strings(api)
				for _, m := range api {
					stress = append(stress, m)
					if strings.HasPrefix(m, "Must") {
						stress = append(stress, strings.TrimPrefix(m, "Must"))
					}
					if strings.HasSuffix(m, "InContext") {
						stress = append(stress, strings.TrimSuffix(m, "InContext"))
					}
				}
			}
			idPositions := []struct {
				id  string
				set func(c *Cfg, x string)
			}{
				{"getter", func(c *Cfg, x string) { c.Svc("sut").Getter = P(x); c.Svc("sut").MustGetter = P(true) }},
				{"getter-typed", func(c *Cfg, x string) { c.Svc("sut").Getter = P(x); c.Svc("sut").Type = P("*pk.Obj") }},
				{"container_type", func(c *Cfg, x string) { c.Meta.ContainerType = P(x); c.Svc("sut").Getter = P("GetSut") }},
				{"container_constructor", func(c *Cfg, x string) { c.Meta.ContainerConstructor = P(x) }},
				{"pkg", func(c *Cfg, x string) { c.Meta.Pkg = P(x) }},
				{"function", func(c *Cfg, x string) {
					c.Meta.Functions = append(c.Meta.Functions, KV{x, "pk.FnStr"})
					c.Params = append(c.Params, Param{"pz", "%" + x + "()%"})
				}},
				{"alias", func(c *Cfg, x string) {
					c.Meta.Imports = append(c.Meta.Imports, KV{x, "fx/ab"})
					c.Services = append(c.Services, Service{Name: "viaAlias", Constructor: P(x + ".New")})
				}},
			}
			for _, ip := range idPositions {
				for _, x := range stress {
					for stub := 0; stub < 2; stub++ {
						ip, x, stub := ip, x, stub
						id := fmt.Sprintf("ident/%s/%s/stub=%d", ip.id, x, stub)
						w.Case(id, func(c *C) {
							cfg := &Cfg{Meta: stdMeta(), Params: []Param{{"pInt", 7}, {"pStr", "a%pInt%b"}, {"pEnv", `%env("X", "d")%%envInt("Y", 1)%`}}}
							cfg.Services = []Service{{Name: "sut", Constructor: P("pk.New"), Args: []any{"%pStr%", "!tagged tg"}, Tags: []Tag{{Name: "tg2"}}}, {Name: "td", Todo: P(true)}}
							cfg.Decorators = []Decorator{{Tag: "tg2", Decorator: "pk2.Dec1", Args: []any{"%pEnv%"}}}
							ip.set(cfg, x)
							// precondition of the statement: distinct identifiers (incl. the documented defaults), and not the
							// names Go itself reserves for functions (init, main) or the blank identifier
							if x == "init" || x == "main" || x == "_" {
								return
							}
							if (ip.id == "container_constructor" && x == "Gontainer") || (ip.id == "container_type" && x == "NewGontainer") {
								return
							}
							c01identKey = fmt.Sprintf("identifier-collision:%s=%s", ip.id, x)
							evalCfg(c, id, cfg, []File{{"c.yaml", cfg.YAML()}}, false, stub == 1)
							c01identKey = ""
						})
					}
				}
			}
			// rewriting an existing output: a smaller configuration (or the stub) written over a larger previous
			// generation must leave exactly what a fresh build writes
			big := &Cfg{Meta: stdMeta(), Params: []Param{{"pInt", 7}, {"pStr", "a%pInt%b"}, {"pLong", strings.Repeat("long value ", 300)}},
				Services: []Service{{Name: "one", Constructor: P("pk.New"), Args: []any{"%pStr%", "%pLong%"}, Getter: P("GetOne"), MustGetter: P(true)}, {Name: "two", Constructor: P("pk2.New"), Args: []any{"@one"}}, {Name: "three", Value: P("&pk.Obj{}")}}}
			small := &Cfg{Meta: stdMeta(), Services: []Service{{Name: "one", Constructor: P("pk.New"), Getter: P("GetOne")}}}
			seqs := []struct {
				id    string
				steps []struct {
					cfg   *Cfg
					flags []string
				}
			}{
				{"big-then-small", []struct {
					cfg   *Cfg
					flags []string
				}{{big, nil}, {small, nil}}},
				{"normal-then-stub", []struct {
					cfg   *Cfg
					flags []string
				}{{big, nil}, {big, []string{"--stub"}}}},
				{"big-small-big-stub", []struct {
					cfg   *Cfg
					flags []string
				}{{big, nil}, {small, nil}, {big, nil}, {small, []string{"--stub"}}}},
			}
			for _, sq := range seqs {
				sq := sq
				w.Case("rewrite/"+sq.id, func(c *C) {
					w.FreshDir()
					c.Distinct("all", c.ID)
					c.Distinct("nontrivial", c.ID)
					for si, st := range sq.steps {
						os.WriteFile("c.yaml", []byte(st.cfg.YAML()), 0o644)
						r := Tool(DefaultVersion, DefaultBuildInfo, append([]string{"-i", "c.yaml", "-o", "out.go"}, st.flags...)...)
						got, _ := os.ReadFile("out.go")
						os.Remove("fresh.go")
						Tool(DefaultVersion, DefaultBuildInfo, append([]string{"-i", "c.yaml", "-o", "fresh.go"}, st.flags...)...)
						want, _ := os.ReadFile("fresh.go")
						c.Count("accepted")
						if !r.OK() || string(got) != string(want) {
							c.Violation("rewrite-differs", fmt.Sprintf("step %d of %s: the -o file written over a previous generation differs from a fresh build (%d vs %d bytes): %s", si, sq.id, len(got), len(want), firstDiff(string(want), string(got))), map[string]string{"c.yaml": st.cfg.YAML()}, nil)
							return
						}
						c01static(w, c, c.ID, string(got), false, len(st.flags) > 0, nil)
					}
				})
			}
			// really compiled covering subset: all single departures (thorough: pairs), normal and stub
			kk := 1
			if !w.Env.Quick() {
				kk = 2
			}
			var normal, stubs []*BCase
			c01vectors(kk, func(f c01factors) {
				if f[11] == 1 {
					return // the stub factor is applied below to every vector
				}
				cfg, local, ok := c01cfg(f)
				if !ok {
					return
				}
				id := "compiled/" + c01id(f)
				normal = append(normal, &BCase{ID: id, Cfg: cfg, Files: c01files(cfg, f[12] == 1), Local: local, Sessions: []BSession{{Ops: []ProbeOp{op("circ", "")}}}})
				cfg2, _, _ := c01cfg(f)
				stubs = append(stubs, &BCase{ID: id + ",stub", Cfg: cfg2, Files: c01files(cfg2, f[12] == 1), Local: local, Flags: []string{"--stub"}})
			})
			for _, l := range lits {
				cfg := &Cfg{Meta: stdMeta(), Params: []Param{{"pInt", 7}, {"pStr", "v"}}}
				place(cfg, "ctor", l.v)
				cfg.Params = append(cfg.Params, Param{"pUnderTest", l.v})
				normal = append(normal, &BCase{ID: "compiled/lit/" + l.id, Cfg: cfg, Sessions: []BSession{{Ops: []ProbeOp{op("circ", "")}}}})
			}
			compiledOracle := func(c *C, outs []*BOutcome, err error) {
				for _, o := range outs {
					fm := FilesMap(o.Case.Files)
					if o.Build.Panic != "" || o.Build.Exit != 0 {
						c.Count("compiled_rejected")
						continue
					}
					c.Count("compiled")
					if o.NoBuild != "" {
						c.Violation("nobuild:"+compilerKey(o.NoBuild), "accepted configuration ("+o.Case.ID+") yields Go code that does not compile:\n"+o.NoBuild, fm, nil)
						continue
					}
					if o.InitPanic != "" {
						c.Violation("init-panics", "package initialisation of the generated code panics ("+o.Case.ID+"): "+o.InitPanic, fm, nil)
						continue
					}
					for _, s := range o.Sessions {
						if len(s) > 0 && s[0].Panic != "" {
							c.Violation("constructor-panics", "container constructor panics ("+o.Case.ID+"): "+s[0].Panic, fm, nil)
						}
					}
				}
				if err != nil {
					c.Violation("probe-failed", "probe could not be built or run: "+err.Error(), nil, nil)
				}
			}
			runBatches(w, "compiled", normal, 40, compiledOracle)
			// stubs: compiled with the tag against the same universe (C17 checks the types-only twin)
			for i := 0; i < len(stubs); i += 40 {
				j := i + 40
				if j > len(stubs) {
					j = len(stubs)
				}
				batch := stubs[i:j]
				w.Case(fmt.Sprintf("compiled-stub/batch%d", i), func(c *C) {
					var pkgs []GenPkg
					byName := map[string]*BCase{}
					for bi, bc := range batch {
						br := w.Build(bc.Files, bc.Flags...)
						if !br.OK() || !br.OutExists {
							continue
						}
						c.Count("compiled_stub")
						c.Distinct("nontrivial", bc.ID)
						n := fmt.Sprintf("g%d", bi)
						byName[n] = bc
						pkgs = append(pkgs, GenPkg{Name: n, Source: br.Output, Stub: br.Output, Clause: "gen", Ctor: "NewGontainer", Local: bc.Local})
					}
					for attempt := 0; attempt < 3 && len(pkgs) > 0; attempt++ {
						_, err := w.RunProbe(pkgs, nil, true)
						pe, ok := err.(*ProbeError)
						if err == nil {
							break
						}
						if !ok || pe.Stage != "build" {
							c.Violation("probe-failed", "stub probe failed: "+err.Error(), nil, nil)
							break
						}
						var keep []GenPkg
						for _, g := range pkgs {
							if strings.Contains(pe.Output, g.Name+"/") {
								var lines []string
								for _, l := range strings.Split(pe.Output, "\n") {
									if strings.Contains(l, g.Name+"/") {
										lines = append(lines, l)
									}
								}
								c.Violation("stub:nobuild:"+compilerKey(strings.Join(lines, "\n")), "stub of "+byName[g.Name].ID+" does not compile with -tags gontainerstub:\n"+strings.Join(lines, "\n"), FilesMap(byName[g.Name].Files), nil)
							} else {
								keep = append(keep, g)
							}
						}
						if len(keep) == len(pkgs) {
							c.Violation("probe-failed", "stub probe failed: "+pe.Output, nil, nil)
							break
						}
						pkgs = keep
					}
				})
			}
		},
	})
}
