package checks

import (
	"fmt"
	"math"
	"strings"
	"time"

	. "github.com/gontainer/gontainer/xverif/core"
)

// C04 — tagged collections and decorators. Priority vectors, decorator/tag incidence matrices, decorator
// argument forms, and distributions of decorators and tags over several files; executed in the probe and
// compared with the reference model (sorted carriers, decorators in declaration = file order).

func c04tag(name string, opt int) *Tag {
	switch opt {
	case 1:
		return &Tag{Name: name, Priority: P(-1)}
	case 2:
		return &Tag{Name: name} // string form, priority 0
	case 3:
		return &Tag{Name: name, MapForm: true} // map form without priority
	case 4:
		return &Tag{Name: name, Priority: P(1)}
	case 5:
		return &Tag{Name: name, Priority: P(math.MaxInt64)}
	case 6:
		return &Tag{Name: name, Priority: P(math.MinInt64)}
	}
	return nil
}

func init() {
	Register(&Check{
		ID:    "C04",
		Level: "exploration",
		Rule: "(A) all priority vectors over 3 services for one tag, each service in {not tagged, -1, 0 string form, 0 map form, 1, maxint} (6^3; thorough adds minint and a second tag: 7^3 + 12^3), consumers requesting !tagged as constructor argument, field and call argument; (B) all decorator/tag incidence matrices for 2 decorators x 2 tags x 2 services (4 x 16) x 3 decorator argument sets; (C) 3 decorators (distinct functions; the same function told apart by its arguments) and split tag lists distributed over 3 files in all 27 assignments; (E) tag lists of two services extended by later files in all 8 combinations; (F) every decorator word of length <= 3 (thorough 4) over two tags on services carrying both / one of them; (G) decorators and calls arriving through one pattern with a wildcard directory segment (6 directory pairs); (H) thirteen carriers whose names differ in case, digits and separators; (I) services registered at run time with tags (OverrideService on a todo placeholder and on a new name), decorators for tags no configured service carries; (D) scopes of tagged services (shared, non_shared, contextual). " +
			"Each configuration is executed in a probe (Get consumer, GetTaggedBy, Get of every carrier, GetInContext) and compared with the reference model. non-trivial/distinct = distinct executed configuration",
		Assumptions: []string{"decorator tag '*' is outside the statement (the documentation does not define it) and is not generated"},
		BudgetQuick: 280 * time.Second, BudgetThorough: 1500 * time.Second,
		Prepare: PrepareUniverse,
		Run: func(w *W) {
			var cases []*BCase
			names := []string{"sb", "sa", "sc"} // declaration order differs from name order on purpose
			stdOps := func(extra ...ProbeOp) []ProbeOp {
				ops := []ProbeOp{op("get", "consumer"), opTag("tagged", "t"), op("get", "sa"), op("get", "sb"), op("get", "sc"), opTag("tagged", "u"), opCtx("getctx", "A", "consumer"), opCtx("taggedctx", "A", "t")}
				return append(ops, extra...)
			}
			// (A)
			nopt := 6
			if !w.Env.Quick() {
				nopt = 7
			}
			for a := 0; a < nopt; a++ {
				for b := 0; b < nopt; b++ {
					for c := 0; c < nopt; c++ {
						cfg := &Cfg{Meta: stdMeta()}
						for i, o := range []int{a, b, c} {
							s := Service{Name: names[i], Constructor: P(fmt.Sprintf("pk.New%d", i+1))}
							if t := c04tag("t", o); t != nil {
								s.Tags = []Tag{*t}
							}
							cfg.Services = append(cfg.Services, s)
						}
						cfg.Services = append(cfg.Services, Service{Name: "consumer", Constructor: P("pk2.New"), Args: []any{"!tagged t"},
							Fields: []KV{{"F1", "!tagged t"}}, Calls: []Call{{Method: "Set1", Args: []any{"!tagged t", "!tagged u"}}}})
						cases = append(cases, &BCase{ID: fmt.Sprintf("A/prio=%d%d%d", a, b, c), Cfg: cfg, Sessions: []BSession{{Ops: stdOps()}}})
					}
				}
			}
			if !w.Env.Quick() {
				// two tags jointly: t in {none,-1,0,5}, u in {none,0,7}
				topt := []*Tag{nil, {Name: "t", Priority: P(-1)}, {Name: "t"}, {Name: "t", Priority: P(5)}}
				uopt := []*Tag{nil, {Name: "u"}, {Name: "u", Priority: P(7)}}
				for v := 0; v < 12*12*12; v++ {
					cfg := &Cfg{Meta: stdMeta()}
					x := v
					for i := 0; i < 3; i++ {
						o := x % 12
						x /= 12
						s := Service{Name: names[i], Constructor: P(fmt.Sprintf("pk.New%d", i+1))}
						if t := topt[o%4]; t != nil {
							s.Tags = append(s.Tags, *t)
						}
						if u := uopt[o/4]; u != nil {
							s.Tags = append(s.Tags, *u)
						}
						cfg.Services = append(cfg.Services, s)
					}
					cfg.Services = append(cfg.Services, Service{Name: "consumer", Constructor: P("pk2.New"), Args: []any{"!tagged u", "!tagged t"}})
					cases = append(cases, &BCase{ID: fmt.Sprintf("A2/%d", v), Cfg: cfg, Sessions: []BSession{{Ops: stdOps()}}})
				}
			}
			// (B) incidence matrices
			tags := []string{"t", "u"}
			argSets := [][]any{nil, {"@dep", "%pInt%", "lit"}, {"!tagged u", "$gontainer", "!value pk.Const", 1.5, nil}}
			for d := 0; d < 4; d++ {
				for m := 0; m < 16; m++ {
					for ai, as := range argSets {
						cfg := &Cfg{Meta: stdMeta(), Params: []Param{{"pInt", 9}}}
						cfg.Decorators = []Decorator{
							{Tag: tags[d&1], Decorator: "pk.Dec1", Args: as},
							{Tag: tags[d>>1], Decorator: "pk2.Dec2", Args: []any{"second"}},
						}
						for i := 0; i < 2; i++ {
							s := Service{Name: []string{"sb", "sa"}[i], Constructor: P("pk.New"), Calls: []Call{{Method: "Set1", Args: []any{"own-call"}}, {Method: "With1", Args: []any{"own-wither"}, Immutable: P(true)}}}
							bits := (m >> (2 * i)) & 3
							if bits&1 != 0 {
								s.Tags = append(s.Tags, Tag{Name: "t"})
							}
							if bits&2 != 0 {
								s.Tags = append(s.Tags, Tag{Name: "u", Priority: P(3)})
							}
							cfg.Services = append(cfg.Services, s)
						}
						// the decorator's !tagged u argument must not create a cycle: carriers of u that are decorated by
						// a decorator requesting !tagged u depend on themselves -> skip those (C07's business)
						if ai == 2 {
							cyc := false
							for _, s := range cfg.Services {
								carriesU, decoratedByD1 := false, false
								for _, t := range s.Tags {
									if t.Name == "u" {
										carriesU = true
									}
									if t.Name == tags[d&1] {
										decoratedByD1 = true
									}
								}
								if carriesU && decoratedByD1 {
									cyc = true
								}
							}
							// any carrier of u decorated by d1, or any decorated service when some carrier of u is decorated
							if cyc {
								continue
							}
						}
						cfg.Services = append(cfg.Services, Service{Name: "dep", Constructor: P("pk2.New")}, Service{Name: "sc", Constructor: P("pk.New3")},
							Service{Name: "consumer", Constructor: P("pk2.New"), Args: []any{"@sa", "@sb", "!tagged t"}})
						cases = append(cases, &BCase{ID: fmt.Sprintf("B/dec=%d/tags=%x/args=%d", d, m, ai), Cfg: cfg, Sessions: []BSession{{Ops: stdOps()}}})
					}
				}
			}
			// (C) distribution over files
			for v := 0; v < 54; v++ {
				same := v >= 27 // the same decorator function three times, told apart by its arguments only
				v := v % 27
				asg := []int{v % 3, (v / 3) % 3, v / 9}
				decs := []Decorator{{Tag: "t", Decorator: "pk.Dec1", Args: []any{"d0"}}, {Tag: "t", Decorator: "pk.Dec2", Args: []any{"d1"}}, {Tag: "t", Decorator: "pk2.Dec3", Args: []any{"d2"}}}
				if same {
					decs = []Decorator{{Tag: "t", Decorator: "pk.Dec1", Args: []any{"d0"}}, {Tag: "t", Decorator: "pk.Dec1", Args: []any{"d1"}}, {Tag: "t", Decorator: "pk.Dec1"}}
				}
				files := make([]*Cfg, 3)
				for i := range files {
					files[i] = &Cfg{}
				}
				files[0].Meta = stdMeta()
				merged := &Cfg{Meta: stdMeta()}
				for f := 0; f < 3; f++ {
					for di, d := range decs {
						if asg[di] == f {
							files[f].Decorators = append(files[f].Decorators, d)
							merged.Decorators = append(merged.Decorators, d)
						}
					}
				}
				// the tag list of sa is split over the files too (appended in file order)
				files[asg[0]].Services = append(files[asg[0]].Services, Service{Name: "sa", Constructor: P("pk.New1")})
				tf := (asg[0] + 1) % 3
				files[tf].Services = append(files[tf].Services, Service{Name: "sa", Tags: []Tag{{Name: "t", Priority: P(2)}}})
				files[1].Services = append(files[1].Services, Service{Name: "sb", Constructor: P("pk.New2"), Tags: []Tag{{Name: "t"}, {Name: "u"}}},
					Service{Name: "sc", Constructor: P("pk.New3")}, Service{Name: "consumer", Constructor: P("pk2.New"), Args: []any{"!tagged t"}})
				merged.Services = []Service{
					{Name: "sa", Constructor: P("pk.New1"), Tags: []Tag{{Name: "t", Priority: P(2)}}},
					{Name: "sb", Constructor: P("pk.New2"), Tags: []Tag{{Name: "t"}, {Name: "u"}}},
					{Name: "sc", Constructor: P("pk.New3")},
					{Name: "consumer", Constructor: P("pk2.New"), Args: []any{"!tagged t"}},
				}
				var fl []File
				for i, f := range files {
					fl = append(fl, File{fmt.Sprintf("f%d.yaml", i), f.YAML()})
				}
				cases = append(cases, &BCase{ID: fmt.Sprintf("C/files=%d%d%d/same-function=%v", asg[0], asg[1], asg[2], same), Cfg: merged, Files: fl, Sessions: []BSession{{Ops: stdOps()}}})
			}
			// (E) the tag list of one service split over 2..3 files (appended in file order), every file contributing tags
			for v := 0; v < 8; v++ {
				f0 := &Cfg{Meta: stdMeta(), Services: []Service{
					{Name: "sa", Constructor: P("pk.New1"), Tags: []Tag{{Name: "t", Priority: P(2)}}},
					{Name: "sb", Constructor: P("pk.New2"), Tags: []Tag{{Name: "t"}}},
					{Name: "sc", Constructor: P("pk.New3"), Tags: []Tag{{Name: "u"}}},
					{Name: "consumer", Constructor: P("pk2.New"), Args: []any{"!tagged t", "!tagged u"}}},
					Decorators: []Decorator{{Tag: "t", Decorator: "pk.Dec1"}}}
				merged := &Cfg{Meta: stdMeta(), Decorators: []Decorator{{Tag: "t", Decorator: "pk.Dec1"}}}
				ta := []Tag{{Name: "t", Priority: P(2)}}
				tb := []Tag{{Name: "t"}}
				files := []*Cfg{f0}
				if v&1 != 0 {
					files = append(files, &Cfg{Services: []Service{{Name: "sa", Tags: []Tag{{Name: "u", Priority: P(-1)}}}}})
					ta = append(ta, Tag{Name: "u", Priority: P(-1)})
				}
				if v&2 != 0 {
					files = append(files, &Cfg{Services: []Service{{Name: "sb", Tags: []Tag{{Name: "u", Priority: P(9)}, {Name: "w"}}}}, Decorators: []Decorator{{Tag: "u", Decorator: "pk2.Dec2"}}})
					tb = append(tb, Tag{Name: "u", Priority: P(9)}, Tag{Name: "w"})
					merged.Decorators = append(merged.Decorators, Decorator{Tag: "u", Decorator: "pk2.Dec2"})
				}
				if v&4 != 0 {
					files = append(files, &Cfg{Services: []Service{{Name: "sa", Tags: []Tag{{Name: "w", MapForm: true}}}}, Decorators: []Decorator{{Tag: "w", Decorator: "pk.Dec3", Args: []any{"last"}}}})
					ta = append(ta, Tag{Name: "w", MapForm: true})
					merged.Decorators = append(merged.Decorators, Decorator{Tag: "w", Decorator: "pk.Dec3", Args: []any{"last"}})
				}
				merged.Services = []Service{
					{Name: "sa", Constructor: P("pk.New1"), Tags: ta}, {Name: "sb", Constructor: P("pk.New2"), Tags: tb}, {Name: "sc", Constructor: P("pk.New3"), Tags: []Tag{{Name: "u"}}},
					{Name: "consumer", Constructor: P("pk2.New"), Args: []any{"!tagged t", "!tagged u"}}}
				var fl []File
				for i, f := range files {
					fl = append(fl, File{fmt.Sprintf("f%d.yaml", i), f.YAML()})
				}
				cases = append(cases, &BCase{ID: fmt.Sprintf("E/split-tags=%03b", v), Cfg: merged, Files: fl, Sessions: []BSession{{Ops: stdOps(opTag("tagged", "w"))}}})
			}
			// (F) every decorator word of length <= 3 (thorough 4) over the tags {t, u}: the k-th decorator is attached to
			// word[k]; sa carries both tags (declared u before t), sb only t, sc only u
			{
				maxLen := 3
				if !w.Env.Quick() {
					maxLen = 4
				}
				fns := []string{"pk.Dec1", "pk2.Dec2", "pk.Dec3", "pk2.Dec1"}
				var words [][]int
				var gen func(cur []int)
				gen = func(cur []int) {
					if len(cur) > 0 {
						words = append(words, append([]int{}, cur...))
					}
					if len(cur) == maxLen {
						return
					}
					for t := 0; t < 2; t++ {
						gen(append(cur, t))
					}
				}
				gen(nil)
				for _, wd := range words {
					cfg := &Cfg{Meta: stdMeta()}
					id := ""
					for k, t := range wd {
						cfg.Decorators = append(cfg.Decorators, Decorator{Tag: tags[t], Decorator: fns[k], Args: []any{fmt.Sprintf("d%d", k)}})
						id += tags[t]
					}
					cfg.Services = []Service{
						{Name: "sa", Constructor: P("pk.New1"), Tags: []Tag{{Name: "u"}, {Name: "t", Priority: P(1)}}, Calls: []Call{{Method: "Set1", Args: []any{"own-call"}}}},
						{Name: "sb", Constructor: P("pk.New2"), Tags: []Tag{{Name: "t"}}},
						{Name: "sc", Constructor: P("pk.New3"), Tags: []Tag{{Name: "u", Priority: P(2)}}},
						{Name: "consumer", Constructor: P("pk2.New"), Args: []any{"!tagged t", "!tagged u"}},
					}
					cases = append(cases, &BCase{ID: "F/decorator-word=" + id, Cfg: cfg, Sessions: []BSession{{Ops: stdOps()}}})
				}
			}
			// (G) decorators arriving through one pattern whose wildcard spans directories: the files are merged in the
			// lexical order of their cleaned paths, which is not the order directory-by-directory
			for gi, dirs := range [][2]string{{"http", "http-admin"}, {"conf", "conf.d"}, {"x", "x+y"}, {"b", "a"}, {"a", "b"}, {"m", "m0"},
				{"http", "http-admin"}, {"b", "a"}} {
				// the pattern that is given first is merged first, whatever its files are called
				baseName := "base.yaml"
				if gi >= 6 {
					baseName = "zz-sorts-last.yaml"
				}
				da, db := "conf/"+dirs[0]+"/10.yaml", "conf/"+dirs[1]+"/10.yaml"
				fa := &Cfg{Decorators: []Decorator{{Tag: "t", Decorator: "pk.Dec1", Args: []any{dirs[0]}}}, Services: []Service{{Name: "sa", Calls: []Call{{Method: "Set1", Args: []any{"from " + dirs[0]}}}}}}
				fb := &Cfg{Decorators: []Decorator{{Tag: "t", Decorator: "pk2.Dec2", Args: []any{dirs[1]}}}, Services: []Service{{Name: "sa", Calls: []Call{{Method: "Set2", Args: []any{"from " + dirs[1]}}}}}}
				base := &Cfg{Meta: stdMeta(), Decorators: []Decorator{{Tag: "t", Decorator: "pk.Dec3", Args: []any{"base"}}}, Services: []Service{
					{Name: "sa", Constructor: P("pk.New1"), Tags: []Tag{{Name: "t"}}, Calls: []Call{{Method: "Set1", Args: []any{"from base"}}}},
					{Name: "sb", Constructor: P("pk.New2")}, {Name: "sc", Constructor: P("pk.New3")},
					{Name: "consumer", Constructor: P("pk2.New"), Args: []any{"!tagged t"}}}}
				first, second := fa, fb
				if db < da {
					first, second = fb, fa
				}
				merged := &Cfg{Meta: stdMeta(), Decorators: append(append(append([]Decorator{}, base.Decorators...), first.Decorators...), second.Decorators...), Services: []Service{
					{Name: "sa", Constructor: P("pk.New1"), Tags: []Tag{{Name: "t"}}, Calls: append(append(append([]Call{}, base.Services[0].Calls...), first.Services[0].Calls...), second.Services[0].Calls...)},
					{Name: "sb", Constructor: P("pk.New2")}, {Name: "sc", Constructor: P("pk.New3")},
					{Name: "consumer", Constructor: P("pk2.New"), Args: []any{"!tagged t"}}}}
				cases = append(cases, &BCase{ID: fmt.Sprintf("G/wildcard-directories=%d", gi), Cfg: merged,
					Files: []File{{baseName, base.YAML()}, {da, fa.YAML()}, {db, fb.YAML()}}, Patterns: []string{baseName, "conf/*/*.yaml"}, Sessions: []BSession{{Ops: stdOps()}}})
			}
			// (H) "service name ascending" on names that differ in case, digits and separators: equal priorities, and one
			// priority tie broken against the name order
			{
				nameSet := []string{"b", "B", "a10", "a9", "a", "a-b", "a.b", "a_b", "aB", "Z9", "z", "a1", "A"}
				for v := 0; v < 3; v++ {
					cfg := &Cfg{Meta: stdMeta()}
					for i, n := range nameSet {
						sv := Service{Name: n, Constructor: P("pk.New"), Args: []any{n}}
						switch v {
						case 0:
							sv.Tags = []Tag{{Name: "t"}}
						case 1:
							sv.Tags = []Tag{{Name: "t", Priority: P(i % 2)}}
						case 2:
							sv.Tags = []Tag{{Name: "t", Priority: P(-(i % 3))}, {Name: "u", Priority: P(i / 4)}}
						}
						cfg.Services = append(cfg.Services, sv)
					}
					cfg.Services = append(cfg.Services, Service{Name: "consumer", Constructor: P("pk2.New"), Args: []any{"!tagged t", "!tagged u"}})
					cases = append(cases, &BCase{ID: fmt.Sprintf("H/name-order=%d", v), Cfg: cfg, Sessions: []BSession{{Ops: []ProbeOp{op("get", "consumer"), opTag("tagged", "t"), opTag("tagged", "u"), opCtx("taggedctx", "A", "t")}}}})
				}
			}
			// (I) services that arrive at run time (OverrideService, the documented way to fill a todo placeholder) carry tags
			// too: decorators declared for a tag apply to them, also when no configured service carries that tag
			for v := 0; v < 4; v++ {
				cfg := &Cfg{Meta: stdMeta()}
				cfg.Services = []Service{
					{Name: "sa", Constructor: P("pk.New1"), Tags: []Tag{{Name: "t"}}},
					{Name: "late", Todo: P(true), Tags: []Tag{{Name: "t", Priority: P(9)}}},
					{Name: "consumer", Constructor: P("pk2.New"), Args: []any{"!tagged t", "!tagged rt"}, Scope: P("non_shared")},
				}
				cfg.Decorators = []Decorator{{Tag: "rt", Decorator: "pk.Dec1", Args: []any{"only-runtime-services-carry-rt"}}, {Tag: "t", Decorator: "pk2.Dec2"}, {Tag: "rt", Decorator: "pk.Dec3", Args: []any{2}}}
				var tags []string
				if v&1 != 0 {
					tags = append(tags, "rt")
				}
				if v&2 != 0 {
					tags = append(tags, "t")
				}
				ov := ProbeOp{Op: "overrideService", Name: "late", Val: &ProbeSpec{Kind: "ctor", Ctor: "fx/pk.New2", Args: []any{"arrived"}, Tags: tags}}
				ov2 := ProbeOp{Op: "overrideService", Name: "brandNew", Val: &ProbeSpec{Kind: "ctor", Ctor: "fx/pk.New", Args: []any{"never declared"}, Tags: tags}}
				after := []ProbeOp{op("get", "late"), opTag("tagged", "rt"), opTag("tagged", "t"), op("get", "consumer"), opCtx("taggedctx", "A", "rt")}
				cases = append(cases, &BCase{ID: fmt.Sprintf("I/runtime-tags=%02b", v), Cfg: cfg, Sessions: []BSession{
					{Ops: append([]ProbeOp{ov}, after...)},
					{Ops: append([]ProbeOp{opTag("tagged", "t"), op("get", "consumer"), ov, ov2}, append(after, op("get", "brandNew"))...)},
				}})
			}
			// (J) decorators of the container's own package (no qualifier) before, between and after qualified ones
			for v := 0; v < 8; v++ {
				cfg := &Cfg{Meta: stdMeta()}
				fns := []string{"pk.Dec1", "pk2.Dec2", "pk.Dec3"}
				id := ""
				for k := 0; k < 3; k++ {
					fn := fns[k]
					if v&(1<<uint(k)) != 0 {
						fn = fn[strings.Index(fn, ".")+1:] // the local function of the same name
						id += "L"
					} else {
						id += "Q"
					}
					cfg.Decorators = append(cfg.Decorators, Decorator{Tag: "t", Decorator: fn, Args: []any{k}})
				}
				cfg.Services = []Service{{Name: "sa", Constructor: P("pk.New1"), Tags: []Tag{{Name: "t"}}}, {Name: "sb", Constructor: P("New2"), Tags: []Tag{{Name: "t", Priority: P(1)}}},
					{Name: "sc", Constructor: P("pk.New3")}, {Name: "consumer", Constructor: P("pk2.New"), Args: []any{"!tagged t"}}}
				cases = append(cases, &BCase{ID: "J/local-and-qualified-decorators=" + id, Cfg: cfg, Local: true, Sessions: []BSession{{Ops: stdOps()}}})
			}
			// (K) the typed getter of a decorated service returns what Get returns, whatever the creation method and scope
			for ki, sv := range []Service{
				{Value: P("&pk.Obj{}"), Scope: P("non_shared")}, {Value: P("&pk.Obj{}")}, {Value: P("pk.Var"), Scope: P("contextual")},
				{Constructor: P("pk.New1"), Scope: P("non_shared")}, {Constructor: P("pk.New1")}, {Type: P("pk2.Val")},
			} {
				cfg := &Cfg{Meta: stdMeta()}
				sv.Name, sv.Getter, sv.MustGetter = "sa", P("FetchSa"), P(true)
				if sv.Type != nil {
					sv.Getter, sv.MustGetter = nil, nil // a typed getter cannot return the decorator's wrapper
				}
				sv.Tags = []Tag{{Name: "t"}}
				cfg.Services = []Service{sv, {Name: "sb", Constructor: P("pk.New2")}, {Name: "sc", Constructor: P("pk.New3")}, {Name: "consumer", Constructor: P("pk2.New"), Args: []any{"!tagged t"}}}
				cfg.Decorators = []Decorator{{Tag: "t", Decorator: "pk.Dec1", Args: []any{"k"}}, {Tag: "t", Decorator: "pk2.Dec2"}}
				ops := stdOps()
				if sv.Getter != nil {
					ops = append(ops, op("getter", "FetchSa"), op("mustgetter", "MustFetchSa"), opCtx("getterctx", "A", "FetchSaInContext"), opCtx("getctx", "A", "sa"), op("getter", "FetchSa"))
				}
				cases = append(cases, &BCase{ID: fmt.Sprintf("K/getter-of-decorated/%d", ki), Cfg: cfg, Sessions: []BSession{{Ops: ops}}})
			}
			// (L) priorities beyond 32 bits (both signs), pairwise distinct, against the name order; ties at the extremes
			{
				big := []int{1 << 31, 1<<31 + 1, 1 << 40, math.MaxInt64 - 1, math.MaxInt64, -(1 << 31) - 1, -(1 << 31) - 2, -(1 << 40), math.MinInt64 + 1, math.MinInt64, math.MaxInt32, math.MinInt32, 0}
				for v := 0; v < 2; v++ {
					cfg := &Cfg{Meta: stdMeta()}
					for i, p := range big {
						n := fmt.Sprintf("m%02d", i)
						if v == 1 {
							n = fmt.Sprintf("m%02d", len(big)-i)
						}
						cfg.Services = append(cfg.Services, Service{Name: n, Constructor: P("pk.New"), Args: []any{n}, Tags: []Tag{{Name: "t", Priority: P(p)}, {Name: "u", Priority: P(-p / 3)}}})
					}
					cfg.Services = append(cfg.Services, Service{Name: "consumer", Constructor: P("pk2.New"), Args: []any{"!tagged t", "!tagged u"}})
					cases = append(cases, &BCase{ID: fmt.Sprintf("L/wide-priorities=%d", v), Cfg: cfg, Sessions: []BSession{{Ops: []ProbeOp{op("get", "consumer"), opTag("tagged", "t"), opTag("tagged", "u")}}}})
				}
			}
			// (M) the same thing twice in a row: equal neighbouring arguments of a decorator / constructor / call, the same
			// decorator declared twice in succession (applied twice), the same tag twice on neighbouring services, equal
			// neighbouring calls and fields of equal values - every one of them counts
			{
				rep := [][]any{{5, 5}, {"@dep", "@dep"}, {"%p%", "%p%", 3}, {"x", "x", "x"}, {nil, nil}, {true, true, false, false}, {"!tagged w", "!tagged w"}, {"@dep", "%p%", "@dep", "%p%"}, {"$gontainer", "$gontainer"}, {"!value pk.Const", "!value pk.Const"}}
				for i, args := range rep {
					cfg := &Cfg{Meta: stdMeta(), Params: []Param{{"p", "pv"}}}
					cfg.Services = []Service{
						{Name: "dep", Constructor: P("pk.New"), Args: args},
						{Name: "sa", Constructor: P("pk.New1"), Args: args, Tags: []Tag{{Name: "t"}}, Calls: []Call{{Method: "Set1", Args: args}, {Method: "Set1", Args: args}, {Method: "With1", Args: args, Immutable: P(true)}, {Method: "With1", Args: args, Immutable: P(true)}}, Fields: []KV{{"F1", args[0]}, {"F2", args[0]}}},
						{Name: "sb", Constructor: P("pk.New1"), Args: args, Tags: []Tag{{Name: "t"}, {Name: "u"}}},
						{Name: "consumer", Constructor: P("pk2.New"), Args: []any{"!tagged t", "!tagged t", "!tagged u"}},
					}
					cfg.Services = append(cfg.Services, Service{Name: "leafw", Constructor: P("pk.New3"), Tags: []Tag{{Name: "w"}}})
					if s, ok := args[0].(string); ok && s == "@dep" {
						cfg.Services[0].Args = []any{"leaf", "leaf"} // no cycle through dep
					}
					cfg.Decorators = []Decorator{{Tag: "t", Decorator: "pk.Dec1", Args: args}, {Tag: "t", Decorator: "pk.Dec1", Args: args}, {Tag: "u", Decorator: "pk.Dec2"}, {Tag: "u", Decorator: "pk.Dec2"}, {Tag: "t", Decorator: "pk.Dec1", Args: args}}
					cases = append(cases, &BCase{ID: fmt.Sprintf("M/repeated-neighbours=%d", i), Cfg: cfg, Sessions: []BSession{{Ops: []ProbeOp{op("get", "consumer"), opTag("tagged", "t"), opTag("tagged", "u"), op("get", "sa"), op("get", "sb"), op("get", "dep"), op("counters", "")}}}})
				}
			}
			// (N) two-digit counts (the 10th, 11th, 12th of everything, where the order of indices as text differs from their
			// order as numbers): twelve decorators on one tag, twelve tags on one service each with its decorator, twelve carriers
			// with priorities 1..12, twelve arguments / calls on the decorated service
			{
				cfg := &Cfg{Meta: stdMeta(), Params: []Param{{"p", "pv"}}}
				many := Service{Name: "many", Constructor: P("pk.New"), Tags: []Tag{{Name: "t"}}}
				for i := 0; i < 12; i++ {
					cfg.Decorators = append(cfg.Decorators, Decorator{Tag: "t", Decorator: []string{"pk.Dec1", "pk.Dec2", "pk.Dec3"}[i%3], Args: []any{i, fmt.Sprintf("d%d", i)}})
					many.Args = append(many.Args, i)
					many.Calls = append(many.Calls, Call{Method: []string{"Set1", "With1"}[i%2], Args: []any{fmt.Sprintf("c%d", i)}, Immutable: []*bool{nil, P(true)}[i%2]})
					tn := fmt.Sprintf("u%d", i)
					many.Tags = append(many.Tags, Tag{Name: tn, Priority: P(12 - i)})
					cfg.Decorators = append(cfg.Decorators, Decorator{Tag: tn, Decorator: "pk2.Dec1", Args: []any{tn}})
					cfg.Services = append(cfg.Services, Service{Name: fmt.Sprintf("c%d", i), Constructor: P("pk.New3"), Args: []any{i}, Tags: []Tag{{Name: "prio", Priority: P(i + 1)}}})
				}
				cfg.Services = append(cfg.Services, many, Service{Name: "consumer", Constructor: P("pk2.New"), Args: []any{"!tagged t", "!tagged prio", "!tagged u10", "!tagged u2"}})
				cases = append(cases, &BCase{ID: "N/two-digit-counts", Cfg: cfg, Sessions: []BSession{{Ops: []ProbeOp{op("get", "consumer"), op("get", "many"), opTag("tagged", "prio"), opTag("tagged", "t"), opTag("tagged", "u11"), op("counters", "")}}}})
			}
			// (D) scopes of carriers
			scopes := []*string{nil, P("shared"), P("non_shared"), P("contextual")}
			for a := 0; a < 4; a++ {
				for b := 0; b < 4; b++ {
					cfg := &Cfg{Meta: stdMeta()}
					cfg.Services = []Service{
						{Name: "sa", Constructor: P("pk.New1"), Tags: []Tag{{Name: "t"}}, Scope: scopes[a]},
						{Name: "sb", Constructor: P("pk.NewVal"), Tags: []Tag{{Name: "t", Priority: P(1)}, {Name: "u"}}, Scope: scopes[b]},
						{Name: "sc", Constructor: P("pk.New3"), Args: []any{"@sa"}},
						{Name: "consumer", Constructor: P("pk2.New"), Args: []any{"!tagged t", "@sa", "!tagged t"}},
					}
					cfg.Decorators = []Decorator{{Tag: "u", Decorator: "pk.Dec1", Args: []any{"@sa"}}}
					if a == 3 && b == 1 {
						continue // sb declared shared is decorated with a dependency on contextual sa: rejected by the scope rule (C05)
					}
					cases = append(cases, &BCase{ID: fmt.Sprintf("D/scopes=%d%d", a, b), Cfg: cfg,
						Sessions: []BSession{{Ops: stdOps(opCtx("getctx", "A", "sa"), opCtx("getctx", "B", "consumer"), opCtx("taggedctx", "B", "t"), op("get", "consumer"), op("counters", ""))}}})
				}
			}
			// the tag objects, priorities and decorator entries mean the same however the YAML presents them
			w.Case("yaml-presentation", func(c *C) {
				cfg := &Cfg{Meta: stdMeta(), Params: []Param{{"p", 3}}}
				cfg.Services = []Service{
					{Name: "sa", Constructor: P("pk.New1"), Tags: []Tag{{Name: "t", Priority: P(7)}, {Name: "u", Priority: P(-2)}}},
					{Name: "sb", Constructor: P("pk.New2"), Tags: []Tag{{Name: "t", Priority: P(7)}, {Name: "u", MapForm: true}}, Calls: []Call{{Method: "Set1", Args: []any{"@dep", "%p%"}}, {Method: "With1", Args: []any{"@dep", "%p%"}, Immutable: P(true)}}},
					{Name: "sc", Constructor: P("pk.New3"), Tags: []Tag{{Name: "t"}}, Args: []any{"@dep", "%p%"}},
					{Name: "consumer", Constructor: P("pk2.New"), Args: []any{"!tagged t", "!tagged u"}},
					{Name: "dep", Constructor: P("pk.New")},
				}
				cfg.Decorators = []Decorator{{Tag: "t", Decorator: "pk.Dec1", Args: []any{"@dep", "%p%"}}, {Tag: "u", Decorator: "pk2.Dec2"}, {Tag: "t", Decorator: "pk.Dec3", Args: []any{"@dep", "%p%"}}}
				c.Distinct("all", c.ID)
				w.ShapeInvarianceOK(c, "tags-and-decorators", []File{{"c.yaml", cfg.YAML()}}, true)
				w.NameInvariance(c, "tags-and-decorators", cfg)
			})
			runBatches(w, "c04", cases, 40, behaviourOracle)
		},
	})
}
