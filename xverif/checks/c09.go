package checks

import (
	"fmt"
	"os"
	"path/filepath"
	"reflect"
	"strings"
	"time"

	"github.com/gontainer/gontainer/internal/pkg/input"
	. "github.com/gontainer/gontainer/xverif/core"
)

// C09 — multi-file merge semantics and split invariance.

// An atom is one mergeable piece of a configuration; put(cfg) adds it to a (partial) file.
type c09atom struct {
	id    string
	put   func(c *Cfg)
	group string // atoms of one ordered group must be assigned to files in non-decreasing order
}

func svcIn(c *Cfg, name string) *Service {
	if s := c.Svc(name); s != nil {
		return s
	}
	c.Services = append(c.Services, Service{Name: name})
	return &c.Services[len(c.Services)-1]
}

func metaIn(c *Cfg) *Meta {
	if c.Meta == nil {
		c.Meta = &Meta{}
	}
	return c.Meta
}

var c09bases = map[string][]c09atom{
	"service-attributes": {
		{"s1.getter", func(c *Cfg) { svcIn(c, "s1").Getter = P("GetS1") }, ""},
		{"s1.type", func(c *Cfg) { svcIn(c, "s1").Type = P("*pk.Obj") }, ""},
		{"s1.constructor", func(c *Cfg) { svcIn(c, "s1").Constructor = P("pk.New") }, ""},
		{"s1.arguments", func(c *Cfg) { svcIn(c, "s1").Args = []any{1, "%p1%"} }, ""},
		{"s1.call1", func(c *Cfg) { s := svcIn(c, "s1"); s.Calls = append(s.Calls, Call{Method: "Set1", Args: []any{"a"}}) }, "calls"},
		{"s1.call2", func(c *Cfg) {
			s := svcIn(c, "s1")
			s.Calls = append(s.Calls, Call{Method: "With1", Args: []any{"b"}, Immutable: P(true)})
		}, "calls"},
		{"s1.tag1", func(c *Cfg) { s := svcIn(c, "s1"); s.Tags = append(s.Tags, Tag{Name: "t1"}) }, "tags"},
		{"s1.tag2", func(c *Cfg) { s := svcIn(c, "s1"); s.Tags = append(s.Tags, Tag{Name: "t2", Priority: P(4)}) }, "tags"},
	},
	"meta-and-params": {
		{"meta.pkg", func(c *Cfg) { metaIn(c).Pkg = P("gen") }, ""},
		{"meta.container_type", func(c *Cfg) { metaIn(c).ContainerType = P("Box") }, ""},
		{"meta.default_must_getter", func(c *Cfg) { metaIn(c).DefaultMustGetter = P(true) }, ""},
		{"meta.imports.pk", func(c *Cfg) { m := metaIn(c); m.Imports = append(m.Imports, KV{"pk", "fx/pk"}) }, ""},
		{"meta.imports.pk2", func(c *Cfg) { m := metaIn(c); m.Imports = append(m.Imports, KV{"pk2", "fx/pk2"}) }, ""},
		{"meta.functions.fn", func(c *Cfg) { m := metaIn(c); m.Functions = append(m.Functions, KV{"fn", "pk2.FnStr"}) }, ""},
		{"parameters.p1", func(c *Cfg) { c.Params = append(c.Params, Param{"p1", 10}) }, ""},
		{"parameters.p2", func(c *Cfg) { c.Params = append(c.Params, Param{"p2", "%p1%-%fn()%"}) }, ""},
	},
	"null-values-and-todo-leftovers": {
		{"parameters.p3-null", func(c *Cfg) { c.Params = append(c.Params, Param{"p3", nil}) }, ""},
		{"parameters.p4", func(c *Cfg) { c.Params = append(c.Params, Param{"p4", "<%p3%>"}) }, ""},
		{"s1.arguments", func(c *Cfg) { svcIn(c, "s1").Args = []any{"%p3%", nil} }, ""},
		{"s1.fields.F1-null", func(c *Cfg) { s := svcIn(c, "s1"); s.Fields = append(s.Fields, KV{"F1", nil}) }, ""},
		{"s3.todo", func(c *Cfg) { svcIn(c, "s3").Todo = P(true) }, ""},
		{"s3.leftover-arguments", func(c *Cfg) { svcIn(c, "s3").Args = []any{"@nowhere", "%nothing%", "@s1"} }, ""},
		{"s3.leftover-call", func(c *Cfg) { s := svcIn(c, "s3"); s.Calls = append(s.Calls, Call{Method: "Set1", Args: []any{"@s3"}}) }, "calls"},
	},
	"services-and-decorators": {
		{"s1.constructor", func(c *Cfg) { svcIn(c, "s1").Constructor = P("pk.New") }, ""},
		{"s1.fields.F1", func(c *Cfg) { s := svcIn(c, "s1"); s.Fields = append(s.Fields, KV{"F1", "@s2"}) }, ""},
		{"s1.fields.F2", func(c *Cfg) { s := svcIn(c, "s1"); s.Fields = append(s.Fields, KV{"F2", 2}) }, ""},
		{"s1.scope", func(c *Cfg) { svcIn(c, "s1").Scope = P("non_shared") }, ""},
		{"s1.tag", func(c *Cfg) { s := svcIn(c, "s1"); s.Tags = append(s.Tags, Tag{Name: "t1"}) }, ""},
		{"s2.value", func(c *Cfg) { svcIn(c, "s2").Value = P("pk.Var") }, ""},
		{"decorator1", func(c *Cfg) {
			c.Decorators = append(c.Decorators, Decorator{Tag: "t1", Decorator: "pk.Dec1", Args: []any{"x"}})
		}, "decorators"},
		{"decorator2", func(c *Cfg) { c.Decorators = append(c.Decorators, Decorator{Tag: "t1", Decorator: "pk.Dec2"}) }, "decorators"},
		{"version", func(c *Cfg) { c.Version = P("1.2.3") }, ""},
		{"s3.todo", func(c *Cfg) { svcIn(c, "s3").Todo = P(true) }, ""},
	},
}

// fixed context every base needs to be valid, always in the single file "zz-context" that comes first
func c09context(base string) *Cfg {
	c := &Cfg{}
	switch base {
	case "service-attributes":
		c.Meta = &Meta{Pkg: P("gen"), Imports: []KV{{"pk", "fx/pk"}}}
		c.Params = []Param{{"p1", 1}}
	case "meta-and-params":
		// a getter without an explicit must_getter: what meta.default_must_getter says is visible in the output
		// (and a constructor behind the alias pk, so that the alias atom is visible too)
		c.Services = []Service{{Name: "user", Constructor: P("pk.New"), Getter: P("GetUser")}}
	case "null-values-and-todo-leftovers":
		c.Meta = &Meta{Pkg: P("gen"), Imports: []KV{{"pk", "fx/pk"}}}
		c.Services = []Service{{Name: "s1", Constructor: P("pk.New")}}
	case "services-and-decorators":
		c.Meta = &Meta{Pkg: P("gen"), Imports: []KV{{"pk", "fx/pk"}}}
		c.Version = P("9.9.9") // incompatible with the build; the version atom (a later file) overrides it
	}
	return c
}

// c09override: an attribute with a decoy value in an earlier file and the real value in a later one.
type c09override struct {
	id          string
	decoy, real func(c *Cfg)
}

func c09overrides() []c09override {
	sv := func(f func(s *Service)) func(c *Cfg) { return func(c *Cfg) { f(svcIn(c, "s1")) } }
	mt := func(f func(m *Meta)) func(c *Cfg) { return func(c *Cfg) { f(metaIn(c)) } }
	return []c09override{
		{"getter", sv(func(s *Service) { s.Getter = P("GetDecoy") }), sv(func(s *Service) { s.Getter = P("GetReal") })},
		{"must_getter", sv(func(s *Service) { s.MustGetter = P(false) }), sv(func(s *Service) { s.MustGetter = P(true) })},
		{"type", sv(func(s *Service) { s.Type = P("*pk.Decoy") }), sv(func(s *Service) { s.Type = P("*pk.Obj") })},
		{"constructor", sv(func(s *Service) { s.Constructor = P("pk.Decoy") }), sv(func(s *Service) { s.Constructor = P("pk.NewReal") })},
		{"value-then-constructor", func(c *Cfg) { svcIn(c, "s2").Value = P("pk.Decoy") }, func(c *Cfg) { svcIn(c, "s2").Value = P("pk.Real") }},
		{"arguments-replace", sv(func(s *Service) { s.Args = []any{"decoy", "decoy2"} }), sv(func(s *Service) { s.Args = []any{"real"} })},
		{"arguments-empty-does-not-replace", sv(func(s *Service) { s.Args = []any{"kept"} }), sv(func(s *Service) { s.HasArgs = true })},
		{"field", sv(func(s *Service) { s.Fields = append(s.Fields, KV{"F1", "decoy"}) }), sv(func(s *Service) { s.Fields = append(s.Fields, KV{"F1", "real"}) })},
		{"scope", sv(func(s *Service) { s.Scope = P("contextual") }), sv(func(s *Service) { s.Scope = P("shared") })},
		{"todo", func(c *Cfg) { svcIn(c, "s4").Todo = P(true) }, func(c *Cfg) { s := svcIn(c, "s4"); s.Todo = P(false); s.Value = P("pk.Var") }},
		{"parameter", func(c *Cfg) { c.Params = append(c.Params, Param{"p9", "decoy"}) }, func(c *Cfg) { c.Params = append(c.Params, Param{"p9", 99}) }},
		// a later null is a value like any other for the entries of a mapping (parameters, fields): it wins over an earlier
		// non-null one; and a later non-null wins over an earlier null
		{"parameter-null-over-value", func(c *Cfg) { c.Params = append(c.Params, Param{"p9", 30}) }, func(c *Cfg) { c.Params = append(c.Params, Param{"p9", nil}) }},
		{"parameter-value-over-null", func(c *Cfg) { c.Params = append(c.Params, Param{"p9", nil}) }, func(c *Cfg) { c.Params = append(c.Params, Param{"p9", "set"}) }},
		{"field-null-over-value", sv(func(s *Service) { s.Fields = append(s.Fields, KV{"F1", "@s2"}) }), sv(func(s *Service) { s.Fields = append(s.Fields, KV{"F1", nil}) })},
		{"field-value-over-null", sv(func(s *Service) { s.Fields = append(s.Fields, KV{"F1", nil}) }), sv(func(s *Service) { s.Fields = append(s.Fields, KV{"F1", 15}) })},
		{"parameter-false-and-zero-over-value", func(c *Cfg) { c.Params = append(c.Params, Param{"p9", "decoy"}, Param{"p8", 7}, Param{"p7", "x"}) }, func(c *Cfg) { c.Params = append(c.Params, Param{"p9", false}, Param{"p8", 0}, Param{"p7", ""}) }},
		{"parameter-decoy-of-unsupported-kind", func(c *Cfg) { c.Params = append(c.Params, Param{"p9", Raw("[a, {b: c}]")}) }, func(c *Cfg) { c.Params = append(c.Params, Param{"p9", "scalar"}) }},
		{"todo-then-defined", func(c *Cfg) {
			s := svcIn(c, "s5")
			s.Todo, s.Getter, s.MustGetter, s.Type = P(true), P("GetS5"), P(true), P("*pk.Obj")
			s.Tags = []Tag{{Name: "t5", Priority: P(2)}}
		}, func(c *Cfg) {
			s := svcIn(c, "s5")
			s.Todo, s.Constructor = P(false), P("pk.New")
			s.Args = []any{1}
		}},
		{"import", mt(func(m *Meta) { m.Imports = append(m.Imports, KV{"pz", "fx/decoy"}) }), func(c *Cfg) {
			m := metaIn(c)
			m.Imports = append(m.Imports, KV{"pz", "fx/pk2"})
			svcIn(c, "sz").Constructor = P("pz.New")
		}},
		{"function", mt(func(m *Meta) { m.Functions = append(m.Functions, KV{"fz", "pk.Decoy"}) }), func(c *Cfg) {
			m := metaIn(c)
			m.Functions = append(m.Functions, KV{"fz", "pk.FnInt"})
			c.Params = append(c.Params, Param{"pz", "%fz()%"})
		}},
		{"parameter-later-mapping-larger", func(c *Cfg) { c.Params = append(c.Params, Param{"p9", "decoy"}) }, func(c *Cfg) {
			c.Params = append(c.Params, Param{"p9", 99}, Param{"x1", 1}, Param{"x2", 2}, Param{"x3", 3}, Param{"x4", 4}, Param{"x5", 5})
		}},
		{"field-later-mapping-larger", sv(func(s *Service) { s.Fields = append(s.Fields, KV{"F1", "decoy"}) }), sv(func(s *Service) {
			s.Fields = append(s.Fields, KV{"F1", "real"}, KV{"F2", 2}, KV{"F3", 3}, KV{"F4", 4})
		})},
		{"import-later-mapping-larger", mt(func(m *Meta) { m.Imports = append(m.Imports, KV{"pz", "fx/decoy"}) }), func(c *Cfg) {
			m := metaIn(c)
			m.Imports = append(m.Imports, KV{"pz", "fx/pk2"}, KV{"u1", "fx/a"}, KV{"u2", "fx/ab"}, KV{"u3", "fx/os"})
			svcIn(c, "sz").Constructor = P("pz.New")
		}},
		{"function-later-mapping-larger", mt(func(m *Meta) { m.Functions = append(m.Functions, KV{"fz", "pk.Decoy"}) }), func(c *Cfg) {
			m := metaIn(c)
			m.Functions = append(m.Functions, KV{"fz", "pk.FnInt"}, KV{"g1", "pk.FnStr"}, KV{"g2", "pk.FnStr"}, KV{"g3", "pk.FnStr"}, KV{"g4", "pk.FnStr"}, KV{"g5", "pk.FnStr"})
			c.Params = append(c.Params, Param{"pz", "%fz()%"})
		}},
		{"builtin-function-overridden", mt(func(m *Meta) { m.Functions = append(m.Functions, KV{"env", "pk.Decoy"}) }), func(c *Cfg) {
			m := metaIn(c)
			m.Functions = append(m.Functions, KV{"env", "pk.FnStr"})
			c.Params = append(c.Params, Param{"pz", `%env("K")%`})
		}},
		{"pkg", mt(func(m *Meta) { m.Pkg = P("decoy") }), mt(func(m *Meta) { m.Pkg = P("gen") })},
		{"container_type", mt(func(m *Meta) { m.ContainerType = P("Decoy") }), mt(func(m *Meta) { m.ContainerType = P("Real") })},
		{"container_constructor", mt(func(m *Meta) { m.ContainerConstructor = P("NewDecoy") }), mt(func(m *Meta) { m.ContainerConstructor = P("NewReal") })},
		{"default_must_getter", mt(func(m *Meta) { m.DefaultMustGetter = P(true) }), mt(func(m *Meta) { m.DefaultMustGetter = P(false) })},
		{"version", func(c *Cfg) { c.Version = P("9.9.9") }, func(c *Cfg) { c.Version = P("1.0.0") }},
	}
}

func c09overrideContext() *Cfg {
	return &Cfg{Meta: &Meta{Pkg: P("gen"), Imports: []KV{{"pk", "fx/pk"}}, Functions: []KV{{"fn", "pk.FnStr"}}}, Params: []Param{{"p0", "%fn()%"}},
		Services: []Service{{Name: "s1", Constructor: P("pk.New"), Getter: P("GetS1")}, {Name: "s2", Value: P("pk.Var")}}}
}

// looseEqual: reflect.DeepEqual that does not distinguish nil from empty maps / slices.
func looseEqual(a, b reflect.Value) bool {
	if a.Kind() != b.Kind() {
		return false
	}
	switch a.Kind() {
	case reflect.Ptr, reflect.Interface:
		if a.IsNil() || b.IsNil() {
			return a.IsNil() == b.IsNil()
		}
		return looseEqual(a.Elem(), b.Elem())
	case reflect.Map:
		if a.Len() != b.Len() {
			return false
		}
		for _, k := range a.MapKeys() {
			bv := b.MapIndex(k)
			if !bv.IsValid() || !looseEqual(a.MapIndex(k), bv) {
				return false
			}
		}
		return true
	case reflect.Slice:
		if a.Len() != b.Len() {
			return false
		}
		for i := 0; i < a.Len(); i++ {
			if !looseEqual(a.Index(i), b.Index(i)) {
				return false
			}
		}
		return true
	case reflect.Struct:
		for i := 0; i < a.NumField(); i++ {
			if !looseEqual(a.Field(i), b.Field(i)) {
				return false
			}
		}
		return true
	}
	return reflect.DeepEqual(a.Interface(), b.Interface())
}

// c09inputs: a small universe of input.Input values (each attribute absent / v1 / v2, two attributes at a time).
func c09inputs() []input.Input {
	sp := func(s string) *string { return &s }
	bp := func(b bool) *bool { return &b }
	scp := func(s input.Scope) *input.Scope { return &s }
	vv := func(s string) *input.Version { v := input.Version(s); return &v }
	type mod func(i *input.Input, v int)
	svc := func(i *input.Input, f func(s *input.Service)) {
		if i.Services == nil {
			i.Services = map[string]input.Service{}
		}
		s := i.Services["s"]
		f(&s)
		i.Services["s"] = s
	}
	mods := []mod{
		func(i *input.Input, v int) { i.Version = vv(fmt.Sprintf("1.%d.0", v)) },
		func(i *input.Input, v int) { i.Meta.Pkg = sp(fmt.Sprintf("pkg%d", v)) },
		func(i *input.Input, v int) { i.Meta.DefaultMustGetter = bp(v == 1) },
		func(i *input.Input, v int) {
			i.Meta.Imports = map[string]string{"a": fmt.Sprintf("path%d", v), fmt.Sprintf("only%d", v): "x"}
		},
		func(i *input.Input, v int) { i.Meta.Functions = map[string]string{"f": fmt.Sprintf("fn%d", v)} },
		func(i *input.Input, v int) { i.Params = map[string]any{"p": v, fmt.Sprintf("q%d", v): "x"} },
		func(i *input.Input, v int) { svc(i, func(s *input.Service) { s.Getter = sp(fmt.Sprintf("G%d", v)) }) },
		func(i *input.Input, v int) {
			svc(i, func(s *input.Service) { s.Constructor = sp(fmt.Sprintf("New%d", v)) })
		},
		func(i *input.Input, v int) {
			svc(i, func(s *input.Service) { s.Args = []any{v, "x"}[:v] })
		},
		func(i *input.Input, v int) {
			svc(i, func(s *input.Service) { s.Calls = []input.Call{{Method: fmt.Sprintf("M%d", v)}} })
		},
		func(i *input.Input, v int) { svc(i, func(s *input.Service) { s.Fields = map[string]any{"F": v} }) },
		func(i *input.Input, v int) {
			svc(i, func(s *input.Service) { s.Tags = []input.Tag{{Name: fmt.Sprintf("t%d", v)}} })
		},
		func(i *input.Input, v int) { svc(i, func(s *input.Service) { s.Scope = scp(input.Scope(v)) }) },
		func(i *input.Input, v int) { svc(i, func(s *input.Service) { s.Todo = bp(v == 1) }) },
		func(i *input.Input, v int) {
			if i.Services == nil {
				i.Services = map[string]input.Service{}
			}
			i.Services[fmt.Sprintf("other%d", v)] = input.Service{Value: sp("V")}
		},
		func(i *input.Input, v int) {
			i.Decorators = []input.Decorator{{Tag: "t", Decorator: fmt.Sprintf("D%d", v)}}
		},
	}
	var out []input.Input
	out = append(out, input.Input{})
	for a := 0; a < len(mods); a++ {
		for va := 1; va <= 2; va++ {
			x := input.Input{}
			mods[a](&x, va)
			out = append(out, x)
			for b := a + 1; b < len(mods); b++ {
				for vb := 1; vb <= 2; vb++ {
					y := input.Input{}
					mods[a](&y, va)
					mods[b](&y, vb)
					out = append(out, y)
				}
			}
		}
	}
	return out
}

func init() {
	Register(&Check{
		ID:    "C09",
		Level: "exploration",
		Rule: "(1) four base configurations of 7-10 atoms (service attributes incl. ordered calls/tags; meta + parameters; services + fields + decorators + version; null-valued parameters, arguments and fields + a todo service carrying left-over arguments and calls) x every assignment of the atoms to 3 files that respects the order of appended atoms: -o bytes equal the single-file form; (2) 28 overriding pairs (incl. a later null / false / zero / empty string over an earlier value in parameters and fields) (incl. later mappings that are larger than everything merged before, and a user function named like a built-in) (decoy in an earlier file, real value later; empty arguments do not replace) x 5 file placements (incl. an unrelated or an empty file after the overriding one); (3) file naming / pattern assignment: explicit paths in both orders, one glob, two globs, a directory glob whose lexical path order differs from directory order, uncleaned patterns; " +
			"(5) nine spellings of an empty file (zero bytes, blank lines, comment only, bare document markers, {}, ~) at every position of a three-file configuration; (4) algebra on the real input.Merge: associativity for all triples and identity for all elements of a universe of 497 inputs (each attribute absent / v1 / v2, two attributes at a time; thorough: all triples, quick: all triples over the single-attribute elements). non-trivial = more than one file involved; distinct = distinct split / pair / triple",
		Assumptions: []string{"the single-file equivalent is built from the abstract atoms (never by merging YAML); merged Input values are compared structurally, not distinguishing nil from empty collections"},
		BudgetQuick: 280 * time.Second, BudgetThorough: 1500 * time.Second,
		Run: func(w *W) {
			// a semantic build version: the declared `version` becomes observable through the gate (1.2.3 and 1.0.0 are
			// compatible with it, 9.9.9 is not)
			DefaultVersion, DefaultBuildInfo = "1.2.3", "1.2.3 unknown"
			// harness self-check: every atom is observable - leaving it out changes the single-file output (or the verdict);
			// an atom that changes nothing would make the splits that isolate it vacuous
			w.Case("self-check/atoms-are-observable", func(c *C) {
				for bname, atoms := range c09bases {
					full := c09context(bname)
					for _, a := range atoms {
						a.put(full)
					}
					fb := w.Build([]File{{"c.yaml", full.YAML()}})
					for i := range atoms {
						part := c09context(bname)
						for j, a := range atoms {
							if j != i {
								a.put(part)
							}
						}
						pb := w.Build([]File{{"c.yaml", part.YAML()}})
						c.Count("atoms_checked")
						if pb.OK() == fb.OK() && pb.Output == fb.Output {
							c.Count("vacuous_atoms")
							w.Note(fmt.Sprintf("vacuous atom: leaving %s out of base %s does not change the result", atoms[i].id, bname))
						}
					}
				}
			})
			single := map[string]string{}
			for _, bname := range []string{"service-attributes", "meta-and-params", "services-and-decorators", "null-values-and-todo-leftovers"} {
				atoms := c09bases[bname]
				n := len(atoms)
				total := 1
				for i := 0; i < n; i++ {
					total *= 3
				}
				for v := 0; v < total; v++ {
					asg := make([]int, n)
					x := v
					for i := range asg {
						asg[i] = x % 3
						x /= 3
					}
					// ordered groups: non-decreasing file index
					ok := true
					last := map[string]int{}
					for i, a := range atoms {
						if a.group == "" {
							continue
						}
						if l, seen := last[a.group]; seen && asg[i] < l {
							ok = false
						}
						last[a.group] = asg[i]
					}
					if !ok {
						continue
					}
					bname, asg := bname, asg
					id := fmt.Sprintf("split/%s/%v", bname, asg)
					w.Case(id, func(c *C) {
						if single[bname] == "" {
							one := c09context(bname)
							for _, a := range atoms {
								a.put(one)
							}
							br := w.Build([]File{{"c.yaml", one.YAML()}})
							if !br.OK() {
								c.Violation("single-file-rejected:"+bname, "single-file form rejected:\n"+strings.Join(ErrorLines(br.Out), "\n"), map[string]string{"c.yaml": one.YAML()}, nil)
								single[bname] = "<rejected>"
							} else {
								single[bname] = br.Output
							}
						}
						if single[bname] == "<rejected>" {
							return
						}
						parts := []*Cfg{{}, {}, {}}
						used := map[int]bool{}
						for i, a := range atoms {
							a.put(parts[asg[i]])
							used[asg[i]] = true
						}
						files := []File{{"00-context.yaml", c09context(bname).YAML()}}
						for i, p := range parts {
							files = append(files, File{fmt.Sprintf("%02d-part.yaml", i+1), p.YAML()})
						}
						br := w.Build(files)
						c.Distinct("all", id)
						if len(used) > 1 {
							c.Distinct("nontrivial", id)
						}
						if br.Panic != "" {
							c.Violation("panic", "tool panicked:\n"+br.Panic, FilesMap(files), nil)
							return
						}
						if !br.OK() {
							c.Violation("split-rejected:"+bname, fmt.Sprintf("split %v of %s rejected:\n%s", asg, bname, strings.Join(ErrorLines(br.Out), "\n")), FilesMap(files), nil)
							return
						}
						if br.Output != single[bname] {
							var where []string
							for i, a := range atoms {
								where = append(where, fmt.Sprintf("%s->file%d", a.id, asg[i]+1))
							}
							c.Violation("split-differs:"+bname, fmt.Sprintf("split output differs from the single-file form (%s): %s", strings.Join(where, ", "), firstDiff(single[bname], br.Output)), FilesMap(files), nil)
						}
						if v == 4000 {
							c.Sample(map[string]any{"base": bname, "assignment": asg, "files": FilesMap(files)})
						}
					})
				}
			}
			// (2) overrides
			for _, ov := range c09overrides() {
				for place := 0; place < 5; place++ {
					ov, place := ov, place
					id := fmt.Sprintf("override/%s/place%d", ov.id, place)
					w.Case(id, func(c *C) {
						one := c09overrideContext()
						ov.real(one)
						if ov.id == "arguments-empty-does-not-replace" {
							one = c09overrideContext()
							ov.decoy(one)
						}
						if ov.id == "todo-then-defined" {
							// what the earlier file says and the later one does not touch stays: the single-file form has both
							one = c09overrideContext()
							ov.decoy(one)
							ov.real(one)
						}
						if place == 1 || place == 3 {
							one.Params = append(one.Params, Param{"unrelated", 1})
						}
						want := w.Build([]File{{"c.yaml", one.YAML()}})
						d, r, mid := &Cfg{}, &Cfg{}, &Cfg{Params: []Param{{"unrelated", 1}}}
						ov.decoy(d)
						ov.real(r)
						var files []File
						switch place {
						case 0:
							files = []File{{"00.yaml", c09overrideContext().YAML()}, {"01.yaml", d.YAML()}, {"02.yaml", r.YAML()}}
						case 1:
							files = []File{{"00.yaml", c09overrideContext().YAML()}, {"01.yaml", d.YAML()}, {"02.yaml", mid.YAML()}, {"03.yaml", r.YAML()}}
						case 3:
							// what the later file says stays said when an unrelated file follows it
							files = []File{{"00.yaml", c09overrideContext().YAML()}, {"01.yaml", d.YAML()}, {"02.yaml", r.YAML()}, {"03.yaml", mid.YAML()}}
						case 4:
							// ... or an empty one
							files = []File{{"00.yaml", c09overrideContext().YAML()}, {"01.yaml", d.YAML()}, {"02.yaml", r.YAML()}, {"03.yaml", "# nothing\n"}, {"04.yaml", ""}}
						case 2:
							// decoy before the context (the context's own values are then overridden as well where they collide)
							files = []File{{"00.yaml", d.YAML()}, {"01.yaml", c09overrideContext().YAML()}, {"02.yaml", r.YAML()}}
						}
						wantOne := want
						if place == 2 && (ov.id == "arguments-empty-does-not-replace") {
							return
						}
						got := w.Build(files)
						if ov.id == "must_getter" && false {
							return
						}
						c.Distinct("all", id)
						c.Distinct("nontrivial", id)
						if wantOne.OK() != got.OK() || wantOne.Output != got.Output {
							c.Violation("override:"+ov.id, fmt.Sprintf("attribute %s: a later file must override an earlier one (placement %d); single-file form with the later value accepted=%v, split accepted=%v; %s\n%s", ov.id, place, wantOne.OK(), got.OK(), firstDiff(wantOne.Output, got.Output), strings.Join(ErrorLines(got.Out), "\n")), FilesMap(files), nil)
						}
					})
				}
			}
			// (3) file naming and patterns
			mk := func(val int) string { c := &Cfg{Params: []Param{{"p", val}}}; return c.YAML() }
			ctx := (&Cfg{Services: []Service{{Name: "u", Value: P("T{}")}}}).YAML()
			expect := func(c *C, id string, setup map[string]string, args []string, wantLast int) {
				w.FreshDir()
				for n, content := range setup {
					os.MkdirAll(filepath.Dir(n), 0o755)
					os.WriteFile(n, []byte(content), 0o644)
				}
				os.WriteFile("ctx.yaml", []byte(ctx), 0o644)
				a := []string{"-i", "ctx.yaml"}
				a = append(a, args...)
				a = append(a, "-o", "out.go")
				r := Tool(DefaultVersion, DefaultBuildInfo, a...)
				out, _ := os.ReadFile("out.go")
				wantCfg := &Cfg{Params: []Param{{"p", wantLast}}, Services: []Service{{Name: "u", Value: P("T{}")}}}
				wantRun := w.Build([]File{{"c.yaml", wantCfg.YAML()}})
				c.Distinct("all", id)
				c.Distinct("nontrivial", id)
				if !r.OK() || string(out) != wantRun.Output {
					c.Violation("merge-order:"+id, fmt.Sprintf("%s: the file that must come last (p=%d) did not win; args %v\n%s", id, wantLast, args, r.Out), setup, map[string]any{"args": args})
				}
			}
			w.Case("order/explicit-ab", func(c *C) {
				expect(c, c.ID, map[string]string{"a.yaml": mk(1), "b.yaml": mk(2)}, []string{"-i", "a.yaml", "-i", "b.yaml"}, 2)
			})
			w.Case("order/explicit-ba", func(c *C) {
				expect(c, c.ID, map[string]string{"a.yaml": mk(1), "b.yaml": mk(2)}, []string{"-i", "b.yaml", "-i", "a.yaml"}, 1)
			})
			w.Case("order/one-glob", func(c *C) {
				expect(c, c.ID, map[string]string{"d/a.yaml": mk(1), "d/b.yaml": mk(2), "d/c.yaml": mk(3)}, []string{"-i", "d/*.yaml"}, 3)
			})
			w.Case("order/two-globs", func(c *C) {
				expect(c, c.ID, map[string]string{"d/a1.yaml": mk(1), "d/b1.yaml": mk(2), "d/a2.yaml": mk(3)}, []string{"-i", "d/b*.yaml", "-i", "d/a*.yaml"}, 3)
			})
			w.Case("order/lexical-vs-directory", func(c *C) {
				// directory order: x/a, x/a-b ; lexical order of the paths: x/a-b/c.yaml < x/a/c.yaml
				expect(c, c.ID, map[string]string{"x/a/c.yaml": mk(1), "x/a-b/c.yaml": mk(2)}, []string{"-i", "x/*/c.yaml"}, 1)
			})
			w.Case("order/lexical-vs-directory-3", func(c *C) {
				expect(c, c.ID, map[string]string{"x/a/c.yaml": mk(1), "x/a-b/c.yaml": mk(2), "x/a.b/c.yaml": mk(3)}, []string{"-i", "x/*/c.yaml"}, 1)
			})
			w.Case("order/uncleaned-pattern", func(c *C) {
				expect(c, c.ID, map[string]string{"d/a.yaml": mk(1), "d/b.yaml": mk(2)}, []string{"-i", "./d/../d/*.yaml"}, 2)
			})
			w.Case("order/uncleaned-explicit", func(c *C) {
				expect(c, c.ID, map[string]string{"d/a.yaml": mk(1), "d/b.yaml": mk(2)}, []string{"-i", "./d/b.yaml", "-i", "d//a.yaml"}, 1)
			})
			// (3b) several patterns, every file carrying appended attributes (calls, tags, decorators): each file is merged
			// exactly once, in pattern order
			w.Case("patterns/appended-attributes", func(c *C) {
				mkf := func(i int) *Cfg {
					return &Cfg{Services: []Service{{Name: "s", Calls: []Call{{Method: fmt.Sprintf("M%d", i), Args: []any{i}}}, Tags: []Tag{{Name: fmt.Sprintf("t%d", i)}}}},
						Decorators: []Decorator{{Tag: fmt.Sprintf("t%d", i), Decorator: fmt.Sprintf("pk.Dec%d", i%3+1), Args: []any{i}}}}
				}
				head := &Cfg{Meta: &Meta{Pkg: P("gen"), Imports: []KV{{"pk", "fx/pk"}}}, Services: []Service{{Name: "s", Constructor: P("pk.New")}}}
				one := &Cfg{Meta: head.Meta, Services: []Service{{Name: "s", Constructor: P("pk.New")}}}
				for i := 1; i <= 4; i++ {
					f := mkf(i)
					one.Services[0].Calls = append(one.Services[0].Calls, f.Services[0].Calls...)
					one.Services[0].Tags = append(one.Services[0].Tags, f.Services[0].Tags...)
					one.Decorators = append(one.Decorators, f.Decorators...)
				}
				want := w.Build([]File{{"c.yaml", one.YAML()}})
				forms := [][]string{
					{"-i", "d/0.yaml", "-i", "d/1.yaml", "-i", "d/2.yaml", "-i", "d/3.yaml", "-i", "d/4.yaml"},
					{"-i", "d/0.yaml", "-i", "d/[12].yaml", "-i", "d/[34].yaml"},
					{"-i", "d/[01].yaml", "-i", "d/2.yaml", "-i", "d/3.yaml", "-i", "d/4.yaml"},
					{"-i", "d/?.yaml"},
					{"-i", "d/0.yaml", "-i", "d/1.yaml", "-i", "d/[2-4].yaml"},
				}
				for fi, args := range forms {
					w.FreshDir()
					os.MkdirAll("d", 0o755)
					os.WriteFile("d/0.yaml", []byte(head.YAML()), 0o644)
					files := map[string]string{"d/0.yaml": head.YAML()}
					for i := 1; i <= 4; i++ {
						os.WriteFile(fmt.Sprintf("d/%d.yaml", i), []byte(mkf(i).YAML()), 0o644)
						files[fmt.Sprintf("d/%d.yaml", i)] = mkf(i).YAML()
					}
					r := Tool(DefaultVersion, DefaultBuildInfo, append(append([]string{}, args...), "-o", "out.go")...)
					got, _ := os.ReadFile("out.go")
					c.Distinct("all", fmt.Sprint(c.ID, fi))
					c.Distinct("nontrivial", fmt.Sprint(c.ID, fi))
					c.Count("evaluations_extra")
					if !want.OK() || !r.OK() || string(got) != want.Output {
						c.Violation("patterns-appended-attributes", fmt.Sprintf("patterns %v: calls / tags / decorators of the files must be appended once each, in pattern order; %s\n%s", args, firstDiff(want.Output, string(got)), strings.Join(ErrorLines(r.Out), "\n")), files, map[string]any{"args": append(append([]string{}, args...), "-o", "out.go")})
					}
				}
			})
			// (4) algebra on the real input.Merge
			ins := c09inputs()
			singles := 0
			for _, x := range ins {
				_ = x
				singles++
			}
			limit := len(ins)
			if w.Env.Quick() {
				limit = 33 // the empty input and the single-attribute elements come first in every (a, va) group; see below
			}
			var pool []input.Input
			if w.Env.Quick() {
				// quick: elements with at most one attribute (empty + 32 singles) for triples; all elements for identity
				pool = append(pool, ins[0])
				for _, x := range ins[1:] {
					if countAttrs(x) == 1 {
						pool = append(pool, x)
					}
				}
			} else {
				pool = ins
				if len(pool) > 160 {
					// thorough: all triples over the 33 small elements plus 127 two-attribute elements
					pool = pool[:160]
				}
			}
			_ = limit
			eq := func(a, b input.Input) bool { return looseEqual(reflect.ValueOf(a), reflect.ValueOf(b)) }
			for ai := range pool {
				ai := ai
				w.Case(fmt.Sprintf("algebra/assoc/%d", ai), func(c *C) {
					a := pool[ai]
					for bi, b := range pool {
						for ci, cc := range pool {
							l := input.Merge(input.Merge(a, b), cc)
							r := input.Merge(a, input.Merge(b, cc))
							c.Count("assoc_triples")
							if !eq(l, r) {
								c.Violation("merge-not-associative", fmt.Sprintf("(a+b)+c != a+(b+c) for elements %d, %d, %d of the universe:\n a=%+v\n b=%+v\n c=%+v", ai, bi, ci, a, b, cc), nil, nil)
								return
							}
						}
					}
					c.Distinct("nontrivial", c.ID)
				})
			}
			// the empty file is the identity at file level too: every spelling of "no content" at every position
			// ... and so is a file that names sections, services or attributes and gives them nothing (null, an empty list, an
			// empty mapping): scalars keep their earlier value, lists and mappings have nothing appended or united
			neutral := []string{"", "\n", "  \n\n", "# only a comment\n", "---\n", "{}\n", "~\n", "--- # nothing\n...\n", "\n# comment\n\n"}
			for _, sec := range []string{"version", "meta", "parameters", "services", "decorators"} {
				neutral = append(neutral, sec+":\n", sec+": ~\n")
				switch sec {
				case "decorators":
					neutral = append(neutral, sec+": []\n")
				case "version":
				default:
					neutral = append(neutral, sec+": {}\n")
				}
			}
			for _, k := range []string{"pkg", "container_type", "container_constructor", "default_must_getter", "imports", "functions"} {
				neutral = append(neutral, "meta: {"+k+": ~}\n")
				if k == "imports" || k == "functions" {
					neutral = append(neutral, "meta: {"+k+": {}}\n")
				}
			}
			neutral = append(neutral, "services: {s1: ~}\n", "services: {s1: {}}\n", "services:\n  s1:\n", "parameters: {}\nservices: {}\ndecorators: []\nmeta: {imports: {}, functions: {}}\n")
			for _, k := range []string{"getter", "must_getter", "type", "value", "constructor", "arguments", "calls", "fields", "tags", "scope", "todo"} {
				neutral = append(neutral, "services: {s1: {"+k+": ~}}\n")
				switch k {
				case "arguments", "calls", "tags":
					neutral = append(neutral, "services: {s1: {"+k+": []}}\n")
				case "fields":
					neutral = append(neutral, "services: {s1: {"+k+": {}}}\n")
				}
			}
			for ei, empty := range neutral {
				for pos := 0; pos < 4; pos++ {
					ei, empty, pos := ei, empty, pos
					id := fmt.Sprintf("identity-file/%d/position%d", ei, pos)
					w.Case(id, func(c *C) {
						a := c09overrideContext()
						b := &Cfg{Params: []Param{{"later", 2}}, Services: []Service{{Name: "s1", Calls: []Call{{Method: "Set1", Args: []any{"x"}}}}}}
						whole := c09overrideContext()
						whole.Params = append(whole.Params, Param{"later", 2})
						svcIn(whole, "s1").Calls = []Call{{Method: "Set1", Args: []any{"x"}}}
						want := w.Build([]File{{"c.yaml", whole.YAML()}})
						var files []File
						var patterns []string
						switch pos {
						case 0:
							files = []File{{"0.yaml", empty}, {"1.yaml", a.YAML()}, {"2.yaml", b.YAML()}}
						case 1:
							files = []File{{"0.yaml", a.YAML()}, {"1.yaml", empty}, {"2.yaml", b.YAML()}}
						case 2:
							files = []File{{"0.yaml", a.YAML()}, {"1.yaml", b.YAML()}, {"2.yaml", empty}}
						case 3:
							files = []File{{"0.yaml", empty}, {"1.yaml", a.YAML()}, {"2.yaml", empty}, {"3.yaml", b.YAML()}, {"4.yaml", empty}}
							patterns = []string{"*.yaml"}
						}
						var got BuildResult
						if patterns != nil {
							got = w.BuildPatterns(files, patterns)
						} else {
							got = w.Build(files)
						}
						c.Distinct("all", id)
						c.Distinct("nontrivial", id)
						if !want.OK() || !got.OK() || want.Output != got.Output {
							c.Violation("empty-file-not-identity", fmt.Sprintf("a file holding %q (no content) at position %d changes the result: accepted=%v\n%s", empty, pos, got.OK(), strings.Join(ErrorLines(got.Out), "\n")), FilesMap(files), nil)
						}
					})
				}
			}
			// the number of files is no input either: one configuration over 1 .. 19 files whose order matters (the same
			// parameter set by every file, calls, tags and decorators appended by every file)
			for n := 1; n <= 19; n++ {
				n := n
				w.Case(fmt.Sprintf("many-files/%d", n), func(c *C) {
					whole := &Cfg{Meta: &Meta{Pkg: P("gen"), Imports: []KV{{"pk", "fx/pk"}}}, Services: []Service{{Name: "s", Constructor: P("pk.New")}}}
					var files []File
					for k := 0; k < n; k++ {
						part := &Cfg{Params: []Param{{"last", k}, {fmt.Sprintf("own%02d", k), k}}, Services: []Service{{Name: "s", Calls: []Call{{Method: fmt.Sprintf("Step%d", k), Args: []any{k}}}, Tags: []Tag{{Name: fmt.Sprintf("t%02d", k), Priority: P(k)}}, Fields: []KV{{"F", k}}}},
							Decorators: []Decorator{{Tag: "t00", Decorator: "pk.Dec1", Args: []any{k}}}}
						if k == 0 {
							part.Meta = whole.Meta
							part.Services[0].Constructor = P("pk.New")
						}
						files = append(files, File{fmt.Sprintf("part-%02d.yaml", k), part.YAML()})
						whole.Params = append(whole.Params, Param{fmt.Sprintf("own%02d", k), k})
						ws := &whole.Services[0]
						ws.Calls = append(ws.Calls, part.Services[0].Calls...)
						ws.Tags = append(ws.Tags, part.Services[0].Tags...)
						ws.Fields = []KV{{"F", k}}
						whole.Decorators = append(whole.Decorators, part.Decorators...)
					}
					whole.Params = append(whole.Params, Param{"last", n - 1})
					want := w.Build([]File{{"c.yaml", whole.YAML()}})
					c.Distinct("all", c.ID)
					c.Distinct("nontrivial", c.ID)
					for gi, got := range []BuildResult{w.Build(files), w.BuildPatterns(files, []string{"part-*.yaml"})} {
						if !want.OK() || !got.OK() || want.Output != got.Output {
							c.Violation("many-files-differ", fmt.Sprintf("%d files (named %s): accepted %v / %v; %s\n%s", n, []string{"one by one", "by one pattern"}[gi], want.OK(), got.OK(), FirstDiff(want.Output, got.Output), strings.Join(ErrorLines(got.Out), "\n")), FilesMap(files), nil)
							return
						}
					}
				})
			}
			// ... nor is the spelling of a file's name: commas, quotes, blanks, equals signs and the like in file and directory
			// names (each -i value is one pattern, whatever it contains), the same three parts under each naming
			for ni, names := range [][]string{{"a,b.yaml", "c,d.yaml", "e.yaml"}, {"cfg,v2/a.yaml", "cfg,v2/b.yaml", "cfg,v2/c,d.yaml"}, {`q"uote.yaml`, `r"s"t.yaml`, `u'v.yaml`}, {"with blank.yaml", " leading.yaml", "trailing .yaml"},
				{"k=v.yaml", "x;y.yaml", "p#q.yaml"}, {"ü.yaml", "日本.yaml", "z\u0301.yaml"}, {"a,\"b\", c.yaml", "d,,e.yaml", ",.yaml"}, {"1,2/3,4/a.yaml", "1,2/b.yaml", "c.yaml"}} {
				ni, names := ni, names
				w.Case(fmt.Sprintf("file-name-spellings/%d", ni), func(c *C) {
					parts := []*Cfg{
						{Meta: &Meta{Pkg: P("gen"), Imports: []KV{{"pk", "fx/pk"}}}, Params: []Param{{"p", 1}}, Services: []Service{{Name: "s", Constructor: P("pk.New"), Args: []any{"first"}, Tags: []Tag{{Name: "t0"}}}}},
						{Params: []Param{{"p", 2}, {"q", "%p%"}}, Services: []Service{{Name: "s", Calls: []Call{{Method: "Set1", Args: []any{"%q%"}}}, Tags: []Tag{{Name: "t1"}}}}},
						{Params: []Param{{"p", 3}}, Services: []Service{{Name: "s", Args: []any{"third"}, Fields: []KV{{"F1", "%p%"}}}}, Decorators: []Decorator{{Tag: "t1", Decorator: "pk.Dec1"}}},
					}
					var plain, odd []File
					for i, pc := range parts {
						plain = append(plain, File{fmt.Sprintf("%d.yaml", i), pc.YAML()})
						odd = append(odd, File{names[i], pc.YAML()})
					}
					want, got := w.Build(plain), w.Build(odd)
					c.Distinct("all", c.ID)
					c.Distinct("nontrivial", c.ID)
					if !want.OK() || !got.OK() || want.Output != got.Output {
						c.Violation("file-name-spelling-changes-the-result", fmt.Sprintf("files named %q: accepted %v / %v; %s\n%s", names, want.OK(), got.OK(), FirstDiff(want.Output, got.Output), strings.Join(ErrorLines(got.Out), "\n")), FilesMap(odd), nil)
					}
				})
			}
			// how a file is reached is not an input of the merge either: the same split with every file behind a symbolic link
			// (relative, absolute, chained), a hard link, a symlinked directory, ./ and absolute paths, a pattern over links
			for _, n := range []int{1, 2, 3, 5} {
				for _, mode := range ReachModes {
					n, mode := n, mode
					w.Case(fmt.Sprintf("files-reached/%s/%d", mode, n), func(c *C) {
						whole := &Cfg{Meta: &Meta{Pkg: P("gen"), Imports: []KV{{"pk", "fx/pk"}}}, Services: []Service{{Name: "s", Constructor: P("pk.New")}}}
						var files []File
						for k := 0; k < n; k++ {
							part := &Cfg{Params: []Param{{"last", k}, {fmt.Sprintf("own%02d", k), k}}, Services: []Service{{Name: "s", Calls: []Call{{Method: fmt.Sprintf("Step%d", k), Args: []any{k}}}, Tags: []Tag{{Name: fmt.Sprintf("t%02d", k), Priority: P(k)}}, Fields: []KV{{fmt.Sprintf("F%d", k), k}}}},
								Decorators: []Decorator{{Tag: "t00", Decorator: "pk.Dec1", Args: []any{k}}}}
							if k == 0 {
								part.Meta = whole.Meta
								part.Services[0].Constructor = P("pk.New")
							}
							files = append(files, File{fmt.Sprintf("part-%02d.yaml", k), part.YAML()})
							whole.Params = append(whole.Params, Param{fmt.Sprintf("own%02d", k), k})
							ws := &whole.Services[0]
							ws.Calls = append(ws.Calls, part.Services[0].Calls...)
							ws.Tags = append(ws.Tags, part.Services[0].Tags...)
							ws.Fields = append(ws.Fields, part.Services[0].Fields...)
							whole.Decorators = append(whole.Decorators, part.Decorators...)
						}
						whole.Params = append(whole.Params, Param{"last", n - 1})
						want := w.Build([]File{{"c.yaml", whole.YAML()}})
						got := w.BuildReached(files, mode)
						c.Distinct("all", c.ID)
						c.Distinct("nontrivial", c.ID)
						if !want.OK() || !got.OK() || want.Output != got.Output {
							c.Violation("files-reached-differ:"+mode, fmt.Sprintf("%d files reached as %s: accepted %v / %v; %s\n%s", n, mode, want.OK(), got.OK(), FirstDiff(want.Output, got.Output), strings.Join(ErrorLines(got.Out), "\n")), FilesMap(files), map[string]any{"mode": mode})
						}
					})
				}
			}
			// size is not an input of the merge: one file of 1.5 MiB (and of exactly 1 MiB + a few bytes) against the same
			// parameters in several files
			for si, total := range []int{1<<20 + 64, 3 << 19, 1 << 16} {
				si, total := si, total
				w.Case(fmt.Sprintf("large-file/%d", si), func(c *C) {
					var ps []Param
					size := 0
					for i := 0; size < total; i++ {
						v := strings.Repeat("v", 180)
						ps = append(ps, Param{fmt.Sprintf("p%06d", i), v})
						size += 200
					}
					ps = append(ps, Param{"zzLast", "%p000000%-%p000001%"})
					one := &Cfg{Meta: &Meta{Pkg: P("gen")}, Params: ps}
					want := w.Build([]File{{"c.yaml", one.YAML()}})
					third := len(ps) / 3
					parts := []File{{"1.yaml", (&Cfg{Meta: &Meta{Pkg: P("gen")}, Params: ps[:third]}).YAML()}, {"2.yaml", (&Cfg{Params: ps[third : 2*third]}).YAML()}, {"3.yaml", (&Cfg{Params: ps[2*third:]}).YAML()}}
					got := w.Build(parts)
					c.Distinct("all", c.ID)
					c.Distinct("nontrivial", c.ID)
					if !want.OK() || !got.OK() || want.Output != got.Output {
						c.Violation("large-file-differs", fmt.Sprintf("%d parameters (%d bytes of YAML) in one file and in three files: accepted %v / %v, outputs %s\n%s", len(ps), len(one.YAML()), want.OK(), got.OK(), FirstDiff(want.Output, got.Output), strings.Join(ErrorLines(want.Out), "\n")), nil, nil)
					}
				})
			}
			w.Case("algebra/identity", func(c *C) {
				for i, a := range ins {
					c.Count("identity_elements")
					if !eq(input.Merge(a, input.Input{}), a) || !eq(input.Merge(input.Input{}, a), a) {
						c.Violation("merge-identity", fmt.Sprintf("merging element %d with the empty input changes it: %+v", i, a), nil, nil)
						return
					}
				}
				c.Distinct("nontrivial", c.ID)
			})
		},
	})
}

func countAttrs(i input.Input) int {
	n := 0
	if i.Version != nil {
		n++
	}
	if i.Meta.Pkg != nil {
		n++
	}
	if i.Meta.DefaultMustGetter != nil {
		n++
	}
	if i.Meta.Imports != nil {
		n++
	}
	if i.Meta.Functions != nil {
		n++
	}
	if i.Params != nil {
		n++
	}
	if i.Decorators != nil {
		n++
	}
	for _, s := range i.Services {
		if s.Getter != nil {
			n++
		}
		if s.Constructor != nil {
			n++
		}
		if s.Args != nil {
			n++
		}
		if s.Calls != nil {
			n++
		}
		if s.Fields != nil {
			n++
		}
		if s.Tags != nil {
			n++
		}
		if s.Scope != nil {
			n++
		}
		if s.Todo != nil {
			n++
		}
		if s.Value != nil {
			n++
		}
	}
	return n
}
