package checks

import (
	"fmt"
	"strings"

	. "github.com/gontainer/gontainer/xverif/core"
)

// Shared helpers of the probe-based (behavioural) checks.

func op(kind, name string) ProbeOp { return ProbeOp{Op: kind, Name: name} }
func opTag(kind, tag string) ProbeOp {
	return ProbeOp{Op: kind, Tag: tag}
}
func opCtx(kind, ctx, name string) ProbeOp { return ProbeOp{Op: kind, Ctx: ctx, Name: name} }

// stdMeta: aliases and functions every behavioural configuration may use.
func stdMeta() *Meta {
	return &Meta{
		Pkg: P("gen"),
		Imports: []KV{
			{"pk", "fx/pk"},
			{"pk2", "fx/pk2"},
		},
		Functions: []KV{
			{"fnStr", "pk.FnStr"},
			{"fnInt", "pk.FnInt"},
			{"fnE", `"fx/pk".FnE`},
			{"fnNil", "pk2.FnNil"},
			{"fnTyped", "pk.FnTyped"},
		},
	}
}

// behaviourOracle compares every session of every outcome with the reference model and files
// violations. keyOf maps a case id to the known-finding key class.
func behaviourOracle(c *C, outs []*BOutcome, runErr error) {
	for oi, o := range outs {
		bc := o.Case
		fm := FilesMap(bc.Files)
		c.Count("configs")
		if o.Build.Panic != "" {
			c.Violation("panic:"+bc.ID, "tool panicked:\n"+o.Build.Panic, fm, nil)
			continue
		}
		if o.Build.Exit != 0 {
			c.Violation("rejected:"+bc.ID, "configuration valid by construction was rejected:\n"+o.Build.Out, fm, nil)
			continue
		}
		if o.NoBuild != "" {
			c.Violation("nobuild:"+compilerKey(o.NoBuild), "accepted configuration yields Go code that does not compile:\n"+o.NoBuild, fm, nil)
			continue
		}
		if o.Sessions == nil {
			continue // probe failed as a whole; reported below
		}
		c.Count("executed_configs")
		for si, s := range bc.Sessions {
			if si >= len(o.Sessions) || o.Sessions[si] == nil {
				continue
			}
			res := o.Sessions[si]
			if len(res) > 0 && res[0].Panic != "" {
				c.Violation("ctor-panic:"+bc.ID, "container constructor panicked: "+res[0].Panic, fm, nil)
				continue
			}
			m := NewModel(bc.Cfg, fmt.Sprintf("./g%d", oi), s.Env)
			exp := ModelSession(m, s.Ops)
			bad, msg, compared, unspec := CompareSession(exp, res)
			c.Add("ops_compared", int64(compared))
			if unspec {
				c.Count("sessions_with_unspec")
			}
			if bad >= 0 {
				c.Violation("mismatch:"+bc.ID, fmt.Sprintf("session %d, op %d (%s): %s", si, bad, describeOp(s.Ops[bad]), msg), fm, map[string]any{"ops": s.Ops})
			}
			for _, r := range res {
				if strings.Contains(r.Err, "does not exist") && !strings.Contains(r.Err, "environment variable") {
					c.Violation("runtime-does-not-exist:"+bc.ID, "accepted container fails at run time with: "+r.Err, fm, nil)
				}
			}
		}
	}
	if runErr != nil {
		if pe, ok := runErr.(*ProbeError); ok && pe.Stage == "hang" {
			c.Violation("probe-hang", "probe did not terminate: "+pe.Output, nil, nil)
		} else {
			c.Violation("probe-failed", "probe could not be built or run: "+runErr.Error(), nil, nil)
		}
	}
}

func describeOp(o ProbeOp) string {
	s := o.Op
	if o.Ctx != "" {
		s += "[" + o.Ctx + "]"
	}
	if o.Name != "" {
		s += " " + o.Name
	}
	if o.Tag != "" {
		s += " tag=" + o.Tag
	}
	return s
}

// runBatches splits cases into probe batches, each batch being one sharded case.
func runBatches(w *W, prefix string, cases []*BCase, size int, oracle func(c *C, outs []*BOutcome, err error)) {
	for i := 0; i < len(cases); i += size {
		j := i + size
		if j > len(cases) {
			j = len(cases)
		}
		batch := cases[i:j]
		w.Case(fmt.Sprintf("%s/batch%d-%d", prefix, i, j-1), func(c *C) {
			c.Add("evaluations_extra", int64(len(batch)))
			for _, bc := range batch {
				c.Distinct("all", bc.ID)
				c.Distinct("nontrivial", bc.ID)
			}
			outs, err := w.RunBehaviour(batch)
			oracle(c, outs, err)
			if i == 0 && len(batch) > 0 {
				c.Sample(map[string]any{"case": batch[0].ID, "yaml": batch[0].Cfg.YAML(), "ops": batch[0].Sessions[0].Ops})
			}
		})
	}
}

// compilerKey normalises the first compiler message (position and generated aliases stripped) so that one
// defect has one key whatever configuration exposes it.
func compilerKey(out string) string {
	l := strings.SplitN(strings.TrimSpace(out), "\n", 2)[0]
	if i := strings.Index(l, ": "); i >= 0 {
		l = l[i+2:]
	}
	var b strings.Builder
	for i := 0; i < len(l); i++ {
		// aliases look like i3_pk
		if l[i] == 'i' && i+1 < len(l) && (l[i+1] >= '0' && l[i+1] <= '9' || l[i+1] >= 'a' && l[i+1] <= 'f') && (i == 0 || !isIdentByte(l[i-1])) {
			j := i + 1
			for j < len(l) && (l[j] >= '0' && l[j] <= '9' || l[j] >= 'a' && l[j] <= 'f') {
				j++
			}
			if j < len(l) && l[j] == '_' {
				b.WriteString("iN")
				i = j - 1
				continue
			}
		}
		b.WriteByte(l[i])
	}
	return strings.ReplaceAll(b.String(), " ", "_")
}

func isIdentByte(c byte) bool {
	return c == '_' || c >= '0' && c <= '9' || c >= 'a' && c <= 'z' || c >= 'A' && c <= 'Z'
}

// manyImportsCfgs: sixteen services over sixteen distinct packages; the role of the k-th package rotates with shift:
// constructor only (the package is used by the normal output and by nothing in the stub), constructor + type + getter,
// type only + getter, value only. With the template's own imports this passes import number 0x10.
func manyImportsCfgs() []*Cfg {
	var out []*Cfg
	for _, aliases := range []bool{false, true} {
		for shift := 0; shift < 4; shift++ {
			cfg := &Cfg{Meta: &Meta{Pkg: P("gen")}}
			pkgs := append([][2]string{{"fx/pk", "pk"}, {"fx/pk2", "pk2"}}, FxManyPackages...)
			for k, p := range pkgs {
				ref := `"` + p[0] + `"`
				if aliases {
					ref = "al" + p[1]
					cfg.Meta.Imports = append(cfg.Meta.Imports, KV{"al" + p[1], p[0]})
				}
				s := Service{Name: fmt.Sprintf("s%02d", k)}
				switch (k + shift) % 4 {
				case 0:
					s.Constructor = P(ref + ".New")
				case 1:
					s.Constructor = P(ref + ".New1")
					s.Type = P("*" + ref + ".Obj")
					s.Getter = P(fmt.Sprintf("GetS%02d", k))
				case 2:
					s.Type = P(ref + ".Val")
					s.Getter = P(fmt.Sprintf("GetS%02d", k))
				case 3:
					s.Value = P(ref + ".Var")
				}
				cfg.Services = append(cfg.Services, s)
			}
			cfg.Params = []Param{{"p", `%env("MANY")%`}}
			out = append(out, cfg)
		}
	}
	return out
}
