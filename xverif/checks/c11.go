package checks

import (
	"fmt"
	"os"
	"path/filepath"
	"sort"
	"strconv"
	"strings"
	"time"

	. "github.com/gontainer/gontainer/xverif/core"
)

// C11 — input grammar: accept exactly the documented language, report every violation.
// All strings up to length L over a 15-character alphabet (incl. a non-ASCII letter and a line feed) in each of 28 grammar positions, token words
// in the structured positions, structural truth tables, k-subsets of simultaneous defects, todo exemption.

type c11pos struct {
	id    string
	embed func(x string) (*Cfg, []string) // configuration + extra flags
	ok    func(x string) bool
	names []string // every one of these must occur in some diagnostic when rejected at the validation/compile stage
	stage string   // decode | validate | compile
}

func c11base() *Cfg {
	// a todo service sorts before everything else: its exemption from the attribute checks is its own
	return &Cfg{Meta: &Meta{Pkg: P("gen"), Imports: []KV{{"pk", "fx/pk"}}}, Services: []Service{{Name: "helper", Constructor: P("pk.New")},
		{Name: "AaTodoFirst", Todo: P(true), Getter: P("not a getter")}}}
}

var c11reserved = map[string]bool{}

func okGetter(x string) bool {
	return IsGoToken(x) && !strings.HasPrefix(x, "Must") && !strings.HasSuffix(x, "InContext") && !c11reserved[x]
}

func c11positions() []c11pos {
	svc := func(f func(s *Service, x string)) func(x string) (*Cfg, []string) {
		return func(x string) (*Cfg, []string) {
			c := c11base()
			s := Service{Name: "sut", Constructor: P("pk.New")}
			f(&s, x)
			c.Services = append(c.Services, s)
			return c, nil
		}
	}
	meta := func(f func(m *Meta, x string)) func(x string) (*Cfg, []string) {
		return func(x string) (*Cfg, []string) {
			c := c11base()
			f(c.Meta, x)
			return c, nil
		}
	}
	okImport := func(x string) bool { _, ok := ParseImport(x); return ok }
	okFunc := func(x string) bool { _, ok := ParseGoFunc(x); return ok }
	okType := func(x string) bool { _, ok := ParseType(x); return ok }
	okValue := func(x string) bool { _, ok := ParseValue(x); return ok }
	return []c11pos{
		{"param-name", func(x string) (*Cfg, []string) { c := c11base(); c.Params = []Param{{x, 1}}; return c, nil }, IsYamlToken, []string{"parameters"}, "validate"},
		{"service-name", func(x string) (*Cfg, []string) {
			c := c11base()
			c.Services = append(c.Services, Service{Name: x, Constructor: P("pk.New")})
			return c, nil
		}, func(x string) bool { return IsYamlToken(x) && x != "helper" || x == "helper" }, []string{"services", "invalid name"}, "validate"},
		{"tag-string", svc(func(s *Service, x string) { s.Tags = []Tag{{Name: x}} }), IsYamlToken, []string{`"sut"`, "tags"}, "validate"},
		{"tag-map", svc(func(s *Service, x string) { s.Tags = []Tag{{Name: x, Priority: P(3)}} }), IsYamlToken, []string{`"sut"`, "tags"}, "validate"},
		{"alias", meta(func(m *Meta, x string) { m.Imports = append(m.Imports, KV{x, "fx/pk2"}) }), func(x string) bool { return IsYamlToken(x) && x != "pk" || x == "pk" }, []string{"meta", "imports"}, "validate"},
		{"import-path", meta(func(m *Meta, x string) { m.Imports = append(m.Imports, KV{"al", x}) }), okImport, []string{"meta", "imports"}, "validate"},
		{"pkg", meta(func(m *Meta, x string) { m.Pkg = P(x) }), IsGoToken, []string{"meta", "pkg"}, "validate"},
		{"container-type", meta(func(m *Meta, x string) { m.ContainerType = P(x) }), IsGoToken, []string{"meta", "container_type"}, "validate"},
		{"container-constructor", meta(func(m *Meta, x string) { m.ContainerConstructor = P(x) }), IsGoToken, []string{"meta", "container_constructor"}, "validate"},
		{"function-name", meta(func(m *Meta, x string) { m.Functions = append(m.Functions, KV{x, "pk.FnStr"}) }), IsGoToken, []string{"meta", "functions"}, "validate"},
		{"go-function", meta(func(m *Meta, x string) { m.Functions = append(m.Functions, KV{"myfn", x}) }), okFunc, []string{"meta", "functions"}, "validate"},
		// the built-in function names may be re-bound (docs/META.md); what they are bound to obeys the same grammar
		{"go-function-of-env", meta(func(m *Meta, x string) { m.Functions = append(m.Functions, KV{"env", x}) }), okFunc, []string{"meta", "functions"}, "validate"},
		{"go-function-of-envInt", meta(func(m *Meta, x string) { m.Functions = append(m.Functions, KV{"envInt", x}) }), okFunc, []string{"meta", "functions"}, "validate"},
		{"go-function-of-todo", meta(func(m *Meta, x string) { m.Functions = append(m.Functions, KV{"todo", x}) }), okFunc, []string{"meta", "functions"}, "validate"},
		{"getter", svc(func(s *Service, x string) { s.Getter = P(x) }), okGetter, []string{`"sut"`, "getter"}, "validate"},
		{"type", svc(func(s *Service, x string) { s.Type = P(x) }), okType, []string{`"sut"`, "type"}, "validate"},
		{"value", svc(func(s *Service, x string) { s.Constructor = nil; s.Value = P(x) }), okValue, []string{`"sut"`, "value"}, "validate"},
		{"constructor", svc(func(s *Service, x string) { s.Constructor = P(x) }), okFunc, []string{`"sut"`, "constructor"}, "validate"},
		{"call-method", svc(func(s *Service, x string) { s.Calls = []Call{{Method: x, Args: []any{1}}} }), IsGoToken, []string{`"sut"`, "calls", "0"}, "validate"},
		{"field-name", svc(func(s *Service, x string) { s.Fields = []KV{{x, 1}} }), IsGoToken, []string{`"sut"`, "fields"}, "validate"},
		{"decorator-tag", func(x string) (*Cfg, []string) {
			c := c11base()
			c.Decorators = []Decorator{{Tag: x, Decorator: "pk.Dec1"}}
			return c, nil
		}, func(x string) bool { return x == "*" || IsYamlToken(x) }, []string{"decorators", "tag"}, "validate"},
		{"decorator-method", func(x string) (*Cfg, []string) {
			c := c11base()
			c.Decorators = []Decorator{{Tag: "tg", Decorator: x}}
			return c, nil
		}, okFunc, []string{"decorators", "method"}, "validate"},
		{"arg-service", func(x string) (*Cfg, []string) {
			c := c11base()
			c.Services = append(c.Services, Service{Name: "sut", Constructor: P("pk.New"), Args: []any{1, "@" + x}})
			return c, []string{"--ignore-missing-services"}
		}, IsYamlToken, []string{`"sut"`, "args", "1"}, "compile"},
		{"arg-value", svc(func(s *Service, x string) { s.Args = []any{"!value " + x} }), func(x string) bool { k, _, wf := ArgKind("!value " + x); return k == "value" && wf }, []string{`"sut"`, "args", "0"}, "compile"},
		{"arg-tagged", svc(func(s *Service, x string) { s.Fields = []KV{{"F1", "!tagged " + x}} }), func(x string) bool { k, _, wf := ArgKind("!tagged " + x); return k == "tagged" && wf }, []string{`"sut"`, "fields", "F1"}, "compile"},
		{"arg-value-after-keyword", svc(func(s *Service, x string) { s.Args = []any{"!value" + x} }), func(x string) bool { k, _, wf := ArgKind("!value" + x); return k != "value" || wf }, []string{`"sut"`, "args", "0"}, "compile"},
		{"arg-tagged-after-keyword", svc(func(s *Service, x string) { s.Calls = []Call{{Method: "Set1", Args: []any{"!tagged" + x}}} }), func(x string) bool { k, _, wf := ArgKind("!tagged" + x); return k != "tagged" || wf }, []string{`"sut"`, "calls"}, "compile"},
		{"scope", svc(func(s *Service, x string) { s.Scope = P(x) }), func(x string) bool { return x == "shared" || x == "contextual" || x == "non_shared" }, nil, "decode"},
	}
}

var c11sigma = []string{"a", "Z", "1", ".", "-", "_", "/", `"`, "*", "&", "{", "}", " ", "é", "\n"}
var c11tok = []string{"&", "*", `"`, "a", "B1", ".", "/", "{}"}

// words enumerates every string over sigma of length 0..max, shorter strings first (so that a time cap leaves a
// completed length bound behind).
func words(sigma []string, max int, f func(string)) {
	var rec func(cur string, left int)
	rec = func(cur string, left int) {
		if left == 0 {
			f(cur)
			return
		}
		for _, s := range sigma {
			rec(cur+s, left-1)
		}
	}
	for n := 0; n <= max; n++ {
		rec("", n)
	}
}

// c11defects: independent same-stage violations in distinct keys (validation stage).
type c11defect struct {
	id    string
	apply func(c *Cfg)
	names []string
}

// compile steps run in sequence and the first failing one masks the later ones
var c11step = map[string]int{"unbalanced": 1, "unknown-fn": 1, "bad-token": 1, "arg-service": 2, "arg-value": 2, "arg-tagged": 2, "must-without-getter": 2, "decorator-arg": 3}

func c11defects() []c11defect {
	addSvc := func(c *Cfg, s Service) { c.Services = append(c.Services, s) }
	return []c11defect{
		{"param-name", func(c *Cfg) { c.Params = append(c.Params, Param{"1p", 1}) }, []string{`"1p"`}},
		{"param-kind", func(c *Cfg) { c.Params = append(c.Params, Param{"plist", Raw("[1, 2]")}) }, []string{`"plist"`}},
		{"service-name", func(c *Cfg) { addSvc(c, Service{Name: "bad name", Constructor: P("pk.New")}) }, []string{`"bad name"`}},
		{"getter", func(c *Cfg) { addSvc(c, Service{Name: "dGetter", Constructor: P("pk.New"), Getter: P("1x")}) }, []string{`"dGetter"`, "getter"}},
		{"getter-must", func(c *Cfg) { addSvc(c, Service{Name: "dMust", Constructor: P("pk.New"), Getter: P("MustX")}) }, []string{`"dMust"`, "Must"}},
		{"getter-ctx", func(c *Cfg) { addSvc(c, Service{Name: "dCtx", Constructor: P("pk.New"), Getter: P("XInContext")}) }, []string{`"dCtx"`, "InContext"}},
		{"getter-reserved", func(c *Cfg) { addSvc(c, Service{Name: "dRes", Constructor: P("pk.New"), Getter: P("GetParam")}) }, []string{`"dRes"`, "reserved"}},
		{"type", func(c *Cfg) { addSvc(c, Service{Name: "dType", Constructor: P("pk.New"), Type: P("**T")}) }, []string{`"dType"`, "type"}},
		{"value", func(c *Cfg) { addSvc(c, Service{Name: "dValue", Value: P("&&x")}) }, []string{`"dValue"`, "value"}},
		{"constructor", func(c *Cfg) { addSvc(c, Service{Name: "dCtor", Constructor: P("pk.")}) }, []string{`"dCtor"`, "constructor"}},
		{"call", func(c *Cfg) {
			addSvc(c, Service{Name: "dCall", Constructor: P("pk.New"), Calls: []Call{{Method: "Ok", Args: []any{}}, {Method: "not ok", Args: []any{}}}})
		}, []string{`"dCall"`, "calls", "1"}},
		{"field", func(c *Cfg) { addSvc(c, Service{Name: "dField", Constructor: P("pk.New"), Fields: []KV{{"1f", 1}}}) }, []string{`"dField"`, "fields", `"1f"`}},
		{"tag", func(c *Cfg) {
			addSvc(c, Service{Name: "dTag", Constructor: P("pk.New"), Tags: []Tag{{Name: "ok"}, {Name: "not ok"}}})
		}, []string{`"dTag"`, "tags", "1"}},
		{"tag-duplicate", func(c *Cfg) {
			addSvc(c, Service{Name: "dDup", Constructor: P("pk.New"), Tags: []Tag{{Name: "tt"}, {Name: "tt", Priority: P(1)}}})
		}, []string{`"dDup"`, "duplicate", `"tt"`}},
		{"no-creation", func(c *Cfg) { addSvc(c, Service{Name: "dNone", Getter: P("GetNone")}) }, []string{`"dNone"`, "missing constructor"}},
		{"ctor-and-value", func(c *Cfg) { addSvc(c, Service{Name: "dBoth", Constructor: P("pk.New"), Value: P("pk.Var")}) }, []string{`"dBoth"`, "together"}},
		{"args-without-ctor", func(c *Cfg) { addSvc(c, Service{Name: "dArgs", Value: P("pk.Var"), Args: []any{1}}) }, []string{`"dArgs"`, "arguments"}},
		{"arg-kind", func(c *Cfg) {
			addSvc(c, Service{Name: "dKind", Constructor: P("pk.New"), Args: []any{1, Raw("{a: 1}")}})
		}, []string{`"dKind"`, "arg 1"}},
		{"alias", func(c *Cfg) { c.Meta.Imports = append(c.Meta.Imports, KV{"1al", "fx/pk"}) }, []string{"imports", `"1al"`}},
		{"import", func(c *Cfg) { c.Meta.Imports = append(c.Meta.Imports, KV{"al2", "/x"}) }, []string{"imports", `"/x"`}},
		{"pkg", func(c *Cfg) { c.Meta.Pkg = P("my-pkg") }, []string{"pkg", `"my-pkg"`}},
		{"function", func(c *Cfg) { c.Meta.Functions = append(c.Meta.Functions, KV{"f-n", "pk.Fn"}) }, []string{"functions", `"f-n"`}},
		{"decorator-tag", func(c *Cfg) { c.Decorators = append(c.Decorators, Decorator{Tag: "bad tag", Decorator: "pk.Dec1"}) }, []string{"decorators", "tag"}},
		{"decorator-method", func(c *Cfg) { c.Decorators = append(c.Decorators, Decorator{Tag: "tgd", Decorator: "pk.1Dec"}) }, []string{"decorators", "method"}},
		{"decorator-arg-kind", func(c *Cfg) {
			c.Decorators = append(c.Decorators, Decorator{Tag: "tge", Decorator: "pk.Dec2", Args: []any{Raw("[1]")}})
		}, []string{"decorators", "arguments"}},
	}
}

func c11compileDefects() []c11defect {
	addSvc := func(c *Cfg, s Service) { c.Services = append(c.Services, s) }
	return []c11defect{
		{"arg-service", func(c *Cfg) { addSvc(c, Service{Name: "cSvc", Constructor: P("pk.New"), Args: []any{"@"}}) }, []string{`"cSvc"`, "invalid service"}},
		{"arg-value", func(c *Cfg) {
			addSvc(c, Service{Name: "cVal", Constructor: P("pk.New"), Calls: []Call{{Method: "Set1", Args: []any{"!value 1x"}}}})
		}, []string{`"cVal"`, "invalid value"}},
		{"arg-tagged", func(c *Cfg) {
			addSvc(c, Service{Name: "cTag", Constructor: P("pk.New"), Fields: []KV{{"F1", "!tagged -x"}}})
		}, []string{`"cTag"`, "invalid tag"}},
		{"unbalanced", func(c *Cfg) { c.Params = append(c.Params, Param{"cUnb", "50%"}) }, []string{`"cUnb"`, "not closed"}},
		{"unknown-fn", func(c *Cfg) { c.Params = append(c.Params, Param{"cFn", "%nofn()%"}) }, []string{`"cFn"`, "nofn"}},
		{"bad-token", func(c *Cfg) { c.Params = append(c.Params, Param{"cTok", "%a b%"}) }, []string{`"cTok"`, "unexpected token"}},
		{"must-without-getter", func(c *Cfg) { addSvc(c, Service{Name: "cMust", Constructor: P("pk.New"), MustGetter: P(true)}) }, []string{`"cMust"`, "must-getter"}},
		{"decorator-arg", func(c *Cfg) {
			c.Decorators = append(c.Decorators, Decorator{Tag: "tgx", Decorator: "pk.Dec1", Args: []any{"@"}})
		}, []string{"pk.Dec1", "invalid service"}},
	}
}

func init() {
	Register(&Check{
		ID:    "C11",
		Level: "exploration",
		Rule: "(1) every string of length <= 3 (quick) / <= 4 (thorough) over {a, Z, 1, ., -, _, /, \", *, &, {, }, space, é, line feed} in each of 28 grammar positions (names, identifiers, import, type, value, constructor, function, getter, decorator, @ / !value / !tagged arguments, scope keyword): verdict = hand-written recogniser, rejection names the offending key; " +
			"(2) every token word of length <= 4 (quick) / <= 6 (thorough) over {&, *, \", a, B1, ., /, {}} in the 7 structured positions; (3) truth tables: creation rules (2^3 x 2), reserved getters, todo exemption, 17 primitive and 5 composite value kinds x 5 value positions; (4) every 1-, 2- (thorough: 3-) subset of 25 validation-stage defects and of 8 compile-stage defects: all reported in one run, each naming its key. non-trivial = string in the position's language boundary (rejected, or accepted with a non-identifier character); distinct = distinct (position, string)",
		Assumptions: []string{
			"the documented grammar is docs/*.md plus internal/pkg/regex/consts.go, re-implemented as hand-written scanners (no regexp)",
			"stage-wise reading: decode errors abort a file; validation errors are all reported; compile errors are all reported; later stages may be masked",
			"Go keywords / predeclared names as identifiers are not spellable over the alphabet and are unspecified",
		},
		BudgetQuick: 280 * time.Second, BudgetThorough: 1700 * time.Second,
		Prepare: PrepareUniverse,
		Run: func(w *W) {
			base, fields, err := w.TC(false).ContainerMethods()
			if err != nil {
				panic(err)
			}
			for m := range base {
				c11reserved[m] = true
			}
			for _, f := range fields {
				c11reserved[f] = true
			}
			c11reserved["Container"] = true
			L, T := 3, 4
			if !w.Env.Quick() {
				L, T = 4, 6
			}
			positions := c11positions()
			eval := func(c *C, p c11pos, x string) {
				cfg, flags := p.embed(x)
				files := []File{{"c.yaml", cfg.YAML()}}
				br := w.Build(files, flags...)
				fm := FilesMap(files)
				want := p.ok(x)
				if br.Panic != "" {
					c.Violation("panic:"+p.id, fmt.Sprintf("tool panicked on %s = %q:\n%s", p.id, x, br.Panic), fm, nil)
					return
				}
				if want {
					c.Count("in_language")
				} else {
					c.Count("not_in_language")
				}
				if want != (br.Exit == 0) {
					verb := "accepted"
					if br.Exit != 0 {
						verb = "rejected"
					}
					c.Violation(fmt.Sprintf("grammar:%s:%s", p.id, c11class(x, want)), fmt.Sprintf("%s = %q is %s; the documented grammar says in-language=%v\n%s", p.id, x, verb, want, strings.Join(ErrorLines(br.Out), "\n")), fm, nil)
					return
				}
				if !want && p.stage != "decode" {
					lines := ErrorLines(br.Out)
					found := false
					for _, l := range lines {
						all := true
						for _, n := range p.names {
							if !strings.Contains(l, n) {
								all = false
							}
						}
						if all {
							found = true
						}
					}
					if !found {
						c.Violation("diagnostic-does-not-name-key:"+p.id, fmt.Sprintf("%s = %q rejected, but no diagnostic contains all of %v:\n%s", p.id, x, p.names, strings.Join(lines, "\n")), fm, nil)
					}
				}
			}
			for _, p := range positions {
				p := p
				n := 0
				words(c11sigma, L, func(x string) {
					n++
					id := fmt.Sprintf("str/%s/%q", p.id, x)
					w.Case(id, func(c *C) {
						c.Distinct("all", id)
						if !p.ok(x) || strings.ContainsAny(x, `.-_/"*&{} `) {
							c.Distinct("nontrivial", id)
						}
						eval(c, p, x)
						if p.id == "value" && x == `&a.` {
							c.Sample(map[string]any{"position": p.id, "string": x, "in_language": p.ok(x)})
						}
					})
				})
			}
			for _, p := range positions {
				switch p.id {
				case "type", "value", "constructor", "go-function", "decorator-method", "import-path", "arg-value":
				default:
					continue
				}
				p := p
				words(c11tok, T, func(x string) {
					id := fmt.Sprintf("tok/%s/%q", p.id, x)
					w.Case(id, func(c *C) {
						c.Distinct("all", id)
						c.Distinct("nontrivial", id)
						eval(c, p, x)
					})
				})
			}
			// characters that some Unicode operation relates to the ASCII ones of the grammar (simple case folding: Kelvin sign,
			// long s, dotless / dotted i; width: fullwidth letters and digits; compatibility: micro sign, ordinal indicators,
			// superscripts; invisible ones) in front of, inside and behind every accepted word of length <= 2 - the grammar is
			// an ASCII one, none of these is in it
			relatives := []string{"\u212a", "\u017f", "\u0131", "\u0130", "\uff41", "\uff21", "\uff11", "\u00b5", "\u00aa", "\u00b2", "\u0660", "\u00a0", "\u200d", "\u200b", "\u2028", "\u0301", "\x7f", "\x00", "\t", "\r", "\u00df", "\u03a9"}
			for _, p := range positions {
				p := p
				words([]string{"a", "k", "S", "1"}, 2, func(base string) {
					if !p.ok(base) {
						return
					}
					for _, r := range relatives {
						r, _ := strconv.Unquote(`"` + r + `"`)
						seen := map[string]bool{}
						for i := 0; i <= len(base); i++ {
							x := base[:i] + r + base[i:]
							if seen[x] {
								continue
							}
							seen[x] = true
							id := fmt.Sprintf("relatives-of-ascii/%s/%q", p.id, x)
							w.Case(id, func(c *C) {
								c.Distinct("all", id)
								c.Distinct("nontrivial", id)
								eval(c, p, x)
							})
						}
					}
				})
			}
			// scalar node kinds in string positions are judged on their text (yaml.v3 hands any scalar to a string field);
			// null means "absent"; sequences and mappings are rejected
			kinds := []struct {
				raw  string
				text string // "" with absent=true: the attribute counts as not given
				kind string // scalar | null | composite
			}{
				{"5", "5", "scalar"}, {"true", "true", "scalar"}, {"1.5", "1.5", "scalar"}, {"abc", "abc", "scalar"}, {"0x1F", "0x1F", "scalar"}, {"null", "", "null"}, {"~", "", "null"},
				{"[a]", "", "composite"}, {"{a: b}", "", "composite"}, {"[]", "", "composite"},
			}
			strPositions := []struct {
				id     string
				embed  func(r Raw) *Cfg
				ok     func(string) bool
				nullOK bool // the configuration is still valid when the attribute is absent
			}{
				{"pkg", func(r Raw) *Cfg { c := c11base(); c.Meta.Pkg = nil; c.Meta.Extra = []KV{{"pkg", r}}; return c }, IsGoToken, true},
				{"container_type", func(r Raw) *Cfg { c := c11base(); c.Meta.Extra = []KV{{"container_type", r}}; return c }, IsGoToken, true},
				{"getter", func(r Raw) *Cfg {
					c := c11base()
					c.Services = append(c.Services, Service{Name: "sut", Constructor: P("pk.New"), Extra: []KV{{"getter", r}}})
					return c
				}, okGetter, true},
				{"type", func(r Raw) *Cfg {
					c := c11base()
					c.Services = append(c.Services, Service{Name: "sut", Constructor: P("pk.New"), Extra: []KV{{"type", r}}})
					return c
				}, func(x string) bool { _, ok := ParseType(x); return ok }, true},
				{"constructor", func(r Raw) *Cfg {
					c := c11base()
					c.Services = append(c.Services, Service{Name: "sut", Type: P("pk.T"), Extra: []KV{{"constructor", r}}})
					return c
				}, func(x string) bool { _, ok := ParseGoFunc(x); return ok }, true},
				{"value", func(r Raw) *Cfg {
					c := c11base()
					c.Services = append(c.Services, Service{Name: "sut", Type: P("pk.T"), Extra: []KV{{"value", r}}})
					return c
				}, func(x string) bool { _, ok := ParseValue(x); return ok }, true},
				{"decorator-tag", func(r Raw) *Cfg {
					c := c11base()
					c.Decorators = []Decorator{{Tag: "x", Decorator: "pk.Dec1"}}
					y := c.YAML()
					_ = y
					return c
				}, nil, false},
			}
			for _, sp := range strPositions {
				if sp.ok == nil {
					continue
				}
				for _, k := range kinds {
					sp, k := sp, k
					w.Case(fmt.Sprintf("nodekind/%s/%s", sp.id, k.raw), func(c *C) {
						cfg := sp.embed(Raw(k.raw))
						files := []File{{"c.yaml", cfg.YAML()}}
						br := w.Build(files)
						c.Distinct("all", c.ID)
						c.Distinct("nontrivial", c.ID)
						want := false
						switch k.kind {
						case "scalar":
							want = sp.ok(k.text)
						case "null":
							want = sp.nullOK
						}
						if br.Panic != "" {
							c.Violation("panic:nodekind", "tool panicked:\n"+br.Panic, FilesMap(files), nil)
							return
						}
						if want != (br.Exit == 0) {
							c.Violation("node-kind:"+sp.id+":"+k.kind, fmt.Sprintf("%s: %s (a %s node): expected accepted=%v\n%s", sp.id, k.raw, k.kind, want, strings.Join(ErrorLines(br.Out), "\n")), FilesMap(files), nil)
						}
					})
				}
			}
			// creation truth table
			for m := 0; m < 16; m++ {
				m := m
				w.Case(fmt.Sprintf("creation/%04b", m), func(c *C) {
					cfg := c11base()
					s := Service{Name: "sut"}
					if m&1 != 0 {
						s.Constructor = P("pk.New")
					}
					if m&2 != 0 {
						s.Value = P("pk.Var")
					}
					if m&4 != 0 {
						s.Type = P("*pk.Obj")
					}
					if m&8 != 0 {
						s.Args = []any{1}
					}
					cfg.Services = append(cfg.Services, s)
					files := []File{{"c.yaml", cfg.YAML()}}
					br := w.Build(files)
					want := m&7 != 0 && !(m&1 != 0 && m&2 != 0) && !(m&8 != 0 && m&1 == 0)
					c.Distinct("all", c.ID)
					c.Distinct("nontrivial", c.ID)
					if want != br.OK() {
						c.Violation("creation-rule", fmt.Sprintf("constructor=%v value=%v type=%v arguments=%v: expected accepted=%v\n%s", m&1 != 0, m&2 != 0, m&4 != 0, m&8 != 0, want, strings.Join(ErrorLines(br.Out), "\n")), FilesMap(files), nil)
					}
				})
			}
			// reserved getters
			var res []string
			for r := range c11reserved {
				res = append(res, r)
			}
			sort.Strings(res)
			for _, r := range res {
				r := r
				w.Case("reserved-getter/"+r, func(c *C) {
					cfg := c11base()
					cfg.Services = append(cfg.Services, Service{Name: "sut", Constructor: P("pk.New"), Getter: P(r)})
					files := []File{{"c.yaml", cfg.YAML()}}
					br := w.Build(files)
					c.Distinct("nontrivial", c.ID)
					if br.OK() {
						c.Violation("reserved-getter-accepted:"+r, "getter "+r+" (a method or field of the embedded container) accepted", FilesMap(files), nil)
					}
				})
			}
			// every "!value ..." form listed in docs/SERVICES.md must be accepted (as argument; as service value without the prefix)
			w.Case("documented-value-forms", func(c *C) {
				b, err := os.ReadFile(filepath.Join(w.Env.Repo, "docs", "SERVICES.md"))
				if err != nil {
					c.Violation("docs-missing", "docs/SERVICES.md not readable: "+err.Error(), nil, nil)
					return
				}
				n := 0
				for _, l := range strings.Split(string(b), "\n") {
					t := strings.TrimSpace(l)
					if !strings.HasPrefix(t, "* `!value ") {
						continue
					}
					form := t[len("* `"):]
					form = form[:strings.Index(form, "`")]
					n++
					cfg := c11base()
					cfg.Services = append(cfg.Services, Service{Name: "sut", Constructor: P("pk.New"), Args: []any{form}},
						Service{Name: "sutValue", Value: P(strings.TrimSpace(strings.TrimPrefix(form, "!value")))})
					files := []File{{"c.yaml", cfg.YAML()}}
					br := w.Build(files)
					c.Distinct("nontrivial", "doc:"+form)
					if !br.OK() {
						c.Violation("documented-value-form:"+strings.TrimPrefix(form, "!value "), fmt.Sprintf("docs/SERVICES.md lists the form %q but it is rejected:\n%s", form, strings.Join(ErrorLines(br.Out), "\n")), FilesMap(files), nil)
					}
				}
				if n < 5 {
					c.Violation("docs-forms-not-found", fmt.Sprintf("only %d documented !value forms found in docs/SERVICES.md", n), nil, nil)
				}
				c.Add("documented_forms", int64(n))
			})
			// todo exemption
			w.Case("todo-exemption", func(c *C) {
				cfg := c11base()
				cfg.Services = append(cfg.Services, Service{Name: "sut", Todo: P(true), Getter: P("Must 1 InContext"), Type: P("**"), Value: P("&&"), Constructor: P("pk."), Args: []any{Raw("[1]")},
					Calls: []Call{{Method: "not ok", Args: []any{}}}, Fields: []KV{{"1f", Raw("{}")}}, Tags: []Tag{{Name: "x y"}, {Name: "x y"}}})
				files := []File{{"c.yaml", cfg.YAML()}}
				br := w.Build(files)
				c.Distinct("nontrivial", c.ID)
				if !br.OK() {
					c.Violation("todo-not-exempt", "a todo service with invalid attributes was rejected:\n"+strings.Join(ErrorLines(br.Out), "\n"), FilesMap(files), nil)
				}
				cfg2 := c11base()
				cfg2.Services = append(cfg2.Services, Service{Name: "bad name", Todo: P(true)})
				br2 := w.Build([]File{{"c.yaml", cfg2.YAML()}})
				if br2.OK() {
					c.Violation("todo-name-not-checked", "a todo service with an invalid name was accepted", map[string]string{"c.yaml": cfg2.YAML()}, nil)
				}
			})
			// multi-defect
			k := 2
			if !w.Env.Quick() {
				k = 3
			}
			multi := func(kind string, defs []c11defect, stagePrefix string) {
				for size := 1; size <= k; size++ {
					combos(len(defs), size, func(idx []int) {
						sel := append([]int{}, idx...)
						for _, i := range sel {
							if defs[i].apply == nil {
								return
							}
						}
						id := fmt.Sprintf("multi/%s/%v", kind, sel)
						w.Case(id, func(c *C) {
							cfg := c11base()
							var ids []string
							for _, i := range sel {
								defs[i].apply(cfg)
								ids = append(ids, defs[i].id)
							}
							files := []File{{"c.yaml", cfg.YAML()}}
							br := w.Build(files)
							fm := FilesMap(files)
							c.Distinct("all", id)
							c.Distinct("nontrivial", id)
							if br.Panic != "" {
								c.Violation("panic", "tool panicked:\n"+br.Panic, fm, nil)
								return
							}
							if br.Exit == 0 {
								c.Violation("defects-accepted:"+strings.Join(ids, "+"), "configuration with grammar defects "+strings.Join(ids, ", ")+" accepted", fm, nil)
								return
							}
							lines := ErrorLines(br.Out)
							first := 99
							for _, i := range sel {
								if c11step[defs[i].id] < first {
									first = c11step[defs[i].id]
								}
							}
							for _, i := range sel {
								if c11step[defs[i].id] != first {
									continue // masked by an earlier compile step
								}
								found := false
								for _, l := range lines {
									all := strings.HasPrefix(l, stagePrefix)
									for _, n := range defs[i].names {
										if !strings.Contains(l, n) {
											all = false
										}
									}
									if all {
										found = true
									}
								}
								if !found {
									c.Violation("defect-not-reported:"+defs[i].id, fmt.Sprintf("defect %s (one of %v) is not reported by a %s diagnostic containing %v:\n%s", defs[i].id, ids, stagePrefix, defs[i].names, strings.Join(lines, "\n")), fm, nil)
								}
							}
						})
					})
				}
			}
			// several violations on one and the same entity: every one of them is reported
			same := []struct {
				id    string
				apply func(c *Cfg)
				names [][]string
			}{
				{"param-name-and-kind", func(c *Cfg) { c.Params = append(c.Params, Param{"1bad", Raw("[1, 2]")}) }, [][]string{{`"1bad"`, "invalid name"}, {`"1bad"`, "unsupported type"}}},
				{"service-name-and-attributes", func(c *Cfg) {
					c.Services = append(c.Services, Service{Name: "bad name", Getter: P("1g"), Type: P("**"), Constructor: P("pk."), Args: []any{Raw("[1]")}, Fields: []KV{{"1f", Raw("{}")}}, Tags: []Tag{{Name: "x y"}, {Name: "x y"}}, Calls: []Call{{Method: "1m", Args: []any{Raw("[2]")}}}})
				}, [][]string{{`"bad name"`, "invalid name"}, {`"bad name"`, "getter"}, {`"bad name"`, "type"}, {`"bad name"`, "constructor"}, {`"bad name"`, "arg 0"}, {`"bad name"`, "fields", `"1f"`, "invalid"}, {`"bad name"`, "fields", `"1f"`, "unsupported"}, {`"bad name"`, "tags", "0:"}, {`"bad name"`, "tags", "1:"}, {`"bad name"`, "duplicate"}, {`"bad name"`, "calls", "method"}, {`"bad name"`, "calls", "arguments"}}},
				{"getter-three-ways", func(c *Cfg) {
					c.Services = append(c.Services, Service{Name: "g3", Constructor: P("pk.New"), Getter: P("Must 1 InContext")})
				}, [][]string{{`"g3"`, `prefix "Must"`}, {`"g3"`, `suffix "InContext"`}, {`"g3"`, "getter: invalid"}}},
				{"import-alias-and-path", func(c *Cfg) { c.Meta.Imports = append(c.Meta.Imports, KV{"1al", "/bad"}) }, [][]string{{"imports", `invalid import "/bad"`}, {"imports", `invalid alias "1al"`}}},
				{"duplicate-getter-next-to-other-violations", func(c *Cfg) {
					c.Services = append(c.Services,
						Service{Name: "shareA", Constructor: P("pk.New"), Getter: P("GetShared"), Calls: []Call{{Method: "not ok", Args: []any{}}}},
						Service{Name: "shareB", Constructor: P("pk.New"), Getter: P("GetShared"), Tags: []Tag{{Name: "bad tag"}}},
						Service{Name: "shareC", Constructor: P("pk.New"), Getter: P("GetShared")})
				}, [][]string{{"GetShared", `"shareA"`, `"shareB"`, `"shareC"`}, {`"shareA"`, "calls"}, {`"shareB"`, "tags"}}},
				{"duplicate-getters-not-neighbours", func(c *Cfg) {
					c.Services = append(c.Services,
						Service{Name: "n1", Constructor: P("pk.New"), Getter: P("GetX")}, Service{Name: "n2", Constructor: P("pk.New"), Getter: P("GetY")},
						Service{Name: "n3", Constructor: P("pk.New"), Getter: P("GetX")}, Service{Name: "n4", Constructor: P("pk.New"), Getter: P("GetY")},
						Service{Name: "n5", Constructor: P("pk.New"), Getter: P("1bad")})
				}, [][]string{{"GetX", `"n1"`, `"n3"`}, {"GetY", `"n2"`, `"n4"`}, {`"n5"`, "getter"}}},
				{"one-text-in-two-roles-invalid-second", func(c *Cfg) {
					// "set-up" is a fine tag and service name, and no method, field or getter
					c.Services = append(c.Services,
						Service{Name: "aaFirst", Constructor: P("pk.New"), Tags: []Tag{{Name: "set-up"}, {Name: "audit.log", Priority: P(1)}}},
						Service{Name: "set-up", Constructor: P("pk.New"), Calls: []Call{{Method: "set-up", Args: []any{}}}, Fields: []KV{{"audit.log", 1}}, Getter: P("set-up")})
					c.Decorators = append(c.Decorators, Decorator{Tag: "set-up", Decorator: "pk.Dec1"})
				}, [][]string{{`"set-up"`, "calls", "method"}, {`"set-up"`, "fields", `"audit.log"`}, {`"set-up"`, "getter"}}},
				{"one-text-in-two-roles-invalid-first", func(c *Cfg) {
					// "audit.log" is no getter, but a fine tag (service and decorator): exactly one diagnostic
					c.Services = append(c.Services,
						Service{Name: "aaBad", Constructor: P("pk.New"), Getter: P("audit.log")},
						Service{Name: "later", Constructor: P("pk.New"), Tags: []Tag{{Name: "audit.log"}}},
						Service{Name: "audit.log", Constructor: P("pk.New")})
					c.Decorators = append(c.Decorators, Decorator{Tag: "audit.log", Decorator: "pk.Dec1"})
				}, [][]string{{`"aaBad"`, "getter"}, {"=1"}}},
				{"function-name-and-target", func(c *Cfg) { c.Meta.Functions = append(c.Meta.Functions, KV{"f-n", "pk."}) }, [][]string{{"functions", `invalid function "f-n"`}, {"functions", `invalid go function "pk."`}}},
				{"decorator-all", func(c *Cfg) {
					c.Decorators = append(c.Decorators, Decorator{Tag: "bad tag", Decorator: "1x", Args: []any{Raw("[1]"), Raw("{}")}})
				}, [][]string{{"decorators", "tag"}, {"decorators", "method"}, {"decorators", "arguments", "0:"}, {"decorators", "arguments", "1:"}}},
			}
			// the same at the compile stage: several malformed arguments of one service / one decorator, one diagnostic each,
			// every one under the step's name and the entity's prefix
			same = append(same, []struct {
				id    string
				apply func(c *Cfg)
				names [][]string
			}{
				{"service-several-malformed-arguments", func(c *Cfg) {
					c.Services = append(c.Services,
						Service{Name: "sMany", Constructor: P("pk.New"), Args: []any{"@ x", "!tagged a b", "!value 1x", "ok"}, Calls: []Call{{Method: "Set1", Args: []any{"@ y", "!tagged c d"}}, {Method: "Set2", Args: []any{"@ z"}}}, Fields: []KV{{"F1", "@ q"}, {"F2", "!value 2x"}}},
						Service{Name: "sOther", Constructor: P("pk.New"), Args: []any{"@ w"}})
				}, [][]string{{"=9"}, {"compiler.StepCompileServices:", `"sMany"`, "fields", `"F1"`, "invalid service"}, {"compiler.StepCompileServices:", `"sMany"`, "fields", `"F2"`, "invalid value"}, {"compiler.StepCompileServices:", `"sMany"`, "args: 0", "invalid service"}, {"compiler.StepCompileServices:", `"sMany"`, "args: 1", "invalid tag"}, {"compiler.StepCompileServices:", `"sMany"`, "args: 2", "invalid value"},
					{"compiler.StepCompileServices:", `"sMany"`, "calls: 0", "args: 0", "invalid service"}, {"compiler.StepCompileServices:", `"sMany"`, "calls: 0", "args: 1", "invalid tag"}, {"compiler.StepCompileServices:", `"sMany"`, "calls: 1", "args: 0", "invalid service"}, {"compiler.StepCompileServices:", `"sOther"`, "args: 0", "invalid service"}}},
				{"decorator-several-malformed-arguments", func(c *Cfg) {
					c.Decorators = append(c.Decorators, Decorator{Tag: "tgm", Decorator: "pk.Dec1", Args: []any{"@ x", "!tagged a b", "ok", "!value 1x"}}, Decorator{Tag: "tgm", Decorator: "pk.Dec2", Args: []any{"@ x"}})
				}, [][]string{{"=4"}, {"compiler.StepCompileDecorators:", `"pk.Dec1"`, "args: 0", "invalid service"}, {"compiler.StepCompileDecorators:", `"pk.Dec1"`, "args: 1", "invalid tag"}, {"compiler.StepCompileDecorators:", `"pk.Dec1"`, "args: 3", "invalid value"}, {"compiler.StepCompileDecorators:", `"pk.Dec2"`, "args: 0", "invalid service"}}},
				{"parameters-several-malformed", func(c *Cfg) {
					c.Params = append(c.Params, Param{"m1", "50%"}, Param{"m2", "%nofn()%"}, Param{"m3", "%a b%"}, Param{"m4", "%%%"})
				}, [][]string{{"=4"}, {`"m1"`}, {`"m2"`}, {`"m3"`}, {`"m4"`}}},
			}...)
			for _, sm := range same {
				sm := sm
				w.Case("same-entity/"+sm.id, func(c *C) {
					cfg := c11base()
					sm.apply(cfg)
					files := []File{{"c.yaml", cfg.YAML()}}
					br := w.Build(files)
					c.Distinct("all", c.ID)
					c.Distinct("nontrivial", c.ID)
					if br.OK() {
						c.Violation("defects-accepted:"+sm.id, "configuration with several defects on one entity accepted", FilesMap(files), nil)
						return
					}
					lines := ErrorLines(br.Out)
					for _, names := range sm.names {
						if len(names) == 1 && strings.HasPrefix(names[0], "=") {
							// exactly that many diagnostics: nothing that is valid is reported next to the defects
							if want := names[0][1:]; fmt.Sprint(len(lines)) != want {
								c.Violation("spurious-diagnostic:same-entity:"+sm.id, fmt.Sprintf("expected exactly %s diagnostic(s):\n%s", want, strings.Join(lines, "\n")), FilesMap(files), nil)
							}
							continue
						}
						found := false
						for _, l := range lines {
							all := true
							for _, n := range names {
								if !strings.Contains(l, n) {
									all = false
								}
							}
							if all {
								found = true
							}
						}
						if !found {
							c.Violation("defect-not-reported:same-entity:"+sm.id, fmt.Sprintf("one of several violations on the same entity is not reported (no diagnostic contains %v):\n%s", names, strings.Join(lines, "\n")), FilesMap(files), nil)
						}
					}
				})
			}
			// the argument grammar (@service, !tagged t, !value X, $gontainer) belongs to arguments: the same texts as
			// parameter values are plain strings - accepted, well-formed as arguments or not
			for ai, v := range []string{"@one", "@", "@ x", "@gontainer thanks", "@acme/ui-kit", "!tagged tg", "!tagged a b", "!tagged", "!value pk.Var", "!value 1x", "!value", "$gontainer", "$gontainer x", "@one.(*T)", "!todo", "!!str x"} {
				ai, v := ai, v
				w.Case(fmt.Sprintf("argument-syntax-in-a-parameter/%d", ai), func(c *C) {
					cfg := c11base()
					cfg.Params = append(cfg.Params, Param{"looksLikeArg", v}, Param{"refersToIt", "<%looksLikeArg%>"})
					cfg.Services = append(cfg.Services, Service{Name: "one", Constructor: P("pk.New"), Args: []any{"%looksLikeArg%"}, Tags: []Tag{{Name: "tg"}}})
					files := []File{{"c.yaml", cfg.YAML()}}
					br := w.Build(files)
					c.Distinct("all", c.ID)
					c.Distinct("nontrivial", c.ID)
					if br.Panic != "" {
						c.Violation("panic", "tool panicked:\n"+br.Panic, FilesMap(files), nil)
						return
					}
					if !br.OK() {
						c.Violation("parameter-read-as-argument", fmt.Sprintf("parameter value %q has no %%: it is a plain string, yet the configuration is rejected:\n%s", v, strings.Join(ErrorLines(br.Out), "\n")), FilesMap(files), nil)
					}
				})
			}
			// primitive-only arguments: every primitive kind is accepted in every value position, every composite is rejected
			{
				kinds := []struct {
					id string
					v  any
					ok bool
				}{
					{"int", 5, true}, {"negative", -3, true}, {"zero", 0, true}, {"int64-max", Raw("9223372036854775807"), true}, {"above-int64", Raw("9223372036854775808"), true}, {"uint64-max", Raw("18446744073709551615"), true},
					{"int64-min", Raw("-9223372036854775808"), true}, {"float", 2.5, true}, {"float-exp", Raw("1e300"), true}, {"hex", Raw("0x1F"), true}, {"octal", Raw("0o17"), true},
					{"true", true, true}, {"false", false, true}, {"null", nil, true}, {"tilde", Raw("~"), true}, {"string", "s", true}, {"empty-string", "", true},
					{"list", Raw("[1]"), false}, {"empty-list", Raw("[]"), false}, {"map", Raw("{a: 1}"), false}, {"empty-map", Raw("{}"), false}, {"nested", Raw("[[1]]"), false},
				}
				for _, k := range kinds {
					for _, pos := range []string{"param", "ctor", "call", "field", "decorator"} {
						k, pos := k, pos
						id := fmt.Sprintf("primitive/%s/%s", k.id, pos)
						w.Case(id, func(c *C) {
							cfg := c11base()
							sv := Service{Name: "sut", Constructor: P("pk.New")}
							switch pos {
							case "param":
								cfg.Params = append(cfg.Params, Param{"pv", k.v})
							case "ctor":
								sv.Args = []any{1, k.v}
							case "call":
								sv.Calls = []Call{{Method: "Set1", Args: []any{k.v, "x"}}}
							case "field":
								sv.Fields = []KV{{"F1", k.v}}
							case "decorator":
								sv.Tags = []Tag{{Name: "tg"}}
								cfg.Decorators = []Decorator{{Tag: "tg", Decorator: "pk.Dec1", Args: []any{k.v}}}
							}
							cfg.Services = append(cfg.Services, sv)
							files := []File{{"c.yaml", cfg.YAML()}}
							br := w.Build(files)
							c.Distinct("all", id)
							c.Distinct("nontrivial", id)
							if br.Panic != "" {
								c.Violation("panic", "tool panicked ("+id+"):\n"+br.Panic, FilesMap(files), nil)
								return
							}
							if k.ok && br.Exit != 0 {
								c.Violation("primitive-rejected:"+k.id, fmt.Sprintf("a primitive value (%s) in position %s is rejected:\n%s", k.id, pos, strings.Join(ErrorLines(br.Out), "\n")), FilesMap(files), nil)
							}
							if !k.ok && br.Exit == 0 {
								c.Violation("composite-accepted:"+k.id, fmt.Sprintf("a composite value (%s) in position %s is accepted", k.id, pos), FilesMap(files), nil)
							}
						})
					}
				}
			}
			// the violations are found and named however the YAML presents the configuration
			for _, sel := range [][]int{{}, {0, 3, 9}, {12, 13, 14}, {5, 10, 17, 22}, {1, 16, 18, 24}} {
				sel := sel
				w.Case(fmt.Sprintf("yaml-presentation/defects%v", sel), func(c *C) {
					cfg := c11base()
					ds := c11defects()
					for _, i := range sel {
						ds[i].apply(cfg)
					}
					c.Distinct("all", c.ID)
					w.ShapeInvarianceOK(c, c.ID, []File{{"c.yaml", cfg.YAML()}}, len(sel) == 0)
					w.NameInvariance(c, c.ID, cfg)
				})
			}
			multi("validate", c11defects(), "compiler.StepValidateInput:")
			multi("compile", c11compileDefects(), "compiler.StepCompile")
		},
	})
}

func c11class(x string, inLang bool) string {
	cls := "should-reject"
	if inLang {
		cls = "should-accept"
	}
	switch {
	case x == "":
		return cls + ":empty"
	case strings.ContainsAny(x, `"`):
		return cls + ":quote"
	case strings.ContainsAny(x, "*&"):
		return cls + ":ptr"
	case strings.Contains(x, "{") || strings.Contains(x, "}"):
		return cls + ":braces"
	case strings.Contains(x, " "):
		return cls + ":space"
	case strings.ContainsAny(x, "._-/"):
		return cls + ":separator"
	}
	return cls + ":plain"
}
