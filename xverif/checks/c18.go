package checks

import (
	"fmt"
	"os"
	"os/exec"
	"path/filepath"
	"strconv"
	"strings"
	"time"

	. "github.com/gontainer/gontainer/xverif/core"
)

// C18 — version compatibility gate. Full (B, V) grid through the real command constructed with build
// version B, plus real binaries linked with -X main.version=… for main.go's "v" stripping.

type semv struct {
	major, minor, patch int
	ok                  bool
}

// parseSemver is a hand-written recogniser of MAJOR.MINOR.PATCH[-pre][+build] (semver.org 2.0.0).
func parseSemver(s string) semv {
	core := s
	if i := strings.IndexAny(core, "-+"); i >= 0 {
		rest := core[i:]
		core = core[:i]
		pre, build := "", ""
		if rest[0] == '-' {
			if j := strings.Index(rest, "+"); j >= 0 {
				pre, build = rest[1:j], rest[j+1:]
				if build == "" {
					return semv{}
				}
			} else {
				pre = rest[1:]
			}
			if pre == "" {
				return semv{}
			}
		} else {
			build = rest[1:]
			if build == "" {
				return semv{}
			}
		}
		okIdent := func(x string, numericNoLeadingZero bool) bool {
			if x == "" {
				return false
			}
			num := true
			for _, c := range x {
				if !(c >= '0' && c <= '9' || c >= 'a' && c <= 'z' || c >= 'A' && c <= 'Z' || c == '-') {
					return false
				}
				if c < '0' || c > '9' {
					num = false
				}
			}
			if numericNoLeadingZero && num && len(x) > 1 && x[0] == '0' {
				return false
			}
			return true
		}
		if pre != "" {
			for _, id := range strings.Split(pre, ".") {
				if !okIdent(id, true) {
					return semv{}
				}
			}
		}
		if build != "" {
			for _, id := range strings.Split(build, ".") {
				if !okIdent(id, false) {
					return semv{}
				}
			}
		}
	}
	p := strings.Split(core, ".")
	if len(p) != 3 {
		return semv{}
	}
	var n [3]int
	for i, x := range p {
		if x == "" || (len(x) > 1 && x[0] == '0') {
			return semv{}
		}
		for _, c := range x {
			if c < '0' || c > '9' {
				return semv{}
			}
		}
		n[i], _ = strconv.Atoi(x)
	}
	return semv{n[0], n[1], n[2], true}
}

func versionGrid(thorough bool) []string {
	var g []string
	// numbers whose decimal order differs from their order as text (9 / 10 / 11, 99 / 100) are on both axes
	nums, patches, sufs := []int{0, 1, 2, 3, 9, 10, 11}, []int{0, 7}, []string{"", "-rc.1", "+b5"}
	if thorough {
		nums, patches, sufs = []int{0, 1, 2, 3, 4, 5, 9, 10, 11, 99, 100}, []int{0, 12}, []string{"", "-rc.1", "+b5", "-rc.1+b5.x-y"}
	}
	for _, ma := range nums {
		for _, mi := range nums {
			for _, pa := range patches {
				for _, suf := range sufs {
					g = append(g, fmt.Sprintf("%d.%d.%d%s", ma, mi, pa, suf))
				}
			}
		}
	}
	return g
}

func c18cfg(v *string, raw *Raw) string {
	c := &Cfg{Version: v, VersionRaw: raw, Params: []Param{{"a", 1}}}
	return c.YAML()
}

// expectation: "accept", "reject-version", "reject-parse", "" (unspecified)
func c18expect(b string, v string) string {
	V := parseSemver(v)
	if !V.ok {
		return "reject-parse"
	}
	B := parseSemver(b)
	if !B.ok {
		return "accept"
	}
	if B.major == 0 {
		if V.major == B.major && V.minor == B.minor {
			return "accept"
		}
		return "reject-version"
	}
	if V.major == B.major && V.minor <= B.minor {
		return "accept"
	}
	return "reject-version"
}

func init() {
	// "!dirty" = linked with -X main.isGitDirty=true as well
	binVersions := []string{"v0.2.0", "v1.2.3", "1.2.3", "dev-main", "v1.2.3+build.5", "v2.1.0-rc.1", "v0.3.1+dirty", "2.0.4-rc.1+b7", "v3", "v1.2.3!dirty", "v1.2.3+build.5!dirty", "2.1.0-rc.1+b7!dirty",
		"v1.2.4-0.20231102205301-665205f9fb2c", "0.3.1-0.20231102205301-665205f9fb2c", "v2.0.1-rc.1.0.20231102205301-665205f9fb2c", "0.0.0-20231102205301-665205f9fb2c"}
	Register(&Check{
		ID:    "C18",
		Level: "exploration",
		Rule: "full grid of (build version B, declared version V) pairs: majors and minors in {0,1,2,3,9,10,11} x patches {0,7} x {release,-rc.1,+b5} on both axes (thorough: {0..5,9,10,11,99,100} x {0,12} x four suffix forms, 937 000 pairs), " +
			"plus non-semver builds, absent V, malformed V, and 11 real binaries linked with -X main.version / commit / date / builtBy / isGitDirty (v-prefixed, with prerelease and build metadata, from a dirty tree); a case is non-trivial when B is a semantic version and V is present (the gate is actually evaluated); distinct = distinct (B,V) pair",
		Assumptions: []string{
			"in-process cmd.NewBuildCmd(B, info) is what main.go calls after stripping a leading v from a valid v-prefixed version; the stripping itself is covered by the 4 linked binaries",
			"versions of the short form MAJOR.MINOR (accepted by x/mod/semver, not by semver.org) are treated as unspecified and not generated",
		},
		BudgetQuick: 150 * time.Second, BudgetThorough: 600 * time.Second,
		Prepare: func(p *Parent) error {
			for i, v := range binVersions {
				out := filepath.Join(p.Shared, fmt.Sprintf("gontainer-%d", i))
				ld := "-X main.version=" + strings.TrimSuffix(v, "!dirty") + " -X main.commit=0123abc -X main.date=2024-01-02T03:04:05Z -X main.builtBy=verif"
				if strings.HasSuffix(v, "!dirty") {
					ld += " -X main.isGitDirty=true"
				}
				cmd := exec.Command("go", "build", "-o", out, "-ldflags", ld, ".")
				cmd.Dir = p.Env.Repo
				if b, err := cmd.CombinedOutput(); err != nil {
					return fmt.Errorf("go build /repo: %v\n%s", err, b)
				}
			}
			return nil
		},
		Run: func(w *W) {
			grid := versionGrid(!w.Env.Quick())
			eval := func(c *C, b string, cfg string, expect string, key string) {
				br := w.BuildWithVersion(b, []File{{"c.yaml", cfg}})
				obs := "accept"
				if br.Panic != "" {
					obs = "panic"
				} else if br.Exit != 0 {
					obs = "reject-other"
					lines := ErrorLines(br.Out)
					for _, l := range lines {
						if strings.Contains(l, "version:") && strings.Contains(l, "compiler.StepValidateInput") {
							obs = "reject-version"
						}
						if strings.Contains(l, "parsing yaml") {
							obs = "reject-parse"
						}
					}
				}
				if obs == "accept" && !br.OutExists {
					obs = "accept-without-output"
				}
				if obs != expect {
					c.Violation(key, fmt.Sprintf("build version %q, configuration %s: expected %s, observed %s\n%s", b, strings.TrimSpace(cfg), expect, obs, br.Out),
						map[string]string{"c.yaml": cfg}, map[string]any{"build_version": b})
				}
				c.Count(obs)
			}
			for _, b := range grid {
				for _, v := range grid {
					b, v := b, v
					w.Case("grid/B="+b+"/V="+v, func(c *C) {
						exp := c18expect(b, v)
						B, V := parseSemver(b), parseSemver(v)
						key := "grid:" + exp
						if B.major == V.major && B.minor == V.minor {
							key = "same-major-minor-rejected"
						}
						eval(c, b, c18cfg(&v, nil), exp, key)
						c.Distinct("nontrivial", b+"|"+v)
						if b == "0.1.0" && v == "0.2.7+b5" || b == "2.1.0" && v == "2.1.7-rc.1" {
							c.Sample(map[string]string{"B": b, "V": v, "expect": exp})
						}
					})
				}
			}
			// the gate's decision does not depend on the other flags of the command: exit status and the presence of the
			// output file under --quiet, --stub, the ignore flags and all of them, over a sub-grid and the malformed versions
			{
				nums := []int{0, 1, 2, 10}
				var vs []string
				for _, ma := range nums {
					for _, mi := range nums {
						vs = append(vs, fmt.Sprintf("%d.%d.0", ma, mi), fmt.Sprintf("%d.%d.7-rc.1", ma, mi))
					}
				}
				vs = append(vs, "one.two", "1.2", "", "v1", "1.2.3.4")
				for _, b := range []string{"0.2.0", "1.2.3", "2.10.0", "10.1.1-rc.1", "dev-main"} {
					for _, v := range vs {
						for fi, flags := range [][]string{{"--quiet"}, {"--stub"}, {"--ignore-missing-params", "--ignore-missing-services"}, {"--quiet", "--stub", "--ignore-missing-params", "--ignore-missing-services"}} {
							b, v, fi, flags := b, v, fi, flags
							w.Case(fmt.Sprintf("flags/B=%s/V=%s/%d", b, v, fi), func(c *C) {
								cfg := c18cfg(&v, nil)
								plain := w.BuildWithVersion(b, []File{{"c.yaml", cfg}})
								flagged := w.BuildWithVersion(b, []File{{"c.yaml", cfg}}, flags...)
								c.Distinct("all", c.ID)
								c.Distinct("nontrivial", c.ID)
								c.Count("evaluations_extra")
								if flagged.Panic != "" {
									c.Violation("panic:flags", "tool panicked: "+flagged.Panic, map[string]string{"c.yaml": cfg}, map[string]any{"build_version": b, "flags": flags})
									return
								}
								if (plain.Exit == 0) != (flagged.Exit == 0) || plain.OutExists != flagged.OutExists {
									c.Violation(fmt.Sprintf("version-verdict-depends-on-flags:%v", flags), fmt.Sprintf("build version %q, declared %q: exit %d / output written %v without flags, exit %d / output written %v with %v", b, v, plain.Exit, plain.OutExists, flagged.Exit, flagged.OutExists, flags),
										map[string]string{"c.yaml": cfg}, map[string]any{"build_version": b, "flags": flags})
								}
							})
						}
					}
				}
			}
			// numbers that do not fit a machine word are numbers all the same (semver sets no limit)
			for _, bv := range []struct{ b, v, want string }{
				{"1.2.3", "1.18446744073709551616.0", "reject-version"},
				{"1.2.3", "1.18446744073709551615.0", "reject-version"},
				{"1.2.3", "18446744073709551617.2.0", "reject-version"},
				{"0.0.9", "18446744073709551616.0.0", "reject-version"},
				{"0.0.9", "0.99999999999999999999999999.0", "reject-version"},
				{"0.4.1", "4294967296.4.0", "reject-version"},
				{"18446744073709551617.1.0", "18446744073709551617.0.5", "accept"},
				{"18446744073709551617.1.0", "18446744073709551617.2.0", "reject-version"},
				{"18446744073709551617.1.0", "1.1.0", "reject-version"},
				{"1.18446744073709551617.0", "1.18446744073709551616.9", "accept"},
				{"1.18446744073709551616.0", "1.18446744073709551617.0", "reject-version"},
				{"0.18446744073709551616.3", "0.18446744073709551616.0", "accept"},
				{"0.18446744073709551616.3", "0.0.0", "reject-version"},
			} {
				bv := bv
				w.Case("huge-numbers/B="+bv.b+"/V="+bv.v, func(c *C) {
					eval(c, bv.b, c18cfg(&bv.v, nil), bv.want, "huge-number:"+bv.want)
					c.Distinct("nontrivial", bv.b+"|"+bv.v)
				})
			}
			// several command objects in one process: each gates with the version it was constructed with, whatever was
			// constructed before or after it
			for _, tr := range []struct{ b, decoy, v string }{
				{"1.4.0", "2.3.0", "2.0.0"}, {"1.4.0", "2.3.0", "1.2.0"}, {"0.3.1", "dev-main", "0.4.0"}, {"dev-main", "1.0.0", "9.9.9"}, {"2.3.0", "1.4.0", "2.2.0"}, {"1.4.0", "", "1.5.0"},
			} {
				tr := tr
				w.Case("command-objects/B="+tr.b+"/then="+tr.decoy+"/V="+tr.v, func(c *C) {
					ConstructAlso = []string{tr.decoy, "0.0.1"}
					defer func() { ConstructAlso = nil }()
					eval(c, tr.b, c18cfg(&tr.v, nil), c18expect(tr.b, tr.v), "command-objects-share-the-build-version")
					c.Distinct("nontrivial", "objects|"+tr.b+"|"+tr.decoy+"|"+tr.v)
				})
			}
			// non-semver builds: gate skipped
			for _, b := range []string{"devel", "dev-main", "", "(devel)", "v1.2.3", "1.2.3.4", "01.2.3"} {
				for _, v := range []string{"0.0.0", "1.2.3", "3.3.7-rc.1", "9.9.9"} {
					b, v := b, v
					w.Case("nonsemver/B="+b+"/V="+v, func(c *C) {
						eval(c, b, c18cfg(&v, nil), "accept", "nonsemver-build-not-skipped")
						c.Distinct("skipped", b+"|"+v)
					})
				}
			}
			// absent V
			for _, b := range append([]string{"devel", ""}, grid[:12]...) {
				b := b
				w.Case("absent/B="+b, func(c *C) {
					eval(c, b, c18cfg(nil, nil), "accept", "absent-version-not-skipped")
					c.Distinct("skipped", b+"|absent")
				})
			}
			// malformed V
			malformed := []Raw{`"v1.2.3"`, `"abc"`, `"1.2.3.4"`, `"01.2.3"`, `1.5`, `1`, `[1, 2, 3]`, `{"a": 1}`, `true`, `""`, `"1.2.3-"`, `"1.2.3+"`, `" 1.2.3"`, `"1.2.3 "`, `"1.02.3"`, `"1.2.-3"`}
			for _, b := range []string{"devel", "0.1.0", "1.2.3", "3.3.7"} {
				for _, m := range malformed {
					b, m := b, m
					w.Case("malformed/B="+b+"/V="+string(m), func(c *C) {
						eval(c, b, c18cfg(nil, &m), "reject-parse", "malformed-version-not-parse-error")
						c.Distinct("malformed", b+"|"+string(m))
					})
				}
			}
			// explicit null is "declares no version"
			w.Case("null-version", func(c *C) {
				m := Raw("null")
				eval(c, "1.2.3", c18cfg(nil, &m), "accept", "null-version")
			})
			// the declared version of a configuration spread over several files is the one of the last file that
			// declares one (scalar attribute: later files win, C09); the gate applies to that one
			{
				vs := []string{"0.2.0", "0.3.1", "1.2.0", "1.3.0", "2.0.0", "2.1.0", "2.2.0"}
				for _, b := range []string{"0.2.5", "1.2.3", "2.1.0"} {
					for _, v1 := range vs {
						for _, v2 := range vs {
							b, v1, v2 := b, v1, v2
							w.Case("several-files/B="+b+"/"+v1+","+v2, func(c *C) {
								none := (&Cfg{Params: []Param{{"b", 2}}}).YAML()
								f1, f2 := c18cfg(&v1, nil), (&Cfg{Version: &v2, Params: []Param{{"c", 3}}}).YAML()
								only1, only2 := (&Cfg{Version: &v1}).YAML(), (&Cfg{Version: &v2}).YAML() // files that declare nothing but the version
								for _, form := range []struct {
									id    string
									files []File
									last  string
								}{
									{"v1,v2", []File{{"a.yaml", f1}, {"b.yaml", f2}}, v2},
									{"v1,none", []File{{"a.yaml", f1}, {"b.yaml", none}}, v1},
									{"none,v2", []File{{"a.yaml", none}, {"b.yaml", f2}}, v2},
									{"v1,none,v2", []File{{"a.yaml", f1}, {"b.yaml", none}, {"c.yaml", f2}}, v2},
									{"only-v1", []File{{"a.yaml", only1}}, v1},
									{"only-v1,none", []File{{"a.yaml", only1}, {"b.yaml", none}}, v1},
									{"none,only-v2", []File{{"a.yaml", none}, {"b.yaml", only2}}, v2},
									{"v1,only-v2", []File{{"a.yaml", f1}, {"b.yaml", only2}}, v2},
									{"only-v1,only-v2", []File{{"a.yaml", only1}, {"b.yaml", only2}}, v2},
								} {
									br := w.BuildWithVersion(b, form.files)
									exp := c18expect(b, form.last)
									obs := "accept"
									if br.Panic != "" {
										obs = "panic"
									} else if br.Exit != 0 {
										obs = "reject-other"
										for _, l := range ErrorLines(br.Out) {
											if strings.Contains(l, "version:") && strings.Contains(l, "compiler.StepValidateInput") {
												obs = "reject-version"
											}
										}
									}
									c.Count(obs)
									c.Count("evaluations_extra")
									if obs != exp {
										c.Violation("several-files:"+form.id, fmt.Sprintf("build version %q, files declare versions %s (%s -> effective %s): expected %s, observed %s\n%s", b, form.id, v1+" then "+v2, form.last, exp, obs, br.Out), FilesMap(form.files), map[string]any{"build_version": b})
									}
								}
								c.Distinct("nontrivial", "several|"+b+"|"+v1+"|"+v2)
							})
						}
					}
				}
			}
			// real binaries (main.go strips the v of a valid v-prefixed version; anything else is passed on)
			for i, bv := range binVersions {
				eff := strings.TrimSuffix(bv, "!dirty") // a dirty work tree does not change which configurations the build accepts
				if strings.HasPrefix(eff, "v") && parseSemver(eff[1:]).ok {
					eff = eff[1:]
				}
				if bv == "v3" {
					continue // short forms are unspecified
				}
				for _, v := range []string{"0.2.0", "0.2.9-rc.1", "0.3.0", "0.3.9", "1.2.0", "1.2.9", "1.3.0", "1.0.5+b5", "2.0.0", "2.0.9", "2.1.5", "2.2.0"} {
					i, bv, eff, v := i, bv, eff, v
					w.Case(fmt.Sprintf("binary/%s/V=%s", bv, v), func(c *C) {
						dir := w.FreshDir()
						cfg := c18cfg(&v, nil)
						os.WriteFile("c.yaml", []byte(cfg), 0o644)
						cmd := exec.Command(filepath.Join(w.Shared, fmt.Sprintf("gontainer-%d", i)), "build", "-i", "c.yaml", "-o", "out.go")
						cmd.Dir = dir
						out, err := cmd.CombinedOutput()
						obs := "accept"
						if err != nil {
							obs = "reject-other"
							if ee, ok := err.(*exec.ExitError); ok && ee.ExitCode() == 1 && strings.Contains(string(out), "version:") {
								obs = "reject-version"
							}
						}
						exp := c18expect(eff, v)
						if obs != exp {
							key := "binary:" + exp
							B, V := parseSemver(eff), parseSemver(v)
							if B.ok && B.major == V.major && B.minor == V.minor {
								key = "same-major-minor-rejected"
							}
							c.Violation(key, fmt.Sprintf("binary linked with -X main.version=%s, version: %s: expected %s, observed %s\n%s", bv, v, exp, obs, out),
								map[string]string{"c.yaml": cfg}, map[string]any{"ldflags_version": bv})
						}
						c.Count("binary_runs")
						c.Distinct("binary", bv+"|"+v)
					})
				}
			}
		},
	})
}
