package checks

import (
	"fmt"
	"sort"
	"strings"
	"time"

	. "github.com/gontainer/gontainer/xverif/core"
)

// C05 — scope semantics and the shared-on-contextual rule.
// Verdict: every DAG on 3 (thorough: 4) services, every edge realised by each of 6 kinds, every scope
// assignment. Histories: HIST-X to fixpoint over {Get, GetInContext(A), GetInContext(B)} x services.

var c05kinds = []string{"ctor", "field", "call", "tagged", "decorator-svc", "decorator-tagged", "tagged-field", "tagged-call"}
var c05scopes = []*string{nil, P("shared"), P("contextual"), P("non_shared")}

func c05names(n int) []string { return []string{"sa", "sb", "sc", "sd"}[:n] }

// c05dags enumerates all DAGs on n labelled nodes as edge lists.
func c05dags(n int) [][][2]int {
	var pairs [][2]int
	for a := 0; a < n; a++ {
		for b := 0; b < n; b++ {
			if a != b {
				pairs = append(pairs, [2]int{a, b})
			}
		}
	}
	var out [][][2]int
	for mask := 0; mask < 1<<uint(len(pairs)); mask++ {
		var es [][2]int
		for i, p := range pairs {
			if mask&(1<<uint(i)) != 0 {
				es = append(es, p)
			}
		}
		if acyclic(n, es) {
			out = append(out, es)
		}
	}
	return out
}

func closure(n int, es [][2]int) [][]bool {
	r := make([][]bool, n)
	for i := range r {
		r[i] = make([]bool, n)
	}
	for _, e := range es {
		r[e[0]][e[1]] = true
	}
	for k := 0; k < n; k++ {
		for i := 0; i < n; i++ {
			for j := 0; j < n; j++ {
				if r[i][k] && r[k][j] {
					r[i][j] = true
				}
			}
		}
	}
	return r
}

func acyclic(n int, es [][2]int) bool {
	r := closure(n, es)
	for i := 0; i < n; i++ {
		if r[i][i] {
			return false
		}
	}
	return true
}

// c05creation selects how service i is created (0: constructors only; 1: a mix of constructor, value and type-only)
var c05creation = 0

// c05bare: services carry no field of their own (a service that is only tagged has no argument, call or field at all)
var c05bare = false

func c05cfg(n int, es [][2]int, kinds []int, scopes []int) *Cfg {
	names := c05names(n)
	cfg := &Cfg{Meta: stdMeta()}
	svcs := make([]Service, n)
	for i := range svcs {
		svcs[i] = Service{Name: names[i], Constructor: P(fmt.Sprintf("pk.New%d", i%4+1)), Scope: c05scopes[scopes[i]]}
		if c05creation == 1 {
			switch i % 3 {
			case 1:
				svcs[i].Constructor, svcs[i].Value = nil, P("&pk.Obj{}")
			case 2:
				svcs[i].Constructor, svcs[i].Type = nil, P("pk2.Val")
			}
		}
	}
	hasTag := func(s *Service, t string) bool {
		for _, x := range s.Tags {
			if x.Name == t {
				return true
			}
		}
		return false
	}
	// every service also depends on a parameter (parameters are nodes of the same graph as services); in the bare
	// variant nothing at all is injected into a service except what the edges say
	cfg.Params = []Param{{"common", "shared-param"}}
	for i := range svcs {
		if !c05bare {
			svcs[i].Fields = append(svcs[i].Fields, KV{"F2", "%common%"})
		}
	}
	svcs[0].Getter, svcs[0].MustGetter = P("FetchSa"), P(true)
	for ei, e := range es {
		a, b := &svcs[e[0]], &svcs[e[1]]
		switch c05kinds[kinds[ei]] {
		case "ctor":
			a.Args = append(a.Args, "@"+b.Name)
		case "field":
			f := ""
			for _, cand := range []string{"F1", "f3", "F2"} {
				used := false
				for _, kv := range a.Fields {
					used = used || kv.K == cand
				}
				if !used {
					f = cand
					break
				}
			}
			a.Fields = append(a.Fields, KV{f, "@" + b.Name})
		case "call":
			a.Calls = append(a.Calls, Call{Method: "Set1", Args: []any{"@" + b.Name}})
		case "tagged":
			t := "tg-" + b.Name
			if !hasTag(b, t) {
				b.Tags = append(b.Tags, Tag{Name: t})
			}
			a.Args = append(a.Args, "!tagged "+t)
		case "tagged-field", "tagged-call":
			t := "tg-" + b.Name
			if !hasTag(b, t) {
				b.Tags = append(b.Tags, Tag{Name: t})
			}
			if c05kinds[kinds[ei]] == "tagged-call" {
				a.Calls = append(a.Calls, Call{Method: "Set2", Args: []any{"x", "!tagged " + t}})
				break
			}
			f := ""
			for _, cand := range []string{"F1", "f3", "F2"} {
				used := false
				for _, kv := range a.Fields {
					used = used || kv.K == cand
				}
				if !used {
					f = cand
					break
				}
			}
			a.Fields = append(a.Fields, KV{f, "!tagged " + t})
		case "decorator-svc":
			t := "dec-" + a.Name + "-" + b.Name
			a.Tags = append(a.Tags, Tag{Name: t})
			cfg.Decorators = append(cfg.Decorators, Decorator{Tag: t, Decorator: "pk2.Dec1", Args: []any{"@" + b.Name}})
		case "decorator-tagged":
			t := "dec-" + a.Name + "-" + b.Name
			tb := "tg-" + b.Name
			a.Tags = append(a.Tags, Tag{Name: t})
			if !hasTag(b, tb) {
				b.Tags = append(b.Tags, Tag{Name: tb})
			}
			cfg.Decorators = append(cfg.Decorators, Decorator{Tag: t, Decorator: "pk2.Dec2", Args: []any{"!tagged " + tb}})
		}
	}
	cfg.Services = svcs
	return cfg
}

func c05verdict(w *W, c *C, id string, n int, es [][2]int, kinds []int, scopes []int) {
	cfg := c05cfg(n, es, kinds, scopes)
	names := c05names(n)
	files := []File{{"c.yaml", cfg.YAML()}}
	fm := FilesMap(files)
	br := w.Build(files)
	c.Distinct("all", id)
	c.Count("evaluations_extra")
	if br.Panic != "" {
		c.Violation("panic", "tool panicked ("+id+"):\n"+br.Panic, fm, nil)
		return
	}
	// nothing is missing in these configurations: the ignore flags change neither the verdict nor the report
	for _, flags := range [][]string{{"--ignore-missing-params", "--ignore-missing-services"}} {
		if c05bare || c05creation != 0 {
			break // once per relation is enough
		}
		fb := w.Build(files, flags...)
		c.Count("evaluations_extra")
		if fb.Exit != br.Exit || strings.Join(ErrorLines(fb.Out), "\n") != strings.Join(ErrorLines(br.Out), "\n") {
			c.Violation("scope-verdict-depends-on-flags", fmt.Sprintf("%v changes the scope verdict (%s): exit %d vs %d\n%s", flags, id, fb.Exit, br.Exit, strings.Join(ErrorLines(br.Out), "\n")), fm, map[string]any{"flags": flags})
			break
		}
	}
	cl := closure(n, es)
	want := map[string]bool{}
	for i := 0; i < n; i++ {
		for j := 0; j < n; j++ {
			if cl[i][j] && scopes[i] == 1 && scopes[j] == 2 {
				want[names[i]+">"+names[j]] = true
			}
		}
	}
	lines := ErrorLines(br.Out)
	got := map[string]bool{}
	for _, l := range lines {
		if !strings.HasPrefix(l, "output.ValidateServicesScopes:") {
			c.Violation("foreign-diagnostic", "unexpected diagnostic ("+id+"): "+l, fm, nil)
			continue
		}
		var mentioned []string
		for _, nm := range names {
			if strings.Contains(l, `"`+nm+`"`) {
				mentioned = append(mentioned, nm)
			}
		}
		if len(mentioned) != 2 {
			c.Violation("scope-diagnostic-names", "scope diagnostic does not name exactly two services ("+id+"): "+l, fm, nil)
			continue
		}
		// order as printed: shared first
		first, second := mentioned[0], mentioned[1]
		if strings.Index(l, `"`+second+`"`) < strings.Index(l, `"`+first+`"`) {
			first, second = second, first
		}
		got[first+">"+second] = true
	}
	if len(want) > 0 {
		c.Distinct("nontrivial", id)
		c.Count("violating")
	} else {
		c.Count("conforming")
	}
	if (len(want) > 0) != (br.Exit != 0) {
		if len(want) > 0 {
			c.Violation("scope-violation-accepted", fmt.Sprintf("shared service reaches a contextual one (%v) but the configuration was accepted (%s)", keys(want), id), fm, nil)
		} else {
			c.Violation("rejected-without-violation", "rejected although no declared-shared service reaches a declared-contextual one ("+id+"):\n"+strings.Join(lines, "\n"), fm, nil)
		}
		return
	}
	for p := range want {
		if !got[p] {
			c.Violation("pair-not-reported", fmt.Sprintf("pair %s (shared>contextual) not reported (%s):\n%s", p, id, strings.Join(lines, "\n")), fm, nil)
		}
	}
	for p := range got {
		if !want[p] {
			c.Violation("spurious-pair", fmt.Sprintf("pair %s reported but is not (declared shared -> declared contextual) (%s)", p, id), fm, nil)
		}
	}
}

func keys(m map[string]bool) []string {
	var k []string
	for x := range m {
		k = append(k, x)
	}
	sort.Strings(k)
	return k
}

func init() {
	Register(&Check{
		ID:    "C05",
		Level: "model_checking",
		Rule: "verdict: every DAG on 3 services (25) x every edge kind {constructor @, field, call argument, !tagged, decorator with @ dependency, decorator with !tagged dependency} (one kind per graph; thorough: all DAGs on 4 services with the constructor kind, and every assignment of kinds to edges for 3 services) x every scope assignment {unset, shared, contextual, non_shared}^n; " +
			"histories: for every accepted scope assignment of every DAG on 3 services (constructor kind) and of three representative DAGs for each other kind, explicit-state BFS to fixpoint over {Get, GetInContext(A), GetInContext(B)} x services (+ GetTaggedBy): every transition replayed on a fresh real container, observations (identity structure of all returned object graphs) and the reached cache state (read from the container by reflection) compared with the reference model",
		Assumptions: []string{
			"state abstraction: cache membership of the shared cache and of each attached context's bag, read from the real container; the model's transition function enumerates the states, every transition is executed on the implementation",
			"instance identity is compared relationally (canonical renumbering of pointers / serials within one history)",
		},
		BudgetQuick: 280 * time.Second, BudgetThorough: 1500 * time.Second,
		Prepare: PrepareUniverse,
		Run: func(w *W) {
			dags3 := c05dags(3)
			scopeVecs := func(n int, f func([]int)) {
				total := 1
				for i := 0; i < n; i++ {
					total *= 4
				}
				for v := 0; v < total; v++ {
					sc := make([]int, n)
					x := v
					for i := range sc {
						sc[i] = x % 4
						x /= 4
					}
					f(sc)
				}
			}
			for gi, es := range dags3 {
				for k := range c05kinds {
					kinds := make([]int, len(es))
					for i := range kinds {
						kinds[i] = k
					}
					if len(es) == 0 && k > 0 {
						continue
					}
					scopeVecs(3, func(sc []int) {
						id := fmt.Sprintf("verdict/n3/g%d/%s/scopes=%v", gi, c05kinds[k], sc)
						es, kinds, sc := es, kinds, append([]int{}, sc...)
						w.Case(id, func(c *C) {
							c05verdict(w, c, id, 3, es, kinds, sc)
							c05bare = true
							c05verdict(w, c, id+"/bare", 3, es, kinds, sc)
							c05bare = false
							if kn := c05kinds[k]; kn == "field" || kn == "call" || kn == "decorator-svc" || kn == "decorator-tagged" || kn == "tagged-field" || kn == "tagged-call" {
								// the same relation when the services are created from a value / a type only (they take no
								// constructor arguments, but fields, calls, tags and decorators inject all the same)
								c05creation = 1
								c05verdict(w, c, id+"/value-and-type-services", 3, es, kinds, sc)
								c05creation = 0
							}
							if gi == 7 && k == 4 && sc[0] == 1 && sc[1] == 0 && sc[2] == 2 {
								c.Sample(map[string]any{"case": id, "yaml": c05cfg(3, es, kinds, sc).YAML()})
							}
						})
					})
				}
			}
			if !w.Env.Quick() {
				for gi, es := range c05dags(4) {
					kinds := make([]int, len(es))
					scopeVecs(4, func(sc []int) {
						id := fmt.Sprintf("verdict/n4/g%d/scopes=%v", gi, sc)
						es, sc := es, append([]int{}, sc...)
						w.Case(id, func(c *C) { c05verdict(w, c, id, 4, es, kinds, sc) })
					})
				}
				// mixed kinds on 3 services: every assignment of kinds to edges, scopes restricted to {shared, contextual, unset}
				for gi, es := range dags3 {
					if len(es) == 0 || len(es) > 3 {
						continue
					}
					total := 1
					for range es {
						total *= len(c05kinds)
					}
					for kv := 0; kv < total; kv++ {
						kinds := make([]int, len(es))
						x := kv
						for i := range kinds {
							kinds[i] = x % len(c05kinds)
							x /= len(c05kinds)
						}
						for sv := 0; sv < 27; sv++ {
							sc := []int{sv % 3, (sv / 3) % 3, sv / 9}
							id := fmt.Sprintf("verdict/mixed/g%d/k%d/s%d", gi, kv, sv)
							es, kinds := es, kinds
							w.Case(id, func(c *C) { c05verdict(w, c, id, 3, es, kinds, sc) })
						}
					}
				}
			}
			// placeholders keep their declared scope: a shared service must not depend on a todo service declared contextual
			for gi, es := range dags3 {
				if len(es) == 0 || len(es) > 2 {
					continue
				}
				kinds := make([]int, len(es))
				scopeVecs(3, func(sc []int) {
					for todoMask := 1; todoMask < 8; todoMask++ {
						es, sc, todoMask := es, append([]int{}, sc...), todoMask
						id := fmt.Sprintf("verdict/todo/g%d/scopes=%v/todo=%03b", gi, sc, todoMask)
						w.Case(id, func(c *C) {
							cfg := c05cfg(3, es, kinds, sc)
							// a todo service has no dependencies of its own (its attributes are ignored): drop its outgoing edges
							var live [][2]int
							for _, e := range es {
								if todoMask&(1<<uint(e[0])) == 0 {
									live = append(live, e)
								}
							}
							for i := range cfg.Services {
								if todoMask&(1<<uint(i)) != 0 {
									cfg.Services[i] = Service{Name: cfg.Services[i].Name, Todo: P(true), Scope: cfg.Services[i].Scope}
								}
							}
							files := []File{{"c.yaml", cfg.YAML()}}
							br := w.Build(files)
							c.Distinct("all", id)
							c.Count("evaluations_extra")
							cl := closure(3, live)
							want := false
							for i := 0; i < 3; i++ {
								for j := 0; j < 3; j++ {
									if cl[i][j] && sc[i] == 1 && sc[j] == 2 && todoMask&(1<<uint(i)) == 0 {
										want = true
									}
								}
							}
							if want {
								c.Distinct("nontrivial", id)
							}
							if br.Panic != "" {
								c.Violation("panic", "tool panicked ("+id+"):\n"+br.Panic, FilesMap(files), nil)
								return
							}
							if want != (br.Exit != 0) {
								c.Violation("scope-rule-with-todo", fmt.Sprintf("todo mask %03b, scopes %v: expected rejected=%v (a placeholder keeps its declared scope) (%s)\n%s", todoMask, sc, want, id, strings.Join(ErrorLines(br.Out), "\n")), FilesMap(files), nil)
							}
						})
					}
				})
			}
			// name collisions: tags and parameters named exactly like services must not create service dependencies
			collide := []struct {
				id    string
				apply func(c *Cfg)
			}{
				{"carries-tag-named-like-service", func(c *Cfg) { c.Services[0].Tags = append(c.Services[0].Tags, Tag{Name: "sb"}, Tag{Name: "sc"}) }},
				{"param-named-like-service", func(c *Cfg) {
					c.Params = append(c.Params, Param{"sb", 1}, Param{"sc", "%sb%"})
					c.Services[0].Args = []any{"%sb%", "%sc%"}
				}},
				{"requests-tag-named-like-service", func(c *Cfg) { c.Services[0].Args = []any{"!tagged sb", "!tagged sc"} }},
				{"decorated-on-tag-named-like-service", func(c *Cfg) {
					c.Services[0].Tags = append(c.Services[0].Tags, Tag{Name: "sc"})
					c.Decorators = []Decorator{{Tag: "sc", Decorator: "pk2.Dec1", Args: []any{"%sb%"}}}
					c.Params = append(c.Params, Param{"sb", 1})
				}},
			}
			for _, col := range collide {
				scopeVecs(3, func(sc []int) {
					col, sc := col, append([]int{}, sc...)
					id := fmt.Sprintf("verdict/names/%s/scopes=%v", col.id, sc)
					w.Case(id, func(c *C) {
						cfg := c05cfg(3, nil, nil, sc)
						col.apply(cfg)
						files := []File{{"c.yaml", cfg.YAML()}}
						br := w.Build(files)
						c.Distinct("all", id)
						c.Distinct("nontrivial", id)
						c.Count("evaluations_extra")
						if !br.OK() {
							c.Violation("rejected-without-violation:name-collision", "no service depends on another one (tags / parameters merely share a service's name) but the configuration was rejected ("+id+"):\n"+strings.Join(ErrorLines(br.Out), "\n")+br.Panic, FilesMap(files), nil)
						}
					})
				})
			}
			// histories
			var cases []*BCase
			addHist := func(id string, es [][2]int, kinds []int, sc []int) {
				// only configurations the scope rule accepts
				cl := closure(3, es)
				for i := 0; i < 3; i++ {
					for j := 0; j < 3; j++ {
						if cl[i][j] && sc[i] == 1 && sc[j] == 2 {
							return
						}
					}
				}
				cfg := c05cfg(3, es, kinds, sc)
				var alphabet []ProbeOp
				for _, n := range c05names(3) {
					alphabet = append(alphabet, op("get", n), opCtx("getctx", "A", n), opCtx("getctx", "B", n))
				}
				// the typed API of the first service: getter, its InContext twin and the Must twins
				alphabet = append(alphabet, op("getter", "FetchSa"), opCtx("getterctx", "A", "FetchSaInContext"), opCtx("mustgetterctx", "A", "MustFetchSaInContext"), op("mustgetter", "MustFetchSa"))
				tags := map[string]bool{}
				for _, s := range cfg.Services {
					for _, t := range s.Tags {
						if strings.HasPrefix(t.Name, "tg-") && !tags[t.Name] {
							tags[t.Name] = true
							alphabet = append(alphabet, opTag("tagged", t.Name), ProbeOp{Op: "taggedctx", Ctx: "A", Tag: t.Name})
						}
					}
				}
				plan := histExplore(cfg, "", nil, alphabet, 0, nil, 400)
				bc := &BCase{ID: id, Cfg: cfg}
				for _, s := range plan.Sessions {
					bc.Sessions = append(bc.Sessions, BSession{Ops: s})
				}
				cases = append(cases, bc)
			}
			// how many services there are is no input of the scope semantics: one service alone, and two, in every scope and
			// three creation methods
			for si, scope := range []*string{nil, P("shared"), P("non_shared"), P("contextual")} {
				for ci, mk := range []func(n string) Service{
					func(n string) Service { return Service{Name: n, Constructor: P("pk.New1")} },
					func(n string) Service { return Service{Name: n, Value: P("&pk.Obj{}")} },
					func(n string) Service { return Service{Name: n, Type: P("pk2.Val"), Fields: []KV{{"F1", 1}}} },
				} {
					for n := 1; n <= 2; n++ {
						cfg := &Cfg{Meta: stdMeta()}
						for k := 0; k < n; k++ {
							sv := mk([]string{"only", "other"}[k])
							sv.Scope = scope
							cfg.Services = append(cfg.Services, sv)
						}
						ops := []ProbeOp{op("get", "only"), op("get", "only"), opCtx("getctx", "A", "only"), opCtx("getctx", "A", "only"), opCtx("getctx", "B", "only"), op("get", "only"), op("counters", "")}
						cases = append(cases, &BCase{ID: fmt.Sprintf("few-services/n=%d/scope=%d/creation=%d", n, si, ci), Cfg: cfg, Sessions: []BSession{{Ops: ops}}})
					}
				}
			}
			// the scope of a service without a declared scope follows what it depends on NOW: a dependency replaced at run
			// time by one of another scope changes it (dependants not yet constructed)
			for oi, ovScope := range []string{"", "shared", "contextual", "non_shared"} {
				for di, depScope := range []*string{nil, P("shared"), P("contextual"), P("non_shared")} {
					for _, via := range []string{"argument", "field", "call", "decorator", "tagged"} {
						cfg := &Cfg{Meta: stdMeta()}
						dep := Service{Name: "dep", Constructor: P("pk.New1"), Scope: depScope}
						user := Service{Name: "user", Constructor: P("pk.New2")}
						switch via {
						case "argument":
							user.Args = []any{"@dep"}
						case "field":
							user.Fields = []KV{{"F1", "@dep"}}
						case "call":
							user.Calls = []Call{{Method: "Set1", Args: []any{"@dep"}}}
						case "decorator":
							user.Tags = []Tag{{Name: "dtag"}}
							cfg.Decorators = []Decorator{{Tag: "dtag", Decorator: "pk2.Dec1", Args: []any{"@dep"}}}
						case "tagged":
							dep.Tags = []Tag{{Name: "deps"}}
							user.Args = []any{"!tagged deps"}
						}
						cfg.Services = []Service{dep, user, {Name: "top", Constructor: P("pk.New3"), Args: []any{"@user"}}}
						spec := &ProbeSpec{Kind: "ctor", Ctor: "fx/pk.New", Args: []any{"replacement"}, Scope: ovScope}
						if via == "tagged" {
							spec.Tags = []string{"deps"}
						}
						ov := ProbeOp{Op: "overrideService", Name: "dep", Val: spec}
						after := []ProbeOp{opCtx("getctx", "A", "top"), opCtx("getctx", "A", "user"), opCtx("getctx", "B", "user"), op("get", "user"), op("get", "user"), opCtx("getctx", "A", "dep"), opCtx("getctx", "B", "top"), op("get", "top"), op("counters", "")}
						cases = append(cases, &BCase{ID: fmt.Sprintf("override-changes-scope/replacement=%d/declared=%d/%s", oi, di, via), Cfg: cfg, Sessions: []BSession{
							{Ops: append([]ProbeOp{ov}, after...)},
							{Ops: after},
						}})
					}
				}
			}
			reps := [][][2]int{{{0, 1}, {1, 2}}, {{0, 1}, {0, 2}}, {{0, 2}, {1, 2}}}
			for gi, es := range dags3 {
				kinds := make([]int, len(es))
				scopeVecs(3, func(sc []int) {
					if w.Env.Quick() && gi%4 != 0 && !(len(es) == 2 && gi%2 == 0) {
						return // quick: every fourth DAG plus half of the 2-edge DAGs
					}
					addHist(fmt.Sprintf("hist/g%d/ctor/scopes=%v", gi, sc), es, kinds, append([]int{}, sc...))
				})
			}
			// creation variety: the same histories with value-created and type-only services
			c05creation = 1
			for ri, es := range reps {
				kinds := []int{1, 1} // edges realised as fields: value-created and type-only services take no arguments
				scopeVecs(3, func(sc []int) {
					addHist(fmt.Sprintf("hist/rep%d/mixed-creation/scopes=%v", ri, sc), es, kinds, append([]int{}, sc...))
				})
			}
			c05creation = 0
			for ri, es := range reps {
				for k := 1; k < len(c05kinds); k++ {
					kinds := []int{k, k}
					scopeVecs(3, func(sc []int) {
						addHist(fmt.Sprintf("hist/rep%d/%s/scopes=%v", ri, c05kinds[k], sc), es, kinds, append([]int{}, sc...))
					})
				}
			}
			for i := 0; i < len(cases); i += 24 {
				j := i + 24
				if j > len(cases) {
					j = len(cases)
				}
				batch := cases[i:j]
				w.Case(fmt.Sprintf("hist/batch%d", i), func(c *C) {
					for _, bc := range batch {
						c.Distinct("nontrivial", bc.ID)
						c.Distinct("hist_configs", bc.ID)
					}
					outs, err := w.RunBehaviour(batch)
					histOracle(c, "identity-mismatch")(c, outs, err)
					if i == 0 {
						c.Sample(map[string]any{"case": batch[0].ID, "yaml": batch[0].Cfg.YAML(), "history": batch[0].Sessions[len(batch[0].Sessions)-1].Ops})
					}
				})
			}
		},
	})
}
