package checks

import (
	"fmt"
	"sort"
	"strings"
	"time"

	. "github.com/gontainer/gontainer/xverif/core"
)

// C07 — dependency cycles are detected, exactly. All edge sets with up to k atoms over 3 services, 2 tags,
// 2 decorators, 3 parameters; the oracle is an independent reachability computation on the reference
// relation of the statement.

type c07atom struct {
	kind string // ss, req, carry, on, ds, dt, pp
	a, b int
}

var c07atoms []c07atom

func init() {
	for a := 0; a < 3; a++ {
		for b := 0; b < 3; b++ {
			c07atoms = append(c07atoms, c07atom{"ss", a, b})
		}
	}
	for a := 0; a < 3; a++ {
		for t := 0; t < 2; t++ {
			c07atoms = append(c07atoms, c07atom{"req", a, t})
		}
	}
	for a := 0; a < 3; a++ {
		for t := 0; t < 2; t++ {
			c07atoms = append(c07atoms, c07atom{"carry", a, t})
		}
	}
	for d := 0; d < 2; d++ {
		for t := 0; t < 2; t++ {
			c07atoms = append(c07atoms, c07atom{"on", d, t})
		}
	}
	for d := 0; d < 2; d++ {
		for s := 0; s < 3; s++ {
			c07atoms = append(c07atoms, c07atom{"ds", d, s})
		}
	}
	for d := 0; d < 2; d++ {
		for t := 0; t < 2; t++ {
			c07atoms = append(c07atoms, c07atom{"dt", d, t})
		}
	}
	for a := 0; a < 3; a++ {
		for b := 0; b < 3; b++ {
			c07atoms = append(c07atoms, c07atom{"pp", a, b})
		}
	}
}

var (
	// names that are prefixes / substrings of one another, and that differ in case only
	c07svc = []string{"sa", "sab", "Sa"}
	c07tag = []string{"tx", "txy"}
	c07par = []string{"pa", "pab", "p"}
)

func (a c07atom) String() string {
	switch a.kind {
	case "ss":
		return c07svc[a.a] + "->@" + c07svc[a.b]
	case "req":
		return c07svc[a.a] + " requests !tagged " + c07tag[a.b]
	case "carry":
		return c07svc[a.a] + " carries " + c07tag[a.b]
	case "on":
		return fmt.Sprintf("d%d on %s", a.a, c07tag[a.b])
	case "ds":
		return fmt.Sprintf("d%d->@%s", a.a, c07svc[a.b])
	case "dt":
		return fmt.Sprintf("d%d requests !tagged %s", a.a, c07tag[a.b])
	case "pp":
		return c07par[a.a] + "->%" + c07par[a.b] + "%"
	}
	return "?"
}

// c07model is everything the oracle needs, computed from the atoms (never from the YAML).
type c07model struct {
	cfg *Cfg
	// fine-grained graph over the node names the tool prints
	fine map[string]map[string]bool
	// coarse reference relation of the statement over services and params
	coarse map[string]map[string]bool
}

func addEdge(g map[string]map[string]bool, a, b string) {
	if g[a] == nil {
		g[a] = map[string]bool{}
	}
	g[a][b] = true
}

// c07svcStyle: how the three services are created (0: constructor; 1: value + fields / withers; 2: type only + calls)
var c07svcStyle = 0

// c07pctStyle: parameter patterns in which "%%" and function chunks touch the references
var c07pctStyle = false

// c07repStyle: parameter patterns that name one parameter several times before and between the references that matter
var c07repStyle = false

func c07build(atoms []c07atom, paramStyle int) c07model {
	m := c07model{cfg: &Cfg{}, fine: map[string]map[string]bool{}, coarse: map[string]map[string]bool{}}
	svcArgs := make([][]any, 3)
	svcTags := make([][]Tag, 3)
	parDeps := make([][]int, 3)
	type dec struct {
		d, tag int
	}
	var decs []dec
	decArgs := make([][]any, 2)
	carriers := map[int][]int{}
	for _, a := range atoms {
		switch a.kind {
		case "ss":
			svcArgs[a.a] = append(svcArgs[a.a], "@"+c07svc[a.b])
		case "req":
			svcArgs[a.a] = append(svcArgs[a.a], "!tagged "+c07tag[a.b])
		case "carry":
			svcTags[a.a] = append(svcTags[a.a], Tag{Name: c07tag[a.b]})
			carriers[a.b] = append(carriers[a.b], a.a)
		case "on":
			decs = append(decs, dec{a.a, a.b})
		case "ds":
			decArgs[a.a] = append(decArgs[a.a], "@"+c07svc[a.b])
		case "dt":
			decArgs[a.a] = append(decArgs[a.a], "!tagged "+c07tag[a.b])
		case "pp":
			parDeps[a.a] = append(parDeps[a.a], a.b)
		}
	}
	// a decorator with dependencies but no "on" atom is attached to a tag nobody carries
	hasOn := map[int]bool{}
	for _, d := range decs {
		hasOn[d.d] = true
	}
	type decEntry struct {
		d   int
		tag string
	}
	var entries []decEntry
	for _, d := range decs {
		entries = append(entries, decEntry{d.d, c07tag[d.tag]})
	}
	for d := 0; d < 2; d++ {
		if !hasOn[d] && len(decArgs[d]) > 0 {
			entries = append(entries, decEntry{d, "tunused"})
		}
	}
	sort.SliceStable(entries, func(i, j int) bool {
		if paramStyle >= 4 {
			return entries[i].d > entries[j].d
		}
		return entries[i].d < entries[j].d
	})
	for i := 0; i < 3; i++ {
		s := Service{Name: c07svc[i], Constructor: P("NewThing"), Args: svcArgs[i], Tags: svcTags[i]}
		// spread the references over argument kinds: arguments / call / field, by position
		if len(svcArgs[i]) >= 2 {
			s.Args = svcArgs[i][:1]
			s.Calls = []Call{{Method: "Set", Args: svcArgs[i][1:2]}}
			for k, a := range svcArgs[i][2:] {
				s.Fields = append(s.Fields, KV{fmt.Sprintf("F%d", k), a})
			}
		}
		switch c07svcStyle {
		case 1:
			// created from a value: no constructor arguments; the references alternate between fields and calls
			s = Service{Name: c07svc[i], Value: P("Thing{}"), Tags: svcTags[i]}
			for k, a := range svcArgs[i] {
				if k%2 == 0 {
					s.Fields = append(s.Fields, KV{fmt.Sprintf("F%d", k), a})
				} else {
					s.Calls = append(s.Calls, Call{Method: "With", Args: []any{a}, Immutable: P(true)})
				}
			}
		case 2:
			// type only + calls, every reference repeated in a second call
			s = Service{Name: c07svc[i], Type: P("Thing"), Tags: svcTags[i]}
			for _, a := range svcArgs[i] {
				s.Calls = append(s.Calls, Call{Method: "Set", Args: []any{1, a}}, Call{Method: "Set", Args: []any{a}})
			}
		}
		m.cfg.Services = append(m.cfg.Services, s)
	}
	for i := 0; i < 3; i++ {
		var v any = i + 1
		if len(parDeps[i]) == 1 && paramStyle%4 == 0 {
			v = "%" + c07par[parDeps[i][0]] + "%"
		} else if len(parDeps[i]) >= 1 && paramStyle%4 >= 2 {
			// every referenced parameter occurs twice (style 2) or three times (style 3) in the pattern
			var sb strings.Builder
			for rep := 0; rep < paramStyle%4; rep++ {
				for _, d := range parDeps[i] {
					sb.WriteString("<%" + c07par[d] + "%>")
				}
			}
			v = sb.String()
		} else if len(parDeps[i]) >= 1 {
			var sb strings.Builder
			sb.WriteString("x")
			for _, d := range parDeps[i] {
				sb.WriteString("%" + c07par[d] + "%-")
			}
			v = sb.String()
		}
		if c07pctStyle && len(parDeps[i]) >= 1 {
			// escaped percent signs and function chunks right next to the references: "%%" + a parameter name that is NOT
			// referenced + the real references back to back, closed by a function chunk
			var sb strings.Builder
			sb.WriteString(`%envInt("C07", 1)%`)
			for _, d := range parDeps[i] {
				sb.WriteString("%%" + c07par[(d+1)%3] + "%" + c07par[d] + "%")
			}
			sb.WriteString(`%env("C07", "e")%` + c07par[(i+1)%3] + `%env("C07", "f")%%%`)
			v = sb.String()
		}
		if c07repStyle && len(parDeps[i]) >= 1 {
			// an unrelated leaf parameter named twice, then every real reference, then every real reference once more
			var sb strings.Builder
			sb.WriteString("1%unit% - 5%unit% ")
			for _, d := range parDeps[i] {
				sb.WriteString("(%" + c07par[d] + "%)")
			}
			for _, d := range parDeps[i] {
				sb.WriteString("[%" + c07par[d] + "%]%unit%")
			}
			v = sb.String()
		}
		m.cfg.Params = append(m.cfg.Params, Param{c07par[i], v})
	}
	if c07repStyle {
		m.cfg.Params = append(m.cfg.Params, Param{"unit", "u"})
	}
	// declaration order: decorator 0's entries first (style < 4) or last (style >= 4)
	sort.SliceStable(entries, func(i, j int) bool {
		if paramStyle >= 4 {
			return entries[i].d > entries[j].d
		}
		return entries[i].d < entries[j].d
	})
	for _, e := range entries {
		m.cfg.Decorators = append(m.cfg.Decorators, Decorator{Tag: e.tag, Decorator: fmt.Sprintf("Decorate%d", e.d), Args: decArgs[e.d]})
	}
	// fine graph (node names as printed by the tool)
	S := func(i int) string { return "@" + c07svc[i] }
	T := func(t string) string { return "!tagged " + t }
	DT := func(t string) string { return "decorate(!tagged " + t + ")" }
	D := func(i int) string { return fmt.Sprintf("decorator(#%d)", i) }
	PN := func(i int) string { return "%" + c07par[i] + "%" }
	for _, a := range atoms {
		switch a.kind {
		case "ss":
			addEdge(m.fine, S(a.a), S(a.b))
		case "req":
			addEdge(m.fine, S(a.a), T(c07tag[a.b]))
		case "carry":
			addEdge(m.fine, T(c07tag[a.b]), S(a.a))
			addEdge(m.fine, S(a.a), DT(c07tag[a.b]))
		case "pp":
			addEdge(m.fine, PN(a.a), PN(a.b))
		}
	}
	for idx, e := range entries {
		addEdge(m.fine, DT(e.tag), D(idx))
		for _, a := range atoms {
			if a.kind == "ds" && a.a == e.d {
				addEdge(m.fine, D(idx), S(a.b))
			}
			if a.kind == "dt" && a.a == e.d {
				addEdge(m.fine, D(idx), T(c07tag[a.b]))
			}
		}
	}
	// coarse relation, straight from the statement
	for _, a := range atoms {
		switch a.kind {
		case "ss":
			addEdge(m.coarse, S(a.a), S(a.b))
		case "req":
			for _, c := range carriers[a.b] {
				addEdge(m.coarse, S(a.a), S(c))
			}
		case "pp":
			addEdge(m.coarse, PN(a.a), PN(a.b))
		}
	}
	for _, on := range decs {
		for _, c := range carriers[on.tag] { // every service carrying the decorator's tag ...
			for _, a := range atoms { // ... depends on the decorator's dependencies
				if a.kind == "ds" && a.a == on.d {
					addEdge(m.coarse, S(c), S(a.b))
				}
				if a.kind == "dt" && a.a == on.d {
					for _, c2 := range carriers[a.b] {
						addEdge(m.coarse, S(c), S(c2))
					}
				}
			}
		}
	}
	return m
}

func reach(g map[string]map[string]bool, from string) map[string]bool {
	seen := map[string]bool{}
	var st []string
	for n := range g[from] {
		st = append(st, n)
	}
	for len(st) > 0 {
		n := st[len(st)-1]
		st = st[:len(st)-1]
		if seen[n] {
			continue
		}
		seen[n] = true
		for k := range g[n] {
			st = append(st, k)
		}
	}
	return seen
}

// onCycle returns the nodes of g that lie on a cycle.
func onCycle(g map[string]map[string]bool) []string {
	var r []string
	for n := range g {
		if reach(g, n)[n] {
			r = append(r, n)
		}
	}
	sort.Strings(r)
	return r
}

func c07eval(w *W, c *C, atoms []c07atom, style int) { c07evalWith(w, c, atoms, style, "") }

// c07evalWith: the same verdict with defects of other classes (scope rule, missing parameter, missing service)
// next to the graph under test, on elements that are disjoint from it: the cycle report must not depend on them.
func c07evalWith(w *W, c *C, atoms []c07atom, style int, extra string) {
	m := c07build(atoms, style)
	allowed := []string{"output.ValidateCircularDeps:"}
	if strings.Contains(extra, "scope") {
		m.cfg.Services = append(m.cfg.Services,
			Service{Name: "aaShared", Constructor: P("NewThing"), Scope: P("shared"), Args: []any{"@aaCtx"}},
			Service{Name: "aaCtx", Constructor: P("NewThing"), Scope: P("contextual")})
		allowed = append(allowed, "output.ValidateServicesScopes:")
	}
	if strings.Contains(extra, "param") {
		m.cfg.Services = append(m.cfg.Services, Service{Name: "aaNeedsParam", Constructor: P("NewThing"), Args: []any{"%aaNoSuchParam%"}})
		m.cfg.Params = append(m.cfg.Params, Param{"aaDangling", "x%aaNoSuchParam2%"})
		allowed = append(allowed, "output.ValidateParamsExist:")
	}
	if strings.Contains(extra, "service") {
		m.cfg.Services = append(m.cfg.Services, Service{Name: "aaNeedsSvc", Constructor: P("NewThing"), Args: []any{"@aaNoSuchService"}})
		allowed = append(allowed, "output.ValidateServicesExist:")
	}
	y := m.cfg.YAML()
	files := []File{{"c.yaml", y}}
	br := w.Build(files)
	names := make([]string, len(atoms))
	for i, a := range atoms {
		names[i] = a.String()
	}
	desc := strings.Join(names, "; ")
	if br.Panic != "" {
		c.Violation("panic", "tool panicked on "+desc+":\n"+br.Panic, FilesMap(files), nil)
		return
	}
	cyc := onCycle(m.coarse)
	lines := ErrorLines(br.Out)
	cl := LinesWithPrefix(lines, "output.ValidateCircularDeps:")
	c.Distinct("all", c.ID)
	if len(cyc) > 0 {
		c.Distinct("nontrivial", c.ID)
		c.Count("cyclic")
	} else {
		c.Count("acyclic")
	}
	for _, l := range lines {
		ok := false
		for _, a := range allowed {
			ok = ok || strings.HasPrefix(l, a)
		}
		if !ok {
			c.Violation("foreign-diagnostic", "unexpected diagnostic for "+desc+": "+l, FilesMap(files), nil)
		}
	}
	if extra != "" {
		desc += " [next to defects of other classes: " + extra + "]"
		for _, a := range allowed[1:] {
			if len(LinesWithPrefix(lines, a)) == 0 {
				c.Violation("co-defect-not-reported", "the defect of class "+a+" placed next to ("+desc+") is not reported:\n"+br.Out, FilesMap(files), nil)
			}
		}
	}
	if len(cyc) == 0 {
		if (extra == "" && br.Exit != 0) || (extra != "" && br.Exit == 0) || len(cl) > 0 {
			c.Violation("acyclic-rejected", "acyclic configuration ("+desc+") rejected:\n"+br.Out, FilesMap(files), nil)
		}
		return
	}
	if br.Exit == 0 {
		c.Violation("cyclic-accepted", "cyclic configuration accepted: "+desc+"; on a cycle: "+strings.Join(cyc, ", "), FilesMap(files), nil)
		return
	}
	// every reported line is a closed walk of the fine relation
	covered := map[string]bool{}
	for _, l := range cl {
		body := strings.TrimPrefix(l, "output.ValidateCircularDeps: ")
		nodes := strings.Split(body, " -> ")
		ok := len(nodes) >= 2 && nodes[0] == nodes[len(nodes)-1]
		for i := 0; ok && i+1 < len(nodes); i++ {
			if !m.fine[nodes[i]][nodes[i+1]] {
				ok = false
			}
		}
		if !ok {
			c.Violation("reported-walk-not-a-cycle", "reported line is not a closed walk of the dependency relation ("+desc+"): "+l, FilesMap(files), nil)
		}
		for _, n := range nodes {
			covered[n] = true
		}
	}
	for _, n := range cyc {
		if !covered[n] {
			c.Violation("cycle-element-not-shown", fmt.Sprintf("%s lies on a cycle (%s) but no reported cycle goes through it:\n%s", n, desc, strings.Join(cl, "\n")), FilesMap(files), nil)
		}
	}
}

func combos(n, k int, f func(idx []int)) {
	idx := make([]int, k)
	var rec func(pos, start int)
	rec = func(pos, start int) {
		if pos == k {
			f(idx)
			return
		}
		for i := start; i < n; i++ {
			idx[pos] = i
			rec(pos+1, i+1)
		}
	}
	rec(0, 0)
}

func init() {
	Register(&Check{
		ID:    "C07",
		Level: "exploration",
		Rule: "all sets of <= k of the 44 edge atoms over {3 services, 2 tags, 2 decorators, 3 parameters}: s->@s' (9), s requests !tagged t (6), s carries t (6), decorator on tag (4), decorator->@s (6), decorator requests !tagged t (4), p->%p'% (9); k=3 quick, k=5 thorough; plus all 512 parameter graphs in five realisations (single chunk, multi-chunk, every reference twice, every reference three times, references squeezed between %% and function chunks next to names that are not references), both declaration orders of the decorators and all 512 service @-graphs (services created by a constructor, from a value with fields and withers, from a type only with calls); " +
			"non-trivial = the reference relation has a cycle; distinct = distinct atom set",
		Assumptions: []string{
			"oracle: own reachability on the relation of the statement; every reported line is checked edge by edge against an independently built fine-grained graph (tag / decorator pseudo-nodes as the tool prints them)",
			"run-time half: every acyclic atom set of size <= 1 (thorough <= 2; quick a quarter of the pairs) and every acyclic parameter graph is compiled and executed (CircularDeps(), GetParam and Get of everything) against the reference model",
		},
		BudgetQuick: 200 * time.Second, BudgetThorough: 1200 * time.Second,
		Prepare: PrepareUniverse,
		Run: func(w *W) {
			k := 3
			if !w.Env.Quick() {
				k = 5
			}
			n := len(c07atoms)
			for size := 0; size <= k; size++ {
				combos(n, size, func(idx []int) {
					id := fmt.Sprintf("k%d/%v", size, idx)
					sel := make([]c07atom, len(idx))
					for i, x := range idx {
						sel[i] = c07atoms[x]
					}
					both := false
					d0, d1 := false, false
					for _, a := range sel {
						if a.kind == "on" || a.kind == "ds" || a.kind == "dt" {
							if a.a == 0 {
								d0 = true
							} else {
								d1 = true
							}
						}
					}
					both = d0 && d1
					if both {
						w.Case(id+"/reversed-decorators", func(c *C) { c07eval(w, c, sel, 4) })
					}
					w.Case(id, func(c *C) {
						c07eval(w, c, sel, 0)
						if size == 3 && idx[0] == 1 && idx[1] == 12 && idx[2] == 40 {
							c.Sample(map[string]any{"atoms": fmt.Sprint(sel), "yaml": c07build(sel, 0).cfg.YAML()})
						}
					})
				})
			}
			// all 512 parameter graphs once more, the references squeezed between escaped percent signs and function chunks
			for mask := 0; mask < 512; mask++ {
				var sel []c07atom
				for b := 0; b < 9; b++ {
					if mask&(1<<uint(b)) != 0 {
						sel = append(sel, c07atom{"pp", b / 3, b % 3})
					}
				}
				w.Case(fmt.Sprintf("params/percent-neighbours/%03x", mask), func(c *C) {
					c07pctStyle = true
					defer func() { c07pctStyle = false }()
					c07eval(w, c, sel, 1)
				})
			}
			// ... and once more with repeated references: a leaf parameter named twice in front, every reference given twice
			for mask := 0; mask < 512; mask++ {
				var sel []c07atom
				for b := 0; b < 9; b++ {
					if mask&(1<<uint(b)) != 0 {
						sel = append(sel, c07atom{"pp", b / 3, b % 3})
					}
				}
				w.Case(fmt.Sprintf("params/repeated-references/%03x", mask), func(c *C) {
					c07repStyle = true
					defer func() { c07repStyle = false }()
					c07eval(w, c, sel, 1)
				})
			}
			// the same relation over services created from a value or a type only: all 512 service graphs and every atom
			// set of size <= 2
			for _, style := range []int{1, 2} {
				style := style
				for mask := 0; mask < 512; mask++ {
					var sel []c07atom
					for b := 0; b < 9; b++ {
						if mask&(1<<uint(b)) != 0 {
							sel = append(sel, c07atom{"ss", b / 3, b % 3})
						}
					}
					w.Case(fmt.Sprintf("services-style%d/%03x", style, mask), func(c *C) {
						c07svcStyle = style
						defer func() { c07svcStyle = 0 }()
						c07eval(w, c, sel, 0)
					})
				}
				for size := 1; size <= 2; size++ {
					combos(n, size, func(idx []int) {
						sel := make([]c07atom, len(idx))
						for i, x := range idx {
							sel[i] = c07atoms[x]
						}
						w.Case(fmt.Sprintf("style%d/k%d/%v", style, size, idx), func(c *C) {
							c07svcStyle = style
							defer func() { c07svcStyle = 0 }()
							c07eval(w, c, sel, 0)
						})
					})
				}
			}
			// cyclic and acyclic relations however the YAML presents them (tags as aliased objects, merged mappings ...)
			for mi, idx := range [][]int{{}, {0}, {1, 3}, {9, 15}, {10, 16, 22}, {21, 27, 33}, {35, 39}, {36, 40, 43}} {
				mi, idx := mi, idx
				w.Case(fmt.Sprintf("yaml-presentation/%d", mi), func(c *C) {
					sel := make([]c07atom, len(idx))
					for i, x := range idx {
						sel[i] = c07atoms[x]
					}
					m := c07build(sel, 1)
					// tags in the object form, so that names and priorities are values that can be aliased / merged
					for i := range m.cfg.Services {
						for j := range m.cfg.Services[i].Tags {
							m.cfg.Services[i].Tags[j].Priority = P(10*i + j + 1)
						}
					}
					c.Distinct("all", c.ID)
					w.ShapeInvariance(c, c.ID, []File{{"c.yaml", m.cfg.YAML()}})
					w.NameInvariance(c, c.ID, m.cfg)
				})
			}
			// defects of other classes next to the graph: every atom set of size <= 2 x {scope, missing parameter,
			// missing service, all three}; all parameter graphs with all three
			for size := 0; size <= 2; size++ {
				combos(n, size, func(idx []int) {
					sel := make([]c07atom, len(idx))
					for i, x := range idx {
						sel[i] = c07atoms[x]
					}
					for _, extra := range []string{"scope", "param", "service", "scope+param+service"} {
						extra := extra
						w.Case(fmt.Sprintf("with-%s/k%d/%v", extra, size, idx), func(c *C) { c07evalWith(w, c, sel, 0, extra) })
					}
				})
			}
			for mask := 0; mask < 512; mask++ {
				var sel []c07atom
				for b := 0; b < 9; b++ {
					if mask&(1<<uint(b)) != 0 {
						sel = append(sel, c07atom{"pp", b / 3, b % 3})
					}
				}
				w.Case(fmt.Sprintf("with-all/params/%03x", mask), func(c *C) { c07evalWith(w, c, sel, 1, "scope+param+service") })
			}
			// all parameter graphs, both realisations; all service @ graphs
			for style := 0; style < 4; style++ {
				for mask := 0; mask < 512; mask++ {
					var sel []c07atom
					for b := 0; b < 9; b++ {
						if mask&(1<<uint(b)) != 0 {
							sel = append(sel, c07atom{"pp", b / 3, b % 3})
						}
					}
					style := style
					w.Case(fmt.Sprintf("params/style%d/%03x", style, mask), func(c *C) { c07eval(w, c, sel, style) })
				}
			}
			for mask := 0; mask < 512; mask++ {
				var sel []c07atom
				for b := 0; b < 9; b++ {
					if mask&(1<<uint(b)) != 0 {
						sel = append(sel, c07atom{"ss", b / 3, b % 3})
					}
				}
				w.Case(fmt.Sprintf("services/%03x", mask), func(c *C) { c07eval(w, c, sel, 0) })
			}
			// run-time half for accepted configurations: CircularDeps() is nil, every parameter and service is
			// obtainable (a missed parameter cycle would deadlock: the probe's 300 s limit reports it as a hang)
			var accepted []*BCase
			addProbe := func(id string, sel []c07atom, style int) {
				m := c07build(sel, style)
				if len(onCycle(m.coarse)) > 0 {
					return
				}
				cfg := m.cfg
				cfg.Meta = stdMeta()
				for i := range cfg.Services {
					cfg.Services[i].Constructor = P("pk.New")
				}
				for i := range cfg.Decorators {
					cfg.Decorators[i].Decorator = "pk2.Dec" + string(rune('1'+i%3))
				}
				ops := []ProbeOp{op("circ", "")}
				for _, p := range c07par {
					ops = append(ops, op("param", p))
				}
				for _, sv := range c07svc {
					ops = append(ops, op("get", sv))
				}
				accepted = append(accepted, &BCase{ID: id, Cfg: cfg, Sessions: []BSession{{Ops: ops}}})
			}
			// a decorator attached to "*" (which the grammar accepts and no service carries): whatever it is given, an accepted
			// container reports no cycle and builds everything
			for si, starArgs := range [][]any{{"@" + c07svc[0]}, {"!tagged " + c07tag[0]}, {"@" + c07svc[1], "@" + c07svc[2], "%" + c07par[0] + "%"}, nil} {
				for _, idx := range [][]int{{}, {0 + 9 + 6}, {9, 15}} {
					sel := make([]c07atom, len(idx))
					for i, x := range idx {
						sel[i] = c07atoms[x]
					}
					before := len(accepted)
					addProbe(fmt.Sprintf("probe-star/%d/%v", si, idx), sel, 0)
					if len(accepted) > before {
						bc := accepted[len(accepted)-1]
						bc.Cfg.Decorators = append(bc.Cfg.Decorators, Decorator{Tag: "*", Decorator: "pk2.Dec1", Args: starArgs})
					}
				}
			}
			for size := 0; size <= 2; size++ {
				combos(n, size, func(idx []int) {
					if size == 2 && w.Env.Quick() && (idx[0]+idx[1])%4 != 0 {
						return // quick: a quarter of the pairs
					}
					sel := make([]c07atom, len(idx))
					for i, x := range idx {
						sel[i] = c07atoms[x]
					}
					addProbe(fmt.Sprintf("probe/k%d/%v", size, idx), sel, 0)
				})
			}
			for mask := 0; mask < 512; mask++ {
				var sel []c07atom
				for b := 0; b < 9; b++ {
					if mask&(1<<uint(b)) != 0 {
						sel = append(sel, c07atom{"pp", b / 3, b % 3})
					}
				}
				addProbe(fmt.Sprintf("probe/params/%03x", mask), sel, 1)
			}
			runBatches(w, "c07probe", accepted, 40, behaviourOracle)
			// the longest elementary tag/decorator chains (6 atoms) through every assignment of roles
			for s1 := 0; s1 < 3; s1++ {
				for s2 := 0; s2 < 3; s2++ {
					for s3 := 0; s3 < 3; s3++ {
						for t := 0; t < 2; t++ {
							for d := 0; d < 2; d++ {
								sel := []c07atom{{"req", s1, t}, {"carry", s2, t}, {"carry", s2, 1 - t}, {"on", d, 1 - t}, {"ds", d, s3}, {"ss", s3, s1}}
								w.Case(fmt.Sprintf("chain6/%d%d%d/t%d/d%d", s1, s2, s3, t, d), func(c *C) { c07eval(w, c, sel, 0) })
								sel2 := []c07atom{{"carry", s1, t}, {"on", d, t}, {"dt", d, 1 - t}, {"carry", s2, 1 - t}, {"ss", s2, s3}, {"ss", s3, s1}}
								w.Case(fmt.Sprintf("chain6b/%d%d%d/t%d/d%d", s1, s2, s3, t, d), func(c *C) { c07eval(w, c, sel2, 0) })
							}
						}
					}
				}
			}
		},
	})
}
