package checks

import (
	"fmt"
	"math"
	"strings"
	"time"

	. "github.com/gontainer/gontainer/xverif/core"
)

// C02 — the generated container builds each service exactly as declared. Every (position, argument form)
// singly (quick) and in pairs (thorough), all call words of length <= 3, all creation methods; executed
// in a probe against the real runtime and compared with the reference model.

type c02form struct {
	id  string
	val any
}

func c02forms() []c02form {
	return []c02form{
		{"int", 5}, {"negint", -3}, {"zero", 0}, {"uint64max", uint64(math.MaxUint64)}, {"float", 2.5}, {"floatexp", 1e21}, {"floatprecise", 1.2345678901234567e+25}, {"floatmax", math.MaxFloat64}, {"floatnegbig", -9.87654321987654321e+200}, {"float17digits", 0.12345678901234568}, {"negfloat", -0.25},
		{"true", true}, {"false", false}, {"null", nil}, {"empty", ""}, {"lit", "plain text"}, {"lit-quote", `say "hi"\n`}, {"lit-unicode", "zażółć 😀"},
		{"svc", "@dep"}, {"svc-nonshared", "@depNS"},
		{"value-var", "!value pk.Var"}, {"value-const", "!value pk.Const"}, {"value-chain", `!value "fx/pk".VarVal.F1`},
		{"value-ptr-struct", "!value &pk.Obj{}"}, {"value-struct", "!value pk.Obj{}"}, {"value-valstruct", `!value "fx/pk2".Val{}`},
		{"value-unquoted-path", "!value fx/pk2.Const"}, {"value-local", `!value ".".Var`}, {"value-local-bare", "!value Const"},
		{"value-tab", "!value\tpk2.Var"},
		{"value-addr-varval", "!value &pk.VarVal"}, {"value-addr-local-varval", `!value &".".VarVal`}, {"value-addr-quoted-varval", `!value &"fx/pk2".VarVal`},
		{"value-ptr-valstruct", "!value &pk2.Val{}"}, {"value-ptr-local-struct", `!value &".".Obj{}`}, {"value-local-chain", `!value ".".VarVal.F1`},
		{"env-empty-default", `%env("C02_EMPTY", "fallback")%`}, {"env-empty", `%env("C02_EMPTY")%`}, {"env-set", `%env("C02_SET")%`}, {"envint-set", `%envInt("C02_INT")%`},
		{"env-unset-default", `%env("C02_UNSET", "dflt")%`}, {"env-in-multi", `<%env("C02_EMPTY", "fb")%|%env("C02_SET")%|%envInt("C02_UNSET", 3)%>`},
		{"gontainer", "$gontainer"},
		{"p-int", "%pInt%"}, {"p-str", "%pStr%"}, {"p-nil", "%pNil%"}, {"p-bool", "%pBool%"}, {"p-float", "%pFloat%"}, {"p-uint", "%pUint%"}, {"p-multi", "%pMulti%"},
		{"multi", "x%pInt%-%pStr%|%pNil%|%pBool%|%pFloat%"}, {"pct", "100%%"}, {"pct-only", "%%"}, {"fn", `%fnStr("a", 1)%`}, {"fn-int", `%fnInt()%`}, {"fn-in-multi", `<%fnInt(1, 2)%>`}, {"fn-typed", `%fnTyped(1, 2, 3, "x")%`}, {"fn-typed-variadic-in-multi", `<%fnTyped(-7, 2.5, 255, "", 1, 2.5)%>`},
		{"tagged", "!tagged tg"}, {"tagged-empty", "!tagged nobody"}, {"tagged-spaces", "!tagged \t tg"},
		{"near-value", "!valueX"}, {"near-gontainer", "$gontainerx"}, {"near-svc", " @dep"}, {"near-tagged", "!taggedx"}, {"near-bang", "!"}, {"near-dollar", "$"},
	}
}

var c02positions = []string{"ctor0", "ctor1", "fieldF1", "fieldf3", "call", "wither", "decorator"}

func c02base(local bool) *Cfg {
	c := &Cfg{Meta: stdMeta()}
	c.Params = []Param{{"pInt", 7}, {"pStr", "v"}, {"pNil", nil}, {"pBool", true}, {"pFloat", 0.5}, {"pUint", uint64(math.MaxUint64)}, {"pMulti", "a%pInt%b"}}
	c.Services = []Service{
		{Name: "dep", Constructor: P("pk.New"), Args: []any{"dep-arg"}},
		{Name: "depNS", Constructor: P("pk2.NewVal"), Scope: P("non_shared")},
		{Name: "ta", Constructor: P("pk.New1"), Tags: []Tag{{Name: "tg"}}},
		{Name: "tb", Constructor: P("pk.New2"), Tags: []Tag{{Name: "tg", Priority: P(5)}}},
	}
	return c
}

func c02place(s *Service, cfg *Cfg, pos string, v any) {
	switch pos {
	case "ctor0":
		s.Args = append([]any{v}, s.Args...)
	case "ctor1":
		if len(s.Args) == 0 {
			s.Args = []any{"first"}
		}
		s.Args = append(s.Args, v)
	case "fieldF1":
		s.Fields = append(s.Fields, KV{"F1", v})
	case "fieldf3":
		s.Fields = append(s.Fields, KV{"f3", v})
	case "call":
		s.Calls = append(s.Calls, Call{Method: "Set1", Args: []any{"c", v}})
	case "wither":
		s.Calls = append(s.Calls, Call{Method: "With1", Args: []any{v}, Immutable: P(true)})
	case "decorator":
		has := false
		for _, t := range s.Tags {
			if t.Name == "dtag" {
				has = true
			}
		}
		if !has {
			s.Tags = append(s.Tags, Tag{Name: "dtag"})
		}
		cfg.Decorators = append(cfg.Decorators, Decorator{Tag: "dtag", Decorator: "pk2.Dec1", Args: []any{v}})
	}
}

func usesLocal(vals ...any) bool {
	for _, v := range vals {
		if s, ok := v.(string); ok && (strings.Contains(s, `"."`) || s == "!value Const") {
			return true
		}
	}
	return false
}

// environment of every C02 session: one variable set, one set to the empty string, one integer, one unset
var c02env = map[string]string{"C02_SET": "from-env", "C02_EMPTY": "", "C02_INT": "42"}

var c02ops = []ProbeOp{op("get", "sut"), op("get", "sut"), op("get", "dep"), opTag("tagged", "tg"), opCtx("getctx", "A", "sut"), op("counters", "")}

func c02cases(quick bool) []*BCase {
	var cases []*BCase
	forms := c02forms()
	add := func(id string, cfg *Cfg, local bool) {
		cases = append(cases, &BCase{ID: id, Cfg: cfg, Local: local, Sessions: []BSession{{Ops: c02ops, Env: c02env}}})
	}
	// every (position, form) singly
	for _, pos := range c02positions {
		for _, f := range forms {
			cfg := c02base(false)
			s := Service{Name: "sut", Constructor: P("pk.New")}
			c02place(&s, cfg, pos, f.val)
			cfg.Services = append(cfg.Services, s)
			add("pos="+pos+"/form="+f.id, cfg, usesLocal(f.val))
		}
	}
	// thorough: every pair of (position, form) on one service
	if !quick {
		type pf struct {
			pos string
			f   c02form
		}
		var all []pf
		for _, pos := range c02positions {
			for _, f := range forms {
				all = append(all, pf{pos, f})
			}
		}
		for i := 0; i < len(all); i++ {
			for j := i + 1; j < len(all); j++ {
				a, b := all[i], all[j]
				if a.pos == b.pos && (a.pos == "fieldF1" || a.pos == "fieldf3") {
					continue // one mapping key
				}
				cfg := c02base(false)
				s := Service{Name: "sut", Constructor: P("pk.New")}
				c02place(&s, cfg, a.pos, a.f.val)
				c02place(&s, cfg, b.pos, b.f.val)
				cfg.Services = append(cfg.Services, s)
				add(fmt.Sprintf("pair/%s=%s/%s=%s", a.pos, a.f.id, b.pos, b.f.id), cfg, usesLocal(a.f.val, b.f.val))
			}
		}
	}
	// all call words of length <= 3 over {Set1, Set2, With1!, With2!} on pointer and value receivers
	methods := []Call{{Method: "Set1"}, {Method: "Set2"}, {Method: "With1", Immutable: P(true)}, {Method: "With2", Immutable: P(true)}}
	var words [][]int
	var gen func(cur []int)
	gen = func(cur []int) {
		words = append(words, append([]int{}, cur...))
		if len(cur) == 3 {
			return
		}
		for m := range methods {
			gen(append(cur, m))
		}
	}
	gen(nil)
	for _, recv := range []string{"pk.New", "pk2.NewVal", "value:pk.Obj{}", "value:&pk2.Obj{}", "type:pk.Val"} {
		for _, wd := range words {
			cfg := c02base(false)
			s := Service{Name: "sut"}
			switch {
			case strings.HasPrefix(recv, "value:"):
				s.Value = P(strings.TrimPrefix(recv, "value:"))
			case strings.HasPrefix(recv, "type:"):
				s.Type = P(strings.TrimPrefix(recv, "type:"))
			default:
				s.Constructor = P(recv)
			}
			name := ""
			for k, mi := range wd {
				c := methods[mi]
				c.Args = []any{k, "%pStr%"}
				if k == 1 {
					c.Args = []any{"@dep"}
				}
				s.Calls = append(s.Calls, c)
				name += c.Method[:1] + c.Method[len(c.Method)-1:]
			}
			// a field must be visible in the object that comes out of the call chain
			s.Fields = []KV{{"F2", "field-before-calls"}}
			cfg.Services = append(cfg.Services, s)
			add("calls/"+recv+"/"+name, cfg, false)
		}
	}
	// the same call words with the service mentioned again in a later file (which appends one more call, a field and a
	// tag): what the earlier file declared - order, withers, arguments - is kept as declared
	for _, recv := range []string{"pk.New", "value:pk.Obj{}"} {
		for _, wd := range words {
			if len(wd) == 0 {
				continue
			}
			first := c02base(false)
			s := Service{Name: "sut"}
			if strings.HasPrefix(recv, "value:") {
				s.Value = P(strings.TrimPrefix(recv, "value:"))
			} else {
				s.Constructor = P(recv)
			}
			name := ""
			for k, mi := range wd {
				c := methods[mi]
				c.Args = []any{k, "%pStr%"}
				s.Calls = append(s.Calls, c)
				name += c.Method[:1] + c.Method[len(c.Method)-1:]
			}
			s.Fields = []KV{{"F2", "field-before-calls"}}
			first.Services = append(first.Services, s)
			later := &Cfg{Services: []Service{{Name: "sut", Calls: []Call{{Method: "Set2", Args: []any{"from the later file"}}}, Fields: []KV{{"F1", "later-field"}}, Tags: []Tag{{Name: "tg", Priority: P(-2)}}}}}
			merged := c02base(false)
			ms := s
			ms.Calls = append(append([]Call{}, s.Calls...), later.Services[0].Calls...)
			ms.Fields = append(append([]KV{}, s.Fields...), later.Services[0].Fields...)
			ms.Tags = later.Services[0].Tags
			merged.Services = append(merged.Services, ms)
			cases = append(cases, &BCase{ID: "calls-then-later-file/" + recv + "/" + name, Cfg: merged,
				Files: []File{{"a.yaml", first.YAML()}, {"b.yaml", later.YAML()}}, Sessions: []BSession{{Ops: c02ops}}})
		}
	}
	// call shapes: 1-element form, explicit false, wither called as a plain call
	for i, calls := range [][]Call{
		{{Method: "Set1", NoArgs: true}},
		{{Method: "Set1", Args: []any{1}, Immutable: P(false)}},
		{{Method: "With1", Args: []any{1}}},
		{{Method: "With1", Args: []any{1}, Immutable: P(false)}, {Method: "Set2", Args: []any{}}},
	} {
		cfg := c02base(false)
		cfg.Services = append(cfg.Services, Service{Name: "sut", Constructor: P("pk.New"), Calls: calls})
		add(fmt.Sprintf("callshape/%d", i), cfg, false)
	}
	// creation methods x type / scope / getter / import form
	creations := []struct {
		id string
		s  Service
	}{
		{"ctor-ptr", Service{Constructor: P("pk.New"), Args: []any{1}}},
		{"ctor-val", Service{Constructor: P("pk.NewVal"), Args: []any{1}}},
		{"ctor-err-ok", Service{Constructor: P("pk.NewE"), Args: []any{"fine"}}},
		{"ctor-iface", Service{Constructor: P("pk.NewIface")}},
		{"ctor-quoted", Service{Constructor: P(`"fx/pk".New3`)}},
		{"ctor-unquoted-path", Service{Constructor: P(`fx/a/pkg.New4`)}},
		{"ctor-dash-path", Service{Constructor: P(`"fx/p-k.g".New`)}},
		{"ctor-local", Service{Constructor: P(`New`)}},
		{"ctor-local-dot", Service{Constructor: P(`".".NewVal`)}},
		{"value-var", Service{Value: P("pk.Var")}},
		{"value-var-field-call", Service{Value: P("pk2.Var"), Fields: []KV{{"F1", 1}}, Calls: []Call{{Method: "Set1", Args: []any{"on-global"}}}}},
		{"value-varval", Service{Value: P("pk.VarVal")}},
		{"value-ptr-struct", Service{Value: P("&pk.Obj{}")}},
		{"value-struct", Service{Value: P("pk.Obj{}")}},
		{"value-val-struct", Service{Value: P(`"fx/pk2".Val{}`), Fields: []KV{{"F1", "x"}, {"f3", "@dep"}}}},
		{"value-const", Service{Value: P("pk.Const")}},
		{"value-chain", Service{Value: P(`"fx/pk".VarVal.F1`)}},
		{"value-local", Service{Value: P(`".".Var`)}},
		{"value-typed", Service{Value: P("&pk.Obj{}"), Type: P("*pk.Obj")}},
		{"value-varval-zero-fields", Service{Value: P("pk.VarVal"), Fields: []KV{{"F1", nil}, {"F2", 0}}}},
		{"value-varval-false-empty-fields", Service{Value: P("pk2.VarVal"), Fields: []KV{{"F1", false}, {"F2", ""}, {"f3", 0.0}}}},
		{"value-struct-zero-fields", Service{Value: P("pk.Obj{}"), Fields: []KV{{"F1", nil}, {"F2", false}}}},
		{"type-zero-fields", Service{Type: P("pk.Val"), Fields: []KV{{"F1", 0}, {"F2", nil}}}},
		{"value-addr-varval", Service{Value: P("&pk.VarVal")}},
		{"value-addr-local-varval", Service{Value: P(`&".".VarVal`)}},
		{"value-ptr-valstruct", Service{Value: P(`&"fx/pk2".Val{}`), Fields: []KV{{"F1", "x"}}}},
		{"type-val", Service{Type: P("pk.Val"), Fields: []KV{{"F1", "@dep"}, {"F2", 2}}}},
		{"type-obj", Service{Type: P("pk2.Obj")}},
		{"type-ptr", Service{Type: P("*pk.Obj")}},
		{"type-iface", Service{Type: P("pk.Iface")}},
		{"type-and-ctor", Service{Type: P("*pk.Obj"), Constructor: P("pk.New")}},
	}
	for _, cr := range creations {
		for _, scope := range []*string{nil, P("shared"), P("non_shared"), P("contextual")} {
			cfg := c02base(false)
			s := cr.s
			s.Name = "sut"
			s.Scope = scope
			cfg.Services = append(cfg.Services, s)
			local := strings.Contains(cr.id, "local")
			sc := "unset"
			if scope != nil {
				sc = *scope
			}
			add("create/"+cr.id+"/scope="+sc, cfg, local)
		}
	}
	// values that print alike but differ in type, all in one build (across services, fields, calls, decorators)
	{
		cfg := c02base(false)
		look := []any{5, "5", true, "true", 2.5, "2.5", nil, "<nil>", "nil", 0, "0", false, "false", "", "%pInt%", 7, "7", uint64(math.MaxUint64), "18446744073709551615", -3, "-3"}
		cfg.Services = append(cfg.Services,
			Service{Name: "sut", Constructor: P("pk.New"), Args: look},
			Service{Name: "sut2", Constructor: P("pk2.New"), Args: []any{"5", 5, "true", true}, Fields: []KV{{"F1", "2.5"}, {"F2", 2.5}, {"f3", "<nil>"}}, Calls: []Call{{Method: "Set1", Args: []any{"7", 7, nil, "0", 0}}}, Tags: []Tag{{Name: "dtag"}}},
		)
		cfg.Decorators = []Decorator{{Tag: "dtag", Decorator: "pk.Dec1", Args: []any{"false", false, "-3", -3}}}
		cases = append(cases, &BCase{ID: "lookalike-literals", Cfg: cfg, Sessions: []BSession{{Ops: []ProbeOp{op("get", "sut"), op("get", "sut2")}}}})
		rev := c02base(false)
		var r []any
		for i := len(look) - 1; i >= 0; i-- {
			r = append(r, look[i])
		}
		rev.Services = append(rev.Services, Service{Name: "sut", Constructor: P("pk.New"), Args: r})
		cases = append(cases, &BCase{ID: "lookalike-literals-reversed", Cfg: rev, Sessions: []BSession{{Ops: []ProbeOp{op("get", "sut")}}}})
	}
	// error paths: todo, failing constructor, dependency on a todo / failing service, failing decorator
	errs := []struct {
		id   string
		svcs []Service
		decs []Decorator
	}{
		{"todo", []Service{{Name: "sut", Todo: P(true)}}, nil},
		{"todo-with-attrs", []Service{{Name: "sut", Todo: P(true), Constructor: P("pk.New"), Tags: []Tag{{Name: "tg"}}}}, nil},
		{"ctor-fails", []Service{{Name: "sut", Constructor: P("pk.NewE"), Args: []any{"fail"}}}, nil},
		{"dep-todo", []Service{{Name: "td", Todo: P(true)}, {Name: "sut", Constructor: P("pk.New"), Args: []any{"@td"}}}, nil},
		{"dep-fails", []Service{{Name: "fd", Constructor: P("pk.NewE"), Args: []any{"fail"}}, {Name: "sut", Constructor: P("pk.New"), Fields: []KV{{"F1", "@fd"}}}}, nil},
		{"call-dep-fails", []Service{{Name: "fd", Constructor: P("pk.NewE"), Args: []any{"fail"}}, {Name: "sut", Constructor: P("pk.New"), Calls: []Call{{Method: "Set1", Args: []any{"@fd"}}}}}, nil},
		{"param-todo-arg", []Service{{Name: "sut", Constructor: P("pk.New"), Args: []any{"%pTodo%"}}}, nil},
		{"fn-fails-arg", []Service{{Name: "sut", Constructor: P("pk.New"), Args: []any{`%fnE("fail")%`}}}, nil},
		{"decorator-fails", []Service{{Name: "sut", Constructor: P("pk.New"), Tags: []Tag{{Name: "dtag"}}}}, []Decorator{{Tag: "dtag", Decorator: "pk.DecE", Args: []any{"fail"}}}},
		{"tagged-member-fails", []Service{{Name: "fd", Constructor: P("pk.NewE"), Args: []any{"fail"}, Tags: []Tag{{Name: "tg"}}}, {Name: "sut", Constructor: P("pk.New"), Args: []any{"!tagged tg"}}}, nil},
	}
	for _, e := range errs {
		cfg := c02base(false)
		cfg.Params = append(cfg.Params, Param{"pTodo", `%todo("later")%`})
		cfg.Services = append(cfg.Services, e.svcs...)
		cfg.Decorators = e.decs
		add("error/"+e.id, cfg, false)
	}
	// the same texts under alias tables that denote other packages, built one after the other in one process: every text
	// means what ITS configuration's table says
	for ri, imports := range [][]KV{{{"pk", "fx/pk"}, {"pk2", "fx/pk2"}}, {{"pk", "fx/pk2"}, {"pk2", "fx/pk"}}, {{"pk", "fx/ab"}, {"pk2", "fx/a/pkg"}}, {{"pk", "fx/pk"}, {"pk2", "fx/pk2"}}} {
		cfg := &Cfg{Meta: &Meta{Imports: imports, Functions: []KV{{"fnStr", "pk.FnStr"}, {"fnInt", "pk2.FnInt"}}},
			Params: []Param{{"pInt", 7}, {"pStr", "v"}, {"pf", `%fnStr("a")%-%fnInt()%`}}}
		cfg.Services = []Service{
			{Name: "dep", Constructor: P("pk.New"), Args: []any{"dep-arg"}},
			{Name: "sut", Constructor: P("pk2.New1"), Args: []any{"!value pk.Var", "!value &pk2.Obj{}", "@dep", "%pf%"}, Fields: []KV{{"F1", "!value pk2.Const"}},
				Calls: []Call{{Method: "Set1", Args: []any{"!value pk.VarVal"}}, {Method: "With1", Args: []any{"!value pk.Const"}, Immutable: P(true)}}, Tags: []Tag{{Name: "dtag"}}},
			{Name: "val", Value: P("pk.Obj{}"), Type: P("pk.Obj"), Getter: P("GetVal")},
		}
		cfg.Decorators = []Decorator{{Tag: "dtag", Decorator: "pk2.Dec1", Args: []any{"!value pk.Const"}}}
		cases = append(cases, &BCase{ID: fmt.Sprintf("alias-table-changes-between-builds/%d", ri), Cfg: cfg, Sessions: []BSession{{Ops: []ProbeOp{op("get", "sut"), op("get", "val"), op("getter", "GetVal"), op("param", "pf"), op("get", "dep")}}}})
	}
	// a pattern that fails at a later chunk, then (after the override) the same and other multi-chunk patterns
	{
		cfg := c02base(false)
		cfg.Params = append(cfg.Params, Param{"pTodo", `%todo("later")%`}, Param{"pUrl", "https://%pStr%/%pTodo%"}, Param{"pPort", "p%pInt%"})
		cfg.Services = append(cfg.Services,
			Service{Name: "sut", Constructor: P("pk.New"), Args: []any{"a-%pStr%-%pTodo%-z", "b-%pInt%"}, Scope: P("non_shared")},
			Service{Name: "other", Constructor: P("pk.New1"), Args: []any{"o-%pInt%-%pStr%"}, Fields: []KV{{"F1", "f%pPort%"}}, Scope: P("non_shared")})
		ov := ProbeOp{Op: "overrideParam", Name: "pTodo", Val: &ProbeSpec{Kind: "value", V: "now"}}
		cases = append(cases, &BCase{ID: "error/pattern-fails-then-other-patterns", Cfg: cfg, Sessions: []BSession{
			{Ops: []ProbeOp{op("get", "sut"), op("get", "other"), op("param", "pUrl"), op("param", "pPort"), op("get", "other"), ov, op("get", "sut"), op("param", "pUrl"), op("get", "other")}, Env: c02env},
			{Ops: []ProbeOp{op("param", "pUrl"), op("param", "pPort"), op("param", "pUrl"), op("param", "pMulti"), ov, op("param", "pPort"), op("param", "pUrl")}, Env: c02env},
		}})
	}
	// a parameter of every literal type replaced at run time, then instances created afterwards: whatever refers to the
	// parameter (alone in an argument, a field, a call, a decorator argument, inside a longer text, through another
	// parameter) is evaluated when the instance is created, not when the container was generated
	{
		cfg := c02base(false)
		cfg.Params = append(cfg.Params, Param{"viaInt", "%pInt%"}, Param{"viaBool", "%pBool%"})
		cfg.Services = append(cfg.Services,
			Service{Name: "sut", Constructor: P("pk.New"), Args: []any{"%pInt%", "%pBool%", "%pFloat%", "%pNil%", "%pStr%", "%pUint%"}, Fields: []KV{{"F1", "%pInt%"}, {"F2", "%pBool%"}}, Calls: []Call{{Method: "Set1", Args: []any{"%pInt%", "%pNil%"}}, {Method: "With1", Args: []any{"%pBool%"}, Immutable: P(true)}}, Scope: P("non_shared"), Tags: []Tag{{Name: "dtag"}}},
			Service{Name: "glued", Constructor: P("pk.New1"), Args: []any{"<%pInt%|%pBool%|%pFloat%>", "%viaInt%", "%viaBool%"}, Scope: P("non_shared")},
			Service{Name: "shared", Constructor: P("pk.New2"), Args: []any{"%pInt%", "%pBool%"}})
		cfg.Decorators = []Decorator{{Tag: "dtag", Decorator: "pk.Dec1", Args: []any{"%pInt%", "%pBool%"}}}
		ovs := []ProbeOp{
			{Op: "overrideParam", Name: "pInt", Val: &ProbeSpec{Kind: "provider", V: map[string]any{"int": 9090}}},
			{Op: "overrideParam", Name: "pBool", Val: &ProbeSpec{Kind: "value", V: false}},
			{Op: "overrideParam", Name: "pFloat", Val: &ProbeSpec{Kind: "value", V: 2.25}},
			{Op: "overrideParam", Name: "pNil", Val: &ProbeSpec{Kind: "value", V: "no longer nil"}},
			{Op: "overrideParam", Name: "pStr", Val: &ProbeSpec{Kind: "provider", V: map[string]any{"int": 5}}},
			{Op: "overrideParam", Name: "pUint", Val: &ProbeSpec{Kind: "value", V: "one"}},
		}
		var s1, s2 []ProbeOp
		s1 = append(s1, ovs...)
		s1 = append(s1, op("get", "sut"), op("get", "glued"), op("get", "shared"), op("param", "viaInt"), op("param", "pInt"))
		s2 = append(s2, op("get", "sut"), op("get", "shared"))
		s2 = append(s2, ovs...)
		s2 = append(s2, op("get", "sut"), op("get", "glued"), op("get", "shared"), op("param", "pBool"))
		cases = append(cases, &BCase{ID: "override/every-literal-type-then-new-instances", Cfg: cfg, Sessions: []BSession{{Ops: s1, Env: c02env}, {Ops: s2, Env: c02env}}})
	}
	// the todo marker (and its withdrawal) arriving from a later file
	{
		cfg := c02base(false)
		cfg.Services = append(cfg.Services, Service{Name: "sut", Todo: P(true)}, Service{Name: "done", Constructor: P("pk.New3"), Args: []any{"finished"}, Todo: P(false)}, Service{Name: "user", Constructor: P("pk.New"), Args: []any{"@sut"}})
		f1 := c02base(false)
		f1.Services = append(f1.Services, Service{Name: "sut", Constructor: P("pk.New"), Args: []any{"real"}, Todo: P(false)}, Service{Name: "done", Todo: P(true)}, Service{Name: "user", Constructor: P("pk.New"), Args: []any{"@sut"}})
		f2 := &Cfg{Services: []Service{{Name: "sut", Todo: P(true)}, {Name: "done", Constructor: P("pk.New3"), Args: []any{"finished"}, Todo: P(false)}}}
		cases = append(cases, &BCase{ID: "error/todo-from-later-file", Cfg: cfg, Files: []File{{"a.yaml", f1.YAML()}, {"b.yaml", f2.YAML()}},
			Sessions: []BSession{{Ops: []ProbeOp{op("get", "sut"), op("get", "user"), op("get", "done"), op("get", "dep")}}}})
	}
	return cases
}

func init() {
	Register(&Check{
		ID:    "C02",
		Level: "exploration",
		Rule: "every (argument position in {ctor arg 0, ctor arg 1, field F1, unexported field f3, call arg, wither arg, decorator arg}) x (argument form: ints, uint64 max, floats, bools, null, strings incl. quotes/unicode, @service, @non_shared service, ten !value forms, $gontainer, %param% of every literal type, multi-chunk, %%, %fn()%, !tagged, near-miss prefixes) singly [thorough: every pair of (position, form)], " +
			"all call words of length <= 3 over {Set1, Set2, With1, With2} on 5 receiver kinds (and on 2 of them with the service extended by a later file), 24 creation methods x 4 scope settings, 10 error paths; each executed in a probe linked with the real runtime, 6 operations per configuration, compared with the reference model; non-trivial/distinct = distinct configuration that was executed",
		Assumptions: []string{
			"the fixture universe (self-describing constructors, withers, decorators) and the reference model are the oracle; the pinned runtime's reflection-based caller/setter are the trusted external library",
			"error texts are compared by content (must contain the documented fragments), not verbatim",
		},
		BudgetQuick: 240 * time.Second, BudgetThorough: 1500 * time.Second,
		Prepare: PrepareUniverse,
		Run: func(w *W) {
			cases := c02cases(w.Env.Quick())
			// what is declared means the same however the YAML presents it (aliased argument lists, merged call / tag objects)
			for _, bc := range cases {
				bc := bc
				if bc.Files != nil || bc.Local || !(strings.HasPrefix(bc.ID, "lookalike") || strings.HasPrefix(bc.ID, "calls/pk.New/") && len(bc.ID) > len("calls/pk.New/")+4 || strings.HasPrefix(bc.ID, "pos=wither/form=multi") || strings.HasPrefix(bc.ID, "error/")) {
					continue
				}
				w.Case("yaml-presentation/"+bc.ID, func(c *C) {
					cfg := *bc.Cfg
					if cfg.Meta.Pkg == nil {
						m := *cfg.Meta
						m.Pkg = P("gen")
						cfg.Meta = &m
					}
					c.Distinct("all", c.ID)
					w.ShapeInvarianceOK(c, bc.ID, []File{{"c.yaml", cfg.YAML()}}, true)
					w.NameInvariance(c, bc.ID, &cfg)
				})
			}
			runBatches(w, "c02", cases, 48, behaviourOracle)
		},
	})
}
