package checks

import (
	"fmt"
	"os"
	"os/exec"
	"path/filepath"
	"strings"
	"time"

	. "github.com/gontainer/gontainer/xverif/core"
)

// C19 — self-hosting fixpoint. The whole (finite) generation history is executed:
// tree -> tool0 -> gen1 (== checked-in file modulo the version line) -> tree' -> tool1 -> gen2 (== gen1) ...

func stripVersionLine(s string) string {
	lines := strings.Split(s, "\n")
	for i, l := range lines {
		if strings.HasPrefix(l, "// gontainer version:") {
			lines[i] = "// gontainer version: <ignored>"
		}
	}
	return strings.Join(lines, "\n")
}

func copyTree(src, dst string) error {
	cmd := exec.Command("rsync", "-a", "--exclude", ".git", src+"/", dst+"/")
	if b, err := cmd.CombinedOutput(); err != nil {
		return fmt.Errorf("rsync: %v: %s", err, b)
	}
	return nil
}

func firstDiff(a, b string) string {
	la, lb := strings.Split(a, "\n"), strings.Split(b, "\n")
	for i := 0; i < len(la) || i < len(lb); i++ {
		var x, y string
		if i < len(la) {
			x = la[i]
		}
		if i < len(lb) {
			y = lb[i]
		}
		if x != y {
			return fmt.Sprintf("first difference at line %d:\n  - %s\n  + %s", i+1, x, y)
		}
	}
	return "identical"
}

func init() {
	Register(&Check{
		ID:    "C19",
		Level: "exploration",
		Rule: "the repository's own configuration through successive generations: build tool from the tree, regenerate internal/gontainer/gontainer.go with the Makefile's patterns, compare with the checked-in file modulo the version line, rebuild the tool with the regenerated file, regenerate, compare (quick: 2 generations + in-process run + stub build; thorough: 3 generations); " +
			"the space is a singleton chain by nature; an evaluation is one generation step, non-trivial = a step whose output was compared byte for byte; distinct = distinct (generation, mode)",
		Assumptions: []string{"go build of a scratch copy of the tree stands for the maintainer's build", "the map-order exploration of the self-configuration is part of C08"},
		Workers:     1,
		BudgetQuick: 300 * time.Second, BudgetThorough: 600 * time.Second,
		Run: func(w *W) {
			w.Case("chain", func(c *C) {
				repo := w.Env.Repo
				checkedIn, err := os.ReadFile(filepath.Join(repo, "internal/gontainer/gontainer.go"))
				if err != nil {
					c.Violation("no-checked-in-file", err.Error(), nil, nil)
					return
				}
				gens := 2
				if !w.Env.Quick() {
					gens = 3
				}
				tree := repo
				prev := ""
				for g := 1; g <= gens; g++ {
					bin := filepath.Join(w.Dir, fmt.Sprintf("tool%d", g-1))
					cmd := exec.Command("go", "build", "-o", bin, ".")
					cmd.Dir = tree
					if b, err := cmd.CombinedOutput(); err != nil {
						c.Violation(fmt.Sprintf("tool%d-does-not-build", g-1), fmt.Sprintf("tool built from generation %d does not compile: %v\n%s", g-1, err, b), nil, nil)
						return
					}
					out := filepath.Join(w.Dir, fmt.Sprintf("gen%d.go", g))
					run := exec.Command(bin, "build", "-i", "internal/gontainer/gontainer.yaml", "-i", "internal/gontainer/gontainer_*.yaml", "-o", out)
					run.Dir = tree
					b, err := run.CombinedOutput()
					c.Count("generations")
					c.Count("evaluations_extra")
					c.Distinct("nontrivial", fmt.Sprintf("gen%d", g))
					if err != nil {
						c.Violation("self-config-rejected", fmt.Sprintf("generation %d: the tool rejects its own configuration: %v\n%s", g, err, b), nil, nil)
						return
					}
					gb, _ := os.ReadFile(out)
					gen := string(gb)
					if g == 1 {
						if stripVersionLine(gen) != stripVersionLine(string(checkedIn)) {
							c.Violation("checked-in-differs", "regenerated gontainer.go differs from the checked-in file (ignoring the version line): "+firstDiff(stripVersionLine(string(checkedIn)), stripVersionLine(gen)), nil, nil)
						}
						c.Sample(map[string]any{"generation": 1, "bytes": len(gen), "sha256": Sha(stripVersionLine(gen)), "patterns": []string{"internal/gontainer/gontainer.yaml", "internal/gontainer/gontainer_*.yaml"}})
						// the in-process command gives the same bytes as the binary
						wd, _ := os.Getwd()
						os.Chdir(tree)
						ip := filepath.Join(w.Dir, "inproc.go")
						r := Tool(DefaultVersion, DefaultBuildInfo, "-i", "internal/gontainer/gontainer.yaml", "-i", "internal/gontainer/gontainer_*.yaml", "-o", ip)
						os.Chdir(wd)
						ib, _ := os.ReadFile(ip)
						c.Count("generations")
						c.Count("evaluations_extra")
						c.Distinct("nontrivial", "inproc")
						if !r.OK() || stripVersionLine(string(ib)) != stripVersionLine(gen) {
							c.Violation("inprocess-differs", "in-process command and binary disagree on the self-configuration\n"+r.Out, nil, nil)
						}
						// one process, several builds: the own configuration again, after a stub of itself, after another configuration
						other := &Cfg{Meta: &Meta{Pkg: P("other"), Imports: []KV{{"container", "example.com/x/container"}, {"runner", "example.com/y/runner"}}, Functions: []KV{{"env", "container.Getenv"}, {"up", "runner.Up"}}},
							Params: []Param{{"p", `%up("x")%`}}, Services: []Service{{Name: "printer", Constructor: P("runner.NewPrinter"), Getter: P("GetPrinter"), Type: P("*runner.Printer")}, {Name: "s", Value: P("container.Var")}}}
						os.WriteFile(filepath.Join(w.Dir, "other.yaml"), []byte(other.YAML()), 0o644)
						for hi, before := range [][]string{
							nil,
							{"-i", "internal/gontainer/gontainer.yaml", "-i", "internal/gontainer/gontainer_*.yaml", "-o", filepath.Join(w.Dir, "hist-stub.go"), "--stub"},
							{"-i", filepath.Join(w.Dir, "other.yaml"), "-o", filepath.Join(w.Dir, "hist-other.go")},
							{"-i", filepath.Join(w.Dir, "other.yaml"), "-o", filepath.Join(w.Dir, "hist-other.go"), "--stub", "--ignore-missing-params", "--ignore-missing-services"},
						} {
							os.Chdir(tree)
							if before != nil {
								Tool(DefaultVersion, DefaultBuildInfo, before...)
							}
							hp := filepath.Join(w.Dir, "hist.go")
							os.Remove(hp)
							hr := Tool(DefaultVersion, DefaultBuildInfo, "-i", "internal/gontainer/gontainer.yaml", "-i", "internal/gontainer/gontainer_*.yaml", "-o", hp)
							os.Chdir(wd)
							hb, _ := os.ReadFile(hp)
							c.Count("generations")
							c.Count("evaluations_extra")
							c.Distinct("nontrivial", fmt.Sprintf("history%d", hi))
							if !hr.OK() || stripVersionLine(string(hb)) != stripVersionLine(gen) {
								c.Violation("depends-on-earlier-builds", fmt.Sprintf("the self-configuration built in a process that has built something before (history %d: %v) differs from what a fresh process writes: %s\n%s", hi, before, firstDiff(stripVersionLine(gen), stripVersionLine(string(hb))), tailStr(hr.Out, 600)), nil, nil)
								break
							}
						}
					} else if stripVersionLine(gen) != stripVersionLine(prev) {
						c.Violation(fmt.Sprintf("gen%d-differs", g), fmt.Sprintf("generation %d differs from generation %d: %s", g, g-1, firstDiff(stripVersionLine(prev), stripVersionLine(gen))), nil, nil)
					}
					if g == 1 {
						// how the tool was linked is no input either: the release way (everything stamped), a dirty tree, a
						// pseudo-version - the version comment is the only line that may differ
						for li, ld := range []string{
							"-X main.version=v1.9.0 -X main.commit=0123abcd -X main.date=2024-05-06T07:08:09Z -X main.builtBy=goreleaser",
							"-X main.version=1.9.0+build.7 -X main.isGitDirty=true -X main.date=1714979289",
							"-X main.version=v0.0.0-20231102205301-665205f9fb2c -X main.commit=665205f9fb2c",
						} {
							sb := filepath.Join(w.Dir, fmt.Sprintf("tool-stamped%d", li))
							bc := exec.Command("go", "build", "-ldflags", ld, "-o", sb, ".")
							bc.Dir = tree
							if b, err := bc.CombinedOutput(); err != nil {
								c.Violation("stamped-tool-does-not-build", fmt.Sprintf("go build -ldflags %q: %v\n%s", ld, err, b), nil, nil)
								continue
							}
							so := filepath.Join(w.Dir, "stamped.go")
							os.Remove(so)
							sr := exec.Command(sb, "build", "-i", "internal/gontainer/gontainer.yaml", "-i", "internal/gontainer/gontainer_*.yaml", "-o", so)
							sr.Dir = tree
							b, err := sr.CombinedOutput()
							c.Count("generations")
							c.Count("evaluations_extra")
							c.Distinct("nontrivial", fmt.Sprintf("stamped%d", li))
							got, _ := os.ReadFile(so)
							if err != nil || stripVersionLine(string(got)) != stripVersionLine(gen) {
								c.Violation("stamped-build-differs", fmt.Sprintf("the tool linked with %q does not reproduce the file (ignoring the version line): %v %s\n%s", ld, err, firstDiff(stripVersionLine(gen), stripVersionLine(string(got))), tailStr(string(b), 800)), nil, nil)
							}
							os.Remove(sb)
						}
						// the same files in the same merge order, named differently: one -i per file; one glob for all (gontainer.yaml
						// sorts before gontainer_*.yaml); the Makefile's two patterns with the first one repeated as a dirty path
						ents, _ := filepath.Glob(filepath.Join(repo, "internal/gontainer/gontainer_*.yaml"))
						var each []string
						each = append(each, "-i", "internal/gontainer/gontainer.yaml")
						for _, e := range ents {
							each = append(each, "-i", "internal/gontainer/"+filepath.Base(e))
						}
						forms := map[string][]string{
							"one -i per file": each,
							"single glob":     {"-i", "internal/gontainer/gontainer*.yaml"},
							"uncleaned paths": {"-i", "./internal/gontainer/../gontainer/gontainer.yaml", "-i", "internal//gontainer/gontainer_*.yaml"},
						}
						// the same files reached through symbolic links (per file, and through a linked directory) and by absolute paths
						abs, _ := filepath.Abs(filepath.Join(repo, "internal/gontainer"))
						links := filepath.Join(w.Dir, "links")
						os.RemoveAll(links)
						os.MkdirAll(links, 0o755)
						os.Symlink(filepath.Join(abs, "gontainer.yaml"), filepath.Join(links, "gontainer.yaml"))
						for _, e := range ents {
							os.Symlink(filepath.Join(abs, filepath.Base(e)), filepath.Join(links, filepath.Base(e)))
						}
						dirlink := filepath.Join(w.Dir, "dirlink")
						os.Remove(dirlink)
						os.Symlink(abs, dirlink)
						comma := filepath.Join(w.Dir, "build,linux-amd64 (copy)")
						os.Remove(comma)
						os.Symlink(abs, comma)
						forms["path with a comma, a space and parentheses"] = []string{"-i", filepath.Join(comma, "gontainer.yaml"), "-i", filepath.Join(comma, "gontainer_*.yaml")}
						forms["absolute paths"] = []string{"-i", filepath.Join(abs, "gontainer.yaml"), "-i", filepath.Join(abs, "gontainer_*.yaml")}
						forms["files are symbolic links"] = []string{"-i", filepath.Join(links, "gontainer.yaml"), "-i", filepath.Join(links, "gontainer_*.yaml")}
						forms["directory is a symbolic link"] = []string{"-i", filepath.Join(dirlink, "gontainer.yaml"), "-i", filepath.Join(dirlink, "gontainer_*.yaml")}
						hidden := filepath.Join(w.Dir, ".cache")
						os.Remove(hidden)
						os.Symlink(abs, hidden)
						forms["below a hidden directory"] = []string{"-i", filepath.Join(hidden, "gontainer.yaml"), "-i", filepath.Join(hidden, "gontainer_*.yaml")}
						forms["through a parent directory (..)"] = []string{"-i", abs + "/../gontainer/gontainer.yaml", "-i", abs + "/../gontainer/gontainer_*.yaml"}
						forms["relative, through .. from a sibling directory"] = []string{"cwd=internal/cmd", "-i", "../gontainer/gontainer.yaml", "-i", "../gontainer/gontainer_*.yaml"}
						// the environment is not an input of the self-compilation either
						for ei, env := range [][]string{{"COLUMNS=0"}, {"COLUMNS=24", "LINES=5"}, {"COLUMNS=", "TERM=dumb"}, {"COLUMNS=wide", "NO_COLOR=1"}, {"COLUMNS=100000", "CLICOLOR_FORCE=1", "TZ=Asia/Tokyo", "LANG=tr_TR.UTF-8"}, {"HOME=/nonexistent", "TMPDIR=/nonexistent", "GOFLAGS=-mod=vendor", "GOOS=plan9"},
							{"TMPDIR=/dev/shm"}, {"TMPDIR=/proc/self", "TMP=/proc/self"}, {"TMPDIR=/"}} {
							forms[fmt.Sprintf("environment %d %v", ei, env)] = append([]string{"env=" + strings.Join(env, "\x00")}, "-i", "internal/gontainer/gontainer.yaml", "-i", "internal/gontainer/gontainer_*.yaml")
						}
						for name, args := range forms {
							cwd := tree
							var extraEnv []string
							for len(args) > 0 && (strings.HasPrefix(args[0], "cwd=") || strings.HasPrefix(args[0], "env=")) {
								if strings.HasPrefix(args[0], "cwd=") {
									cwd = filepath.Join(tree, strings.TrimPrefix(args[0], "cwd="))
								} else {
									extraEnv = strings.Split(strings.TrimPrefix(args[0], "env="), "\x00")
								}
								args = args[1:]
							}
							alt := filepath.Join(w.Dir, "alt.go")
							os.Remove(alt)
							run := exec.Command(bin, append(append([]string{"build"}, args...), "-o", alt)...)
							run.Dir = cwd
							if extraEnv != nil {
								run.Env = append([]string{"PATH=/usr/bin:/bin"}, extraEnv...)
							}
							b, err := run.CombinedOutput()
							c.Count("generations")
							c.Count("evaluations_extra")
							c.Distinct("nontrivial", "form:"+name)
							got, _ := os.ReadFile(alt)
							if err != nil || stripVersionLine(string(got)) != stripVersionLine(gen) {
								c.Violation("invocation-form-differs", fmt.Sprintf("naming the same files in the same order as %q (%v) does not reproduce the output of the Makefile's patterns: %v %s\n%s", name, args, err, firstDiff(stripVersionLine(gen), stripVersionLine(string(got))), tailStr(string(b), 1500)), nil, nil)
							}
						}
						// the Makefile's self-compile target writes over the checked-in file: same bytes as to a fresh path
						ip := filepath.Join(w.Dir, "tree-inplace")
						os.RemoveAll(ip)
						if err := copyTree(repo, ip); err != nil {
							panic(err)
						}
						// a checked-in file that is longer than what will be generated (long version line)
						long := strings.Replace(string(checkedIn), "// gontainer version:", "// gontainer version: "+strings.Repeat("x", 300), 1)
						os.WriteFile(filepath.Join(ip, "internal/gontainer/gontainer.go"), []byte(long), 0o644)
						run := exec.Command(bin, "build", "-i", "internal/gontainer/gontainer.yaml", "-i", "internal/gontainer/gontainer_*.yaml", "-o", "internal/gontainer/gontainer.go")
						run.Dir = ip
						b, err := run.CombinedOutput()
						c.Count("generations")
						c.Count("evaluations_extra")
						c.Distinct("nontrivial", "inplace")
						got, _ := os.ReadFile(filepath.Join(ip, "internal/gontainer/gontainer.go"))
						if err != nil || stripVersionLine(string(got)) != stripVersionLine(gen) {
							c.Violation("inplace-differs", fmt.Sprintf("regenerating over the existing internal/gontainer/gontainer.go (as `make self-compile` does) does not give the bytes written to a fresh path: %v %s\n%s", err, firstDiff(stripVersionLine(gen), stripVersionLine(string(got))), b), nil, nil)
						}
						os.RemoveAll(ip)
					}
					prev = gen
					// next tree: scratch copy with the regenerated file
					next := filepath.Join(w.Dir, fmt.Sprintf("tree%d", g))
					os.RemoveAll(next)
					if err := copyTree(repo, next); err != nil {
						panic(err)
					}
					os.WriteFile(filepath.Join(next, "internal/gontainer/gontainer.go"), gb, 0o644)
					if g > 1 {
						os.RemoveAll(tree)
					}
					tree = next
					if g == 1 {
						// stub variant: replaces gontainer.go when built with the tag
						st := filepath.Join(w.Dir, "treestub")
						os.RemoveAll(st)
						copyTree(repo, st)
						os.Remove(filepath.Join(st, "internal/gontainer/gontainer.go"))
						run := exec.Command(bin, "build", "-i", "internal/gontainer/gontainer.yaml", "-i", "internal/gontainer/gontainer_*.yaml", "-o", "internal/gontainer/stub.go", "--stub")
						run.Dir = st
						b, err := run.CombinedOutput()
						c.Count("generations")
						c.Count("evaluations_extra")
						c.Distinct("nontrivial", "stub")
						if err != nil {
							c.Violation("self-stub-rejected", fmt.Sprintf("--stub on the self-configuration fails: %v\n%s", err, b), nil, nil)
						} else {
							bc := exec.Command("go", "build", "-tags", "gontainerstub", "./...")
							bc.Dir = st
							if b, err := bc.CombinedOutput(); err != nil {
								c.Violation("self-stub-does-not-build", fmt.Sprintf("tree with stub.go instead of gontainer.go does not build with -tags gontainerstub: %v\n%s", err, b), nil, nil)
							}
						}
						os.RemoveAll(st)
					}
				}
				os.RemoveAll(tree)
			})
		},
	})
}
