package checks

import (
	"fmt"
	"math/bits"
	"strings"
	"time"

	. "github.com/gontainer/gontainer/xverif/core"
)

// C06 — dangling references are detected, exactly. Every subset of the reference positions of a base
// configuration is made dangling (the reference is renamed to an undeclared name; the original target
// stays declared, so "nothing declared is reported missing" is exercised by the same run).

type c06ref struct {
	id       string // position
	kind     string // "param" | "service"
	referrer string // token that identifies the referrer in a diagnostic
	target   string // declared target
	missing  string // undeclared replacement
}

var c06refs = []c06ref{
	{"param-single", "param", `"%pSingle%"`, "tOne", "nopeOne"},
	{"param-multi", "param", `"%pMulti%"`, "tTwo", "nopeTwo"},
	{"param-after-pct", "param", `"%pAfterPct%"`, "tThree", "nopeThree"},
	{"svc-ctor-param", "param", `"@svcCtor"`, "tFour", "nopeFour"},
	{"svc-call-param", "param", `"@svcCall"`, "tFive", "nopeFive"},
	{"svc-field-param", "param", `"@svcField"`, "tSix", "nopeSix"},
	{"dec-param", "param", `decorator(#0`, "tSeven", "nopeSeven"},
	{"svc-ctor-svc", "service", `"svcCtorS"`, "uEight", "goneEight"},
	{"svc-call-svc", "service", `"svcCallS"`, "uNine", "goneNine"},
	{"svc-field-svc", "service", `"svcFieldS"`, "uTen", "goneTen"},
	{"dec-svc", "service", `decorator(#1`, "uEleven", "goneEleven"},
	{"svc-wither-multi-param", "param", `"@svcWither"`, "tTwelve", "nopeTwelve"},
	{"param-after-function", "param", `"%pAfterFn%"`, "tThirteen", "nopeThirteen"},
	{"svc-arg-after-function", "param", `"@svcAfterFn"`, "tFourteen", "nopeFourteen"},
	{"svc-second-arg-of-first-call-svc", "service", `"svcMulti"`, "uFifteen", "goneFifteen"},
	{"svc-third-arg-of-second-call-param", "param", `"@svcMulti"`, "tSixteen", "nopeSixteen"},
	{"svc-last-field-svc", "service", `"svcMulti"`, "uSeventeen", "goneSeventeen"},
	{"param-inside-quotes", "param", `"%pQuoted%"`, "tEighteen", "nopeEighteen"},
	{"svc-arg-inside-quotes", "param", `"@svcQuoted"`, "tNineteen", "nopeNineteen"},
}

// c06missing: the undeclared name used at position i. Variant 4: the name is declared, but in the other
// namespace (a parameter reference names a declared service and the other way round).
func c06missing(i, variant int) string {
	r := c06refs[i]
	if variant == 4 {
		if r.kind == "param" {
			return "uEight"
		}
		return "tOne"
	}
	if variant == 6 {
		return r.missing + strings.Repeat("x", 70000) // longer than the 64 KiB many line readers stop at
	}
	return r.missing
}

func c06build(dangling uint, variant int) *Cfg {
	name := func(i int) string {
		r := c06refs[i]
		if dangling&(1<<uint(i)) != 0 {
			return c06missing(i, variant)
		}
		return r.target
	}
	c := &Cfg{}
	// targets
	for _, r := range c06refs {
		if r.kind == "param" {
			var v any = 7
			if variant == 1 {
				v = "%todo()%"
			}
			if variant == 2 {
				v = `%todo("later")%`
			}
			if variant == 5 {
				v = nil // a parameter whose value is null is declared
			}
			c.Params = append(c.Params, Param{r.target, v})
		} else {
			s := Service{Name: r.target, Constructor: P("NewThing")}
			if variant == 1 || variant == 2 {
				s = Service{Name: r.target, Todo: P(true)}
			}
			if variant == 5 {
				s = Service{Name: r.target, Value: P("nil"), Todo: P(false)}
			}
			c.Services = append(c.Services, s)
		}
	}
	c.Params = append(c.Params,
		Param{"pSingle", "%" + name(0) + "%"},
		Param{"pMulti", "a-%" + name(1) + "%-b"},
		Param{"pAfterPct", "%%%" + name(2) + "%"},
		Param{"pAfterFn", `%env("C06_HOST", "localhost")%:%` + name(12) + "%"},
		Param{"pQuoted", `--title="%` + name(17) + `%" --x='y'`},
	)
	c.Services = append(c.Services,
		// `todo: false` is a spelling of "not todo": the referrer is checked like any other
		Service{Name: "svcCtor", Constructor: P("NewThing"), Args: []any{1, "%" + name(3) + "%"}, Todo: P(false)},
		// explicit scopes on services that sort after default-scope ones (carrier, svcAfterFn)
		Service{Name: "svcCall", Constructor: P("NewThing"), Calls: []Call{{Method: "Set", Args: []any{"%" + name(4) + "%"}}}, Scope: P("shared")},
		Service{Name: "svcField", Value: P("Thing{}"), Fields: []KV{{"Fa", "%" + name(5) + "%"}}, Scope: P("contextual")},
		Service{Name: "svcCtorS", Constructor: P("NewThing"), Args: []any{"@" + name(7)}, Todo: P(false)},
		Service{Name: "svcCallS", Constructor: P("NewThing"), Calls: []Call{{Method: "Set", Args: []any{true, "@" + name(8)}}}},
		Service{Name: "svcFieldS", Value: P("Thing{}"), Fields: []KV{{"Fb", "@" + name(9)}}},
		Service{Name: "svcWither", Scope: P("non_shared"), Constructor: P("NewThing"), Calls: []Call{{Method: "With", Args: []any{"x%%%" + name(11) + "%:%tOne%"}, Immutable: P(true)}}},
		Service{Name: "svcAfterFn", Constructor: P("NewThing"), Args: []any{`%todo("x")%%envInt("C06_PORT", 1)%-%` + name(13) + `%`}},
		Service{Name: "svcMulti", Constructor: P("NewThing"), Args: []any{"x"},
			Calls:  []Call{{Method: "First", Args: []any{"a", "@" + name(14), "b"}}, {Method: "Second", Args: []any{1, 2, "%" + name(15) + "%"}}, {Method: "Third", Args: []any{"z"}}},
			Fields: []KV{{"Fa", "plain"}, {"Fz", "@" + name(16)}}},
		Service{Name: "svcQuoted", Constructor: P("NewThing"), Args: []any{`say "hi" then password="%` + name(18) + `%"`}},
		Service{Name: "carrier", Constructor: P("NewThing"), Tags: []Tag{{Name: "tagA"}, {Name: "tagB"}}},
	)
	c.Decorators = []Decorator{
		{Tag: "tagA", Decorator: "DecorateA", Args: []any{"%" + name(6) + "%"}},
		{Tag: "tagB", Decorator: "DecorateB", Args: []any{"@" + name(10)}},
	}
	return c
}

func init() {
	Register(&Check{
		ID:    "C06",
		Level: "exploration",
		Rule: "every subset of the 19 reference positions (references inside quotation marks in a parameter and in a service argument; param->param single chunk / multi-chunk / after %%; service ctor, call, field, wither multi-chunk -> param; a reference after a function chunk in a parameter and in a service argument; non-first arguments of several calls followed by fields; decorator -> param; service ctor, call, field -> service; decorator -> service) made dangling, x 5 variants (targets declared as literal / %todo()% + todo:true / %todo(\"msg\")% / null-valued parameters + value services; undeclared names that are declared in the other namespace); " +
			"non-trivial = at least one reference dangling; distinct = distinct (subset, variant)",
		Assumptions: []string{
			"diagnostics are matched by content: rule prefix (output.ValidateParamsExist / output.ValidateServicesExist), the referrer token and the quoted missing name; multiplicity is not compared",
			"run-time half of the statement (an accepted container never reports 'does not exist'): one configuration with zero-valued parameters of every type referenced from every position is executed here against the reference model; beyond that it is observed by the probe-based checks on every accepted configuration they execute",
		},
		BudgetQuick: 120 * time.Second, BudgetThorough: 600 * time.Second,
		Prepare: PrepareUniverse,
		Run: func(w *W) {
			n := len(c06refs)
			// variant 3: the configuration declares no parameter at all (every %param% reference of a service or
			// decorator is then dangling by construction); the service references vary
			for set := uint(0); set < 16; set++ {
				set := set
				w.Case(fmt.Sprintf("v3/no-parameters/set=%x", set), func(c *C) {
					full := uint(0)
					for i, r := range c06refs {
						if r.kind == "param" {
							full |= 1 << uint(i)
						}
					}
					full |= (set & 0xf) << 7
					cfg := c06build(full, 0)
					cfg.Params = nil
					var keep []Service
					for _, s := range cfg.Services {
						keep = append(keep, s)
					}
					cfg.Services = keep
					files := []File{{"c.yaml", cfg.YAML()}}
					br := w.Build(files)
					c.Distinct("all", c.ID)
					c.Distinct("nontrivial", c.ID)
					c.Count("with_dangling")
					if br.Exit == 0 {
						c.Violation("accepted-with-dangling:no-parameters-declared", "no parameter is declared, services and a decorator reference parameters, and the configuration was accepted", FilesMap(files), nil)
						return
					}
					lines := ErrorLines(br.Out)
					for i, r := range c06refs {
						if full&(1<<uint(i)) == 0 || strings.HasPrefix(r.referrer, `"%`) {
							continue // the referrers that are parameters themselves do not exist in this variant
						}
						prefix := "output.ValidateParamsExist:"
						if r.kind == "service" {
							prefix = "output.ValidateServicesExist:"
						}
						found := false
						for _, l := range LinesWithPrefix(lines, prefix) {
							if strings.Contains(l, r.referrer) && strings.Contains(l, `"`+r.missing+`"`) {
								found = true
							}
						}
						if !found {
							c.Violation("unreported:"+r.id+":no-parameters-declared", fmt.Sprintf("dangling reference %s not reported when no parameter is declared:\n%s", r.id, strings.Join(lines, "\n")), FilesMap(files), nil)
						}
					}
				})
			}
			// run-time half: an accepted container never answers "does not exist" for a reference written in the
			// configuration - parameters holding the zero value of every type, referenced from every position
			w.Case("runtime/zero-valued-targets", func(c *C) {
				zeros := []KV{{"zFalse", false}, {"zZero", 0}, {"zEmpty", ""}, {"zNull", nil}, {"zFloat", 0.0}, {"zTrue", true}, {"zOne", 1}}
				cfg := &Cfg{Meta: stdMeta()}
				var ops []ProbeOp
				for _, z := range zeros {
					cfg.Params = append(cfg.Params, Param{z.K, z.V}, Param{z.K + "Alias", "%" + z.K + "%"}, Param{z.K + "Multi", "<%" + z.K + "%>"})
					sv := Service{Name: "s" + z.K, Constructor: P("pk.New"), Args: []any{"%" + z.K + "%", "x%" + z.K + "%"},
						Calls: []Call{{Method: "Set1", Args: []any{"%" + z.K + "%"}}}, Fields: []KV{{"F1", "%" + z.K + "Alias%"}}, Tags: []Tag{{Name: "tg"}}}
					cfg.Services = append(cfg.Services, sv)
					cfg.Decorators = append(cfg.Decorators, Decorator{Tag: "tg", Decorator: "pk.Dec1", Args: []any{"%" + z.K + "%"}})
					ops = append(ops, op("param", z.K), op("param", z.K+"Alias"), op("param", z.K+"Multi"), op("get", "s"+z.K))
				}
				// todo targets are declared as well: what comes back is the documented todo error, not "does not exist"
				cfg.Params = append(cfg.Params, Param{"zTodo", "%todo()%"}, Param{"zTodoUser", "<%zTodo%>"})
				cfg.Services = append(cfg.Services, Service{Name: "tTodo", Todo: P(true)}, Service{Name: "tTodoUser", Constructor: P("pk.New"), Args: []any{"@tTodo", "%zTodo%"}},
					Service{Name: "tTodoLate", Todo: P(true), Constructor: P("pk.New")})
				ops = append(ops, op("param", "zTodo"), op("param", "zTodoUser"), op("get", "tTodo"), op("get", "tTodoUser"), op("get", "tTodoLate"), opTag("tagged", "tg"))
				c.Distinct("all", c.ID)
				c.Distinct("nontrivial", c.ID)
				outs, err := w.RunBehaviour([]*BCase{{ID: c.ID, Cfg: cfg, Sessions: []BSession{{Ops: ops}}}})
				behaviourOracle(c, outs, err)
			})
			w.Case("after-a-run-with-ignore-flags", func(c *C) {
				for _, set := range []uint{0x1, 0x80, 0x4a5} {
					files := []File{{"c.yaml", c06build(set, 0).YAML()}}
					w.Build(files, "--ignore-missing-params", "--ignore-missing-services")
					br := w.Build(files)
					c.Count("evaluations_extra")
					if br.Exit == 0 {
						c.Violation("accepted-with-dangling:after-a-run-with-ignore-flags", fmt.Sprintf("set %x: accepted without flags right after a run of the same process that was given both ignore flags", set), FilesMap(files), nil)
					}
				}
				c.Distinct("all", c.ID)
				c.Distinct("nontrivial", c.ID)
			})
			// the same references, dangling or not, however the YAML presents them (aliased argument lists, merge keys ...)
			for _, set := range []uint{0, 0x1, 0x80, 0x4a5, 0x1ffff} {
				set := set
				w.Case(fmt.Sprintf("yaml-presentation/set=%x", set), func(c *C) {
					c.Distinct("all", c.ID)
					w.ShapeInvarianceOK(c, c.ID, []File{{"c.yaml", c06build(set, 0).YAML()}}, set == 0)
					w.NameInvariance(c, c.ID, c06build(set, 0))
				})
			}
			for _, variant := range []int{0, 1, 2, 4, 5, 6} {
				for set := uint(0); set < 1<<uint(n); set++ {
					if variant == 6 && bits.OnesCount(set) != 1 && set != 0x3 && set != 0x181 {
						continue // very long names: one position at a time and two pairs
					}
					if w.Env.Quick() {
						// quick: every subset of size <= 3 and every complement of one (thorough: all 2^17)
						pc := bits.OnesCount(set)
						if pc > 3 && pc < n-3 {
							continue
						}
					}
					set, variant := set, variant
					w.Case(fmt.Sprintf("v%d/set=%03x", variant, set), func(c *C) {
						cfg := c06build(set, variant)
						y := cfg.YAML()
						files := []File{{"c.yaml", y}}
						br := w.Build(files)
						c.Distinct("all", c.ID)
						if set != 0 {
							c.Distinct("nontrivial", c.ID)
						}
						if set == 0x804 && variant == 0 {
							c.Sample(map[string]any{"dangling": []string{c06refs[2].id, c06refs[11].id}, "yaml": y})
						}
						if br.Panic != "" {
							c.Violation("panic", "tool panicked:\n"+br.Panic, FilesMap(files), nil)
							return
						}
						lines := ErrorLines(br.Out)
						if set == 0 {
							if br.Exit != 0 {
								c.Violation("base-rejected", "configuration without dangling references rejected:\n"+br.Out, FilesMap(files), nil)
							}
							c.Count("accepted")
							return
						}
						c.Count("with_dangling")
						if br.Exit == 0 {
							var which []string
							for i := 0; i < n; i++ {
								if set&(1<<uint(i)) != 0 {
									which = append(which, c06refs[i].id)
								}
							}
							key := "accepted-with-dangling:" + strings.Join(which, "+")
							if len(which) > 1 {
								// attribute to the single positions when each of them alone is (known to be) unreported
								key = "accepted-with-dangling:" + strings.Join(which, "+")
							}
							c.Violation(key, "configuration with dangling references "+strings.Join(which, ", ")+" accepted", FilesMap(files), nil)
							return
						}
						// completeness: each dangling reference reported in its class, naming referrer and missing name
						for i := 0; i < n; i++ {
							r := c06refs[i]
							if set&(1<<uint(i)) == 0 {
								continue
							}
							prefix := "output.ValidateParamsExist:"
							if r.kind == "service" {
								prefix = "output.ValidateServicesExist:"
							}
							found := false
							for _, l := range LinesWithPrefix(lines, prefix) {
								if strings.Contains(l, r.referrer) && strings.Contains(l, `"`+c06missing(i, variant)+`"`) && strings.Contains(l, "does not exist") {
									found = true
								}
							}
							if !found {
								c.Violation("unreported:"+r.id, fmt.Sprintf("dangling reference %s (%s -> %s) not reported by %s naming referrer %s\n%s", r.id, r.referrer, c06missing(i, variant), prefix, r.referrer, br.Out), FilesMap(files), nil)
							}
						}
						// soundness: nothing declared / not dangling is reported; no other class of error
						for _, l := range lines {
							if !strings.HasPrefix(l, "output.ValidateParamsExist:") && !strings.HasPrefix(l, "output.ValidateServicesExist:") {
								c.Violation("foreign-diagnostic", "unexpected diagnostic: "+l, FilesMap(files), nil)
								continue
							}
							ok := false
							for i := 0; i < n; i++ {
								wantPrefix := "output.ValidateParamsExist:"
								if c06refs[i].kind == "service" {
									wantPrefix = "output.ValidateServicesExist:"
								}
								if set&(1<<uint(i)) != 0 && strings.HasPrefix(l, wantPrefix) && strings.Contains(l, `"`+c06missing(i, variant)+`"`) {
									ok = true
								}
							}
							if !ok {
								c.Violation("spurious-missing", "diagnostic names something that is declared or not referenced: "+l, FilesMap(files), nil)
							}
						}
					})
				}
			}
		},
	})
}
