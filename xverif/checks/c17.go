package checks

import (
	"fmt"
	"go/token"
	"math"
	"os"
	"strings"
	"time"

	. "github.com/gontainer/gontainer/xverif/core"
)

// C17 — --stub output has the same API surface as the real output. Pairwise comparison of the two modes
// over C01's factor space (+ rejected configurations), go/types views, types-only universe, and a stub
// probe that calls the constructor and every getter.

func c17rejected() []struct {
	id  string
	cfg *Cfg
} {
	mk := func(f func(c *Cfg)) *Cfg {
		c := &Cfg{Meta: stdMeta(), Params: []Param{{"pInt", 1}}, Services: []Service{{Name: "ok", Constructor: P("pk.New")}}}
		f(c)
		return c
	}
	return []struct {
		id  string
		cfg *Cfg
	}{
		{"grammar", mk(func(c *Cfg) { c.Services = append(c.Services, Service{Name: "1bad", Constructor: P("pk.New")}) })},
		{"missing-param", mk(func(c *Cfg) { c.Services[0].Args = []any{"%nope%"} })},
		{"missing-service", mk(func(c *Cfg) { c.Services[0].Args = []any{"@nope"} })},
		{"cycle", mk(func(c *Cfg) { c.Services[0].Args = []any{"@ok"} })},
		{"scope", mk(func(c *Cfg) {
			c.Services[0].Scope = P("shared")
			c.Services[0].Args = []any{"@ctx"}
			c.Services = append(c.Services, Service{Name: "ctx", Constructor: P("pk.New"), Scope: P("contextual")})
		})},
		{"must-without-getter", mk(func(c *Cfg) { c.Services[0].MustGetter = P(true) })},
		{"token", mk(func(c *Cfg) { c.Params = append(c.Params, Param{"bad", "%unknownFn()%"}) })},
		{"unbalanced", mk(func(c *Cfg) { c.Params = append(c.Params, Param{"bad", "50%"}) })},
		{"formatter", mk(func(c *Cfg) { c.Params = append(c.Params, Param{"bad", "%fnStr(()%"}) })},
		{"no-creation", mk(func(c *Cfg) { c.Services = append(c.Services, Service{Name: "empty"}) })},
	}
}

var c17lits = []struct {
	id string
	v  any
}{
	{"int", 42}, {"float", 2.5}, {"inf", math.Inf(1)}, {"nan", math.NaN()}, {"true", true}, {"null", nil}, {"empty", ""}, {"string", "text"},
	{"newline", "a\nb"}, {"fn-args-on-two-lines", "%env(\"C17_HOST\",\n\"localhost\")%"}, {"fn-args-with-tab-and-cr", "%envInt(\t\"C17_PORT\",\r 80 )%"}, {"fn-args-with-comment-line", "%env(\"A\", // c\n\"b\")%"}, {"newline-decl", "x\nfunc (c *Gontainer) Extra() int { return 1 }"}, {"cr", "a\rb"}, {"comment-end", "a */ b"}, {"comment-start", "// x"},
	{"backtick", "a`b"}, {"nul", "a\x00b"}, {"unicode", "é😀"}, {"quote", `say "hi"`}, {"pct", "100%%"}, {"ref", "%pInt%\n%pStr%"}, {"fn", `%env("A", "d")%`}, {"fn-comment", `%env("A") // x)%`}, {"fn-comment-multi", `a%envInt("A", 1) /* x */%b`}, {"fn-two-calls", `%env("A")("B")%`}, {"fn-binary", `%env("A") + env("B")%`},
}

// c17keySuffix makes the keys of the mode-parity violations specific to one (position, string) of the grammar-boundary family.
var c17keySuffix = ""

// c17flags: flags given to both builds of a pair
var c17flags []string

func init() {
	Register(&Check{
		ID:    "C17",
		Level: "exploration",
		Rule: "pairs (normal, --stub) for every vector of C01's service factor space departing from the base in <= 2 factors (quick) / <= 3 (thorough), C13's getter truth table rows, 20 literal kinds (incl. multi-line strings) x 5 positions, 256 count vectors (0..3 arguments, fields, calls, tags + decorators on one service), 10 rejected configurations of different classes and 10 boundary strings (empty, blank, ...) in each of C11's grammar positions: same verdict, build constraint, identical exported view (types.Identical signatures), stub type-checks against the types-only twin universe and references type names only; " +
			"all single departures compiled with -tags gontainerstub, constructor and every getter called (must panic), package excluded without the tag. non-trivial = accepted pair whose views were compared; distinct = distinct configuration",
		Assumptions: []string{"the types-only twin universe declares the fixture types without any function or variable; a stub that needs more does not type-check against it"},
		BudgetQuick: 240 * time.Second, BudgetThorough: 1200 * time.Second,
		Prepare: PrepareUniverse,
		Run: func(w *W) {
			k := 2
			if !w.Env.Quick() {
				k = 3
			}
			pair := func(c *C, id string, files []File, local bool, wantAccepted *bool) (normal, stub BuildResult, ok bool) {
				fm := FilesMap(files)
				n := w.Build(files, c17flags...)
				s := w.Build(files, append([]string{"--stub"}, c17flags...)...)
				c.Distinct("all", id)
				if n.Panic != "" || s.Panic != "" {
					c.Violation("panic", "tool panicked ("+id+"):\n"+n.Panic+s.Panic, fm, nil)
					return n, s, false
				}
				if (n.Exit == 0) != (s.Exit == 0) {
					c.Violation("verdict-differs"+c17keySuffix, fmt.Sprintf("normal mode exits %d, --stub exits %d (%s)\nnormal:\n%s\nstub:\n%s", n.Exit, s.Exit, id, n.Out, s.Out), fm, nil)
					return n, s, false
				}
				if wantAccepted != nil && *wantAccepted != (n.Exit == 0) {
					c.Violation("unexpected-verdict", fmt.Sprintf("expected accepted=%v (%s):\n%s", *wantAccepted, id, n.Out), fm, nil)
				}
				if n.Exit != 0 {
					c.Count("rejected_pairs")
					// diagnostics of the formatting step quote positions in the generated text, which differs between the modes by
					// design: only diagnostics of the earlier steps are comparable
					fmtStage := func(ls []string) bool {
						for _, l := range ls {
							if strings.HasPrefix(l, "CodeFormatter.") {
								return true
							}
						}
						return false
					}
					if fmtStage(ErrorLines(n.Out)) && fmtStage(ErrorLines(s.Out)) {
						return n, s, false
					}
					if strings.Join(ErrorLines(n.Out), "\n") != strings.Join(ErrorLines(s.Out), "\n") {
						c.Violation("diagnostics-differ"+c17keySuffix, "diagnostics differ between the modes ("+id+")\nnormal:\n"+strings.Join(ErrorLines(n.Out), "\n")+"\nstub:\n"+strings.Join(ErrorLines(s.Out), "\n"), fm, nil)
					}
					return n, s, false
				}
				c.Count("accepted_pairs")
				c.Distinct("nontrivial", id)
				extraN, extraS := map[string]string{}, map[string]string{}
				if local {
					extraN["fixture_local.go"] = LocalFixture("gen", "./gen")
					extraS["fixture_local.go"] = LocalFixtureTypesOnly("gen")
				}
				gn := Analyze(w.TC(false), n.Output, extraN)
				gs := Analyze(w.TC(true), s.Output, extraS)
				if len(gn.Errs) > 0 {
					return n, s, false // C01's business
				}
				if !gs.HasStubTag {
					c.Violation("stub-without-constraint", "--stub output lacks the gontainerstub build constraint ("+id+")", fm, nil)
				}
				if !strings.HasPrefix(strings.TrimLeft(s.Output, "\n"), "//go:build gontainerstub") {
					c.Violation("stub-constraint-not-first", "--stub output does not start with the build constraint ("+id+")", fm, nil)
				}
				if gn.HasStubTag {
					c.Violation("normal-with-constraint", "normal output carries the gontainerstub constraint ("+id+")", fm, nil)
				}
				if len(gs.Errs) > 0 {
					c.Violation("stub-typecheck:"+compilerKey(gs.Errs[0]), "stub does not type-check against the types-only universe ("+id+"):\n"+strings.Join(gs.Errs, "\n"), fm, nil)
					return n, s, false
				}
				if len(gs.UserValueRefs) > 0 {
					c.Violation("stub-references-values", "stub references non-type objects of user packages ("+id+"): "+strings.Join(gs.UserValueRefs, ", "), fm, nil)
				}
				if a, b := gn.ExportedAPI(), gs.ExportedAPI(); a != b {
					c.Violation("api-differs", "exported view differs ("+id+"):\n--- normal\n"+a+"--- stub\n"+b, fm, nil)
				}
				if !gs.GofmtStable {
					c.Violation("stub-not-gofmt-stable", "stub is not gofmt-stable ("+id+")", fm, nil)
				}
				return n, s, true
			}
			c01vectors(k, func(f c01factors) {
				if f[11] == 1 {
					return
				}
				cfg, local, ok := c01cfg(f)
				if !ok {
					return
				}
				id := "svc/" + c01id(f)
				w.Case(id, func(c *C) {
					pair(c, id, c01files(cfg, f[12] == 1), local, nil)
					if id == "svc/getter=1,must_getter=1" {
						c.Sample(map[string]any{"case": id, "yaml": cfg.YAML()})
					}
				})
			})
			for mi, cfg := range manyImportsCfgs() {
				mi, cfg := mi, cfg
				id := fmt.Sprintf("many-imports/%d", mi)
				w.Case(id, func(c *C) { pair(c, id, []File{{"c.yaml", cfg.YAML()}}, false, P(true)) })
			}
			// the ignore flags mean the same with --stub: configurations whose only defects are missing references
			for mi, mk := range []func(c *Cfg){
				func(c *Cfg) { c.Services[0].Args = []any{"%gone%"} },
				func(c *Cfg) { c.Services[0].Fields = []KV{{"F1", "@lost"}} },
				func(c *Cfg) {
					c.Services[0].Args = []any{"%gone%", "@lost"}
					c.Decorators = []Decorator{{Tag: "tg", Decorator: "pk.Dec1", Args: []any{"@lost2", "%gone2%"}}}
				},
			} {
				for _, flags := range [][]string{nil, {"--ignore-missing-params"}, {"--ignore-missing-services"}, {"--ignore-missing-params", "--ignore-missing-services"}} {
					mi, mk, flags := mi, mk, flags
					id := fmt.Sprintf("ignore-flags/%d/%v", mi, flags)
					w.Case(id, func(c *C) {
						cfg := &Cfg{Meta: stdMeta(), Params: []Param{{"p", 1}}, Services: []Service{{Name: "sut", Constructor: P("pk.New"), Getter: P("GetSut"), Tags: []Tag{{Name: "tg"}}}}}
						mk(cfg)
						c17flags = flags
						c17keySuffix = ":ignore-flags"
						defer func() { c17flags, c17keySuffix = nil, "" }()
						pair(c, id, []File{{"c.yaml", cfg.YAML()}}, false, nil)
					})
				}
			}
			// the type of a service without a getter is only printed inside the constructor of the regular output
			for _, x := range []string{"chan", "map", "func", "struct", "interface", "type", "*pk.struct", "pk.type", "*chan"} {
				for ci, mk := range []func(t string) Service{
					func(t string) Service { return Service{Name: "sut", Type: P(t)} },
					func(t string) Service { return Service{Name: "sut", Type: P(t), Value: P("pk.Var")} },
					func(t string) Service { return Service{Name: "sut", Type: P(t), Constructor: P("pk.New")} },
					func(t string) Service {
						return Service{Name: "sut", Type: P(t), Constructor: P("pk.New"), Getter: P("GetSut")}
					},
				} {
					x, ci, mk := x, ci, mk
					id := fmt.Sprintf("keyword-type/%s/creation%d", x, ci)
					w.Case(id, func(c *C) {
						cfg := &Cfg{Meta: stdMeta(), Services: []Service{mk(x), {Name: "other", Constructor: P("pk2.New")}}}
						c17keySuffix = ":keyword-type"
						defer func() { c17keySuffix = "" }()
						pair(c, id, []File{{"c.yaml", cfg.YAML()}}, false, nil)
					})
				}
			}
			// configurations without any service or decorator: what a parameter copies into the generated code (the Go
			// name of a registered function) is checked in both modes all the same
			for _, x := range []string{"type", "func", "go", "map", "range", "FnStr", "9x", "Fn Str", ""} {
				for _, qual := range []string{"pk.", "", `"fx/pk".`} {
					x, qual := x, qual
					id := fmt.Sprintf("parameters-only/function=%s%s", qual, x)
					w.Case(id, func(c *C) {
						cfg := &Cfg{Meta: &Meta{Pkg: P("gen"), Imports: []KV{{"pk", "fx/pk"}}, Functions: []KV{{"foo", qual + x}}}, Params: []Param{{"p", `%foo("a")%`}, {"q", "x%p%"}}}
						c17keySuffix = ":parameters-only"
						defer func() { c17keySuffix = "" }()
						pair(c, id, []File{{"c.yaml", cfg.YAML()}}, false, nil)
					})
				}
			}
			// how many of each: 0..3 arguments, fields, calls and tags on one service (and as many decorators) - accepted in
			// both modes, same API
			for v := 0; v < 256; v++ {
				na, nf, nc, nt := v&3, (v>>2)&3, (v>>4)&3, (v>>6)&3
				id := fmt.Sprintf("counts/args=%d/fields=%d/calls=%d/tags=%d", na, nf, nc, nt)
				w.Case(id, func(c *C) {
					cfg := &Cfg{Meta: stdMeta(), Params: []Param{{"p", 1}}}
					sv := Service{Name: "sut", Constructor: P("pk.New"), Getter: P([]string{"GetSut", "getSut", "sut", "Sut_1"}[v%4]), Type: P("*pk.Obj"), MustGetter: P(v%3 == 0)}
					for i := 0; i < na; i++ {
						sv.Args = append(sv.Args, []any{"%p%", "@dep", 3}[i])
					}
					for i := 0; i < nf; i++ {
						sv.Fields = append(sv.Fields, KV{[]string{"F1", "F2", "f3"}[i], []any{"x%p%", "@dep", nil}[i]})
					}
					for i := 0; i < nc; i++ {
						sv.Calls = append(sv.Calls, []Call{{Method: "Set1", Args: []any{"@dep"}}, {Method: "With1", Args: []any{1, 2}, Immutable: P(true)}, {Method: "Set2", NoArgs: true}}[i])
					}
					for i := 0; i < nt; i++ {
						t := fmt.Sprintf("tg%d", i)
						sv.Tags = append(sv.Tags, Tag{Name: t, Priority: P(i)})
						cfg.Decorators = append(cfg.Decorators, Decorator{Tag: t, Decorator: "pk.Dec1", Args: []any{"%p%", "@dep"}[:i%3]})
					}
					cfg.Services = []Service{sv, {Name: "dep", Constructor: P("pk2.New")}}
					pair(c, id, []File{{"c.yaml", cfg.YAML()}}, false, P(true))
				})
			}
			// several services, each with a type of one of two packages (or none) and with or without a getter, in every
			// combination and hence in every name order of "typed with getter" and "typed without getter" of one package
			{
				types := []*string{nil, P("*pk.Obj"), P("*pk2.Obj")}
				ctors := []string{"pk.New", "pk.New", "pk2.New"}
				for v := 0; v < 6*6*6; v++ {
					v := v
					id := fmt.Sprintf("types-and-getters/%03d", v)
					w.Case(id, func(c *C) {
						cfg := &Cfg{Meta: stdMeta()}
						x := v
						for i, n := range []string{"sa", "sb", "sc"} {
							t, g := x%3, (x/3)%2
							x /= 6
							sv := Service{Name: n, Constructor: P(ctors[t]), Type: types[t]}
							if g == 1 {
								sv.Getter = P(fmt.Sprintf("Get%d", i))
							}
							cfg.Services = append(cfg.Services, sv)
						}
						pair(c, id, []File{{"c.yaml", cfg.YAML()}}, false, P(true))
					})
				}
			}
			// the configuration uses, for values and functions only, the very packages the generated code needs itself
			// (context, errors, fmt, os, reflect, strconv, the runtime's container package): each alone and all together, with
			// and without a getter whose type is of such a package
			{
				own := []Service{
					{Name: "oCtx", Constructor: P("context.Background")},
					{Name: "oErr", Constructor: P("errors.New"), Args: []any{"x"}},
					{Name: "oFmt", Constructor: P("fmt.Sprint"), Args: []any{"x", 1}},
					{Name: "oOs", Constructor: P("os.Getenv"), Args: []any{"HOME"}},
					{Name: "oReflect", Constructor: P("reflect.TypeOf"), Args: []any{1}},
					{Name: "oStrconv", Constructor: P("strconv.Itoa"), Args: []any{5}},
					{Name: "oContainer", Constructor: P("github.com/gontainer/gontainer-helpers/v3/container.New")},
					{Name: "oValue", Value: P("os.Args")},
					{Name: "oArg", Constructor: P("pk.New"), Args: []any{"!value context.Canceled", "!value os.ErrNotExist"}},
				}
				for v := 0; v <= len(own)+1; v++ {
					for g := 0; g < 3; g++ {
						v, g := v, g
						id := fmt.Sprintf("own-packages/%d/getter=%d", v, g)
						w.Case(id, func(c *C) {
							cfg := &Cfg{Meta: stdMeta(), Services: []Service{{Name: "typed", Constructor: P("pk.New"), Getter: P("GetTyped"), Type: P("*pk.Obj")}}}
							switch {
							case v < len(own):
								cfg.Services = append(cfg.Services, own[v])
							case v == len(own):
								cfg.Services = append(cfg.Services, own...)
							}
							switch g {
							case 1:
								cfg.Services = append(cfg.Services, Service{Name: "gCtx", Constructor: P("context.TODO"), Getter: P("GetCtx"), Type: P("context.Context")})
							case 2:
								cfg.Services = append(cfg.Services, Service{Name: "gErr", Constructor: P("errors.New"), Args: []any{"e"}, Getter: P("GetErr"), Type: P("error")}, Service{Name: "gFile", Value: P("os.Stdout"), Getter: P("GetFile"), Type: P("*os.File")})
							}
							pair(c, id, []File{{"c.yaml", cfg.YAML()}}, false, P(true))
						})
					}
				}
			}
			// boundary strings (empty, blank, a digit, a separator) in every grammar position of C11: whatever the verdict
			// is, it is the same in both modes
			for _, p := range c11positions() {
				for _, x := range []string{"", " ", "\n", "1", "a.", ".", "*", `"`, "a b", "é", "break", "case", "chan", "const", "continue", "default", "defer", "else", "fallthrough", "for", "func", "go", "goto", "if", "import", "interface", "map", "package", "range", "return", "select", "struct", "switch", "type", "var", "nil", "true", "iota", "string", "error", "any", "init", "main", "_"} {
					p, x := p, x
					id := fmt.Sprintf("grammar-boundary/%s/%q", p.id, x)
					w.Case(id, func(c *C) {
						cfg, flags := p.embed(x)
						if flags != nil {
							return
						}
						c17keySuffix = fmt.Sprintf(":%s=%s", p.id, x)
						if token.IsKeyword(x) {
							c17keySuffix = ":go-keyword-in-" + p.id
						}
						defer func() { c17keySuffix = "" }()
						pair(c, id, []File{{"c.yaml", cfg.YAML()}}, false, nil)
					})
				}
			}
			for _, r := range c17rejected() {
				r := r
				w.Case("rejected/"+r.id, func(c *C) {
					pair(c, "rejected/"+r.id, []File{{"c.yaml", r.cfg.YAML()}}, false, P(false))
				})
			}
			// parameter / argument literals (incl. multi-line and control characters) in every position, both modes
			for _, l := range c17lits {
				for _, pos := range []string{"param", "ctor", "field", "call", "decorator"} {
					l, pos := l, pos
					id := fmt.Sprintf("lit/%s/%s", l.id, pos)
					w.Case(id, func(c *C) {
						cfg := &Cfg{Meta: stdMeta(), Params: []Param{{"pInt", 7}, {"pStr", "v"}}}
						s := Service{Name: "sut", Constructor: P("pk.New"), Getter: P("GetSut")}
						switch pos {
						case "param":
							cfg.Params = append(cfg.Params, Param{"pUnderTest", l.v})
						case "ctor":
							s.Args = []any{l.v}
						case "field":
							s.Fields = []KV{{"F1", l.v}}
						case "call":
							s.Calls = []Call{{Method: "Set1", Args: []any{l.v}}}
						case "decorator":
							s.Tags = []Tag{{Name: "tg"}}
							cfg.Decorators = []Decorator{{Tag: "tg", Decorator: "pk.Dec1", Args: []any{l.v}}}
						}
						cfg.Services = append(cfg.Services, s)
						pair(c, id, []File{{"c.yaml", cfg.YAML()}}, false, nil)
					})
				}
			}
			// the two modes written to the same path one after the other
			w.Case("rewrite/normal-stub-normal", func(c *C) {
				cfg := &Cfg{Meta: stdMeta(), Params: []Param{{"pLong", strings.Repeat("long value ", 200)}},
					Services: []Service{{Name: "one", Constructor: P("pk.New"), Args: []any{"%pLong%"}, Getter: P("GetOne"), Type: P("*pk.Obj"), MustGetter: P(true)}, {Name: "two", Value: P("&pk2.Obj{}")}}}
				w.FreshDir()
				os.WriteFile("c.yaml", []byte(cfg.YAML()), 0o644)
				c.Distinct("all", c.ID)
				c.Distinct("nontrivial", c.ID)
				for si, flags := range [][]string{nil, {"--stub"}, nil, {"--stub"}} {
					r := Tool(DefaultVersion, DefaultBuildInfo, append([]string{"-i", "c.yaml", "-o", "out.go"}, flags...)...)
					got, _ := os.ReadFile("out.go")
					os.Remove("fresh.go")
					Tool(DefaultVersion, DefaultBuildInfo, append([]string{"-i", "c.yaml", "-o", "fresh.go"}, flags...)...)
					want, _ := os.ReadFile("fresh.go")
					if !r.OK() || string(got) != string(want) {
						c.Violation("rewrite-differs", fmt.Sprintf("step %d (flags %v): the file written over the other mode's output differs from a fresh build (%d vs %d bytes): %s", si, flags, len(got), len(want), firstDiff(string(want), string(got))), map[string]string{"c.yaml": cfg.YAML()}, nil)
						return
					}
					if len(flags) > 0 {
						gs := Analyze(w.TC(true), string(got), nil)
						if len(gs.Errs) > 0 || !gs.HasStubTag || len(gs.UserValueRefs) > 0 {
							c.Violation("rewritten-stub-not-a-stub", fmt.Sprintf("the stub written over the normal output is not a clean stub: errors %v, value references %v", gs.Errs, gs.UserValueRefs), map[string]string{"c.yaml": cfg.YAML()}, nil)
						}
					}
				}
			})
			// getter truth table rows in both modes
			for g := 0; g < 2; g++ {
				for _, ty := range c13types {
					for must := 0; must < 3; must++ {
						for dm := 0; dm < 3; dm++ {
							g, ty, must, dm := g, ty, must, dm
							id := fmt.Sprintf("getters/getter=%d/type=%s/must=%d/default=%d", g, ty.id, must, dm)
							w.Case(id, func(c *C) {
								cfg := &Cfg{Meta: stdMeta()}
								cfg.Meta.DefaultMustGetter = tri(dm)
								// meta names vary with the row so that every set/unset combination occurs
								switch (g + must + dm) % 4 {
								case 1:
									cfg.Meta.ContainerType = P("App")
								case 2:
									cfg.Meta.ContainerConstructor = P("Build")
								case 3:
									cfg.Meta.ContainerType, cfg.Meta.ContainerConstructor = P("myBox"), P("makeBox")
								}
								s := Service{Name: "sut", Constructor: P("pk.New"), MustGetter: tri(must)}
								if ty.yaml != "" {
									s.Type = P(ty.yaml)
								}
								if g == 1 {
									s.Getter = P("FetchSut")
								}
								cfg.Services = []Service{s}
								pair(c, id, []File{{"c.yaml", cfg.YAML()}}, ty.local, nil)
							})
						}
					}
				}
			}
			// compiled with the tag, called
			var vecs []c01factors
			c01vectors(1, func(f c01factors) {
				if f[11] == 0 {
					vecs = append(vecs, f)
				}
			})
			// plus must-getter variants
			for _, extra := range []c01factors{{0, 2, 0, 1, 1}, {1, 1, 3, 1, 0, 1}, {8, 0, 4, 1, 1}, {4, 2, 2, 1, 1}} {
				vecs = append(vecs, extra)
			}
			for i := 0; i < len(vecs); i += 20 {
				j := i + 20
				if j > len(vecs) {
					j = len(vecs)
				}
				batch := vecs[i:j]
				w.Case(fmt.Sprintf("stubprobe/batch%d", i), func(c *C) {
					var pkgs []StubPkg
					ids := map[string]string{}
					for bi, f := range batch {
						cfg, local, ok := c01cfg(f)
						if !ok {
							continue
						}
						br := w.Build(c01files(cfg, f[12] == 1), "--stub")
						if !br.OK() || !br.OutExists {
							continue
						}
						sp := StubPkg{Name: fmt.Sprintf("g%d", bi), Source: br.Output, Clause: "gen", Type: "Gontainer", Ctor: "NewGontainer", Local: local}
						if f[3] == 1 {
							sp.Getters = []string{"GetSut"}
							sp.CtxGetters = []string{"GetSutInContext"}
							if f[4] == 1 || f[4] == 0 && f[5] == 1 {
								sp.Getters = append(sp.Getters, "MustGetSut")
								sp.CtxGetters = append(sp.CtxGetters, "MustGetSutInContext")
							}
						}
						ids[sp.Name] = c01id(f)
						pkgs = append(pkgs, sp)
						c.Distinct("nontrivial", "stubprobe/"+c01id(f))
					}
					res, err := w.RunStubProbe(pkgs)
					if err != nil {
						c.Violation("stub-probe-failed:"+compilerKey(err.Error()), "stubs do not build with -tags gontainerstub against the types-only universe, or the probe failed:\n"+err.Error(), nil, nil)
						return
					}
					for _, sp := range pkgs {
						names := append([]string{"ctor"}, append(sp.Getters, sp.CtxGetters...)...)
						for _, n := range names {
							c.Count("stub_calls")
							if got := res[sp.Name+"."+n]; got != "stub" {
								c.Violation("stub-does-not-panic", fmt.Sprintf("%s of the stub (%s) did not panic with \"stub\": %q", n, ids[sp.Name], got), map[string]string{"stub.go": sp.Source}, nil)
							}
						}
					}
					if res["<untagged>"] != "excluded" {
						c.Violation("stub-built-without-tag", res["<untagged>"], nil, nil)
					}
				})
			}
		},
	})
}
