package checks

import (
	"fmt"
	"strings"

	. "github.com/gontainer/gontainer/xverif/core"
)

// HIST-X: explicit-state breadth-first search over the cache/override state machine of a generated
// container. States are enumerated with the reference model's transition function; every transition is
// then executed on a fresh real container (replay of the shortest history + the operation + a dump of the
// container's private caches) and every observation, including the reached state, must equal the model's.

type histPlan struct {
	Sessions [][]ProbeOp // one per transition: shortest history of the source state + op + state dump
	States   int
	Depth    int
	Capped   bool
}

// histExplore enumerates the reachable states. maxDepth 0 = to fixpoint.
func histExplore(cfg *Cfg, localID string, env map[string]string, alphabet []ProbeOp, maxDepth int, allow func(hist []ProbeOp, op ProbeOp) bool, maxStates int) histPlan {
	type node struct {
		hist []ProbeOp
	}
	run := func(h []ProbeOp) string {
		m := NewModel(cfg, localID, env)
		ModelSession(m, h)
		return m.StateKey()
	}
	seen := map[string]bool{run(nil): true}
	frontier := []node{{nil}}
	plan := histPlan{States: 1}
	depth := 0
	for len(frontier) > 0 {
		if maxDepth > 0 && depth >= maxDepth {
			break
		}
		var next []node
		for _, n := range frontier {
			for _, a := range alphabet {
				if allow != nil && !allow(n.hist, a) {
					continue
				}
				h := append(append([]ProbeOp{}, n.hist...), a)
				plan.Sessions = append(plan.Sessions, append(append([]ProbeOp{}, h...), ProbeOp{Op: "state"}))
				k := run(h)
				if !seen[k] {
					if maxStates > 0 && plan.States >= maxStates {
						plan.Capped = true
						continue
					}
					seen[k] = true
					plan.States++
					next = append(next, node{h})
				}
			}
		}
		frontier = next
		depth++
		plan.Depth = depth
	}
	return plan
}

// histOracle compares every session (transition) and accounts states / transitions / traces.
func histOracle(c *C, keyPrefix string) func(c2 *C, outs []*BOutcome, err error) {
	return func(_ *C, outs []*BOutcome, err error) {
		for oi, o := range outs {
			bc := o.Case
			fm := FilesMap(bc.Files)
			if o.Build.Panic != "" {
				c.Violation("panic", "tool panicked:\n"+o.Build.Panic, fm, nil)
				continue
			}
			if o.Build.Exit != 0 {
				c.Violation("rejected:"+bc.ID, "configuration valid by construction was rejected:\n"+strings.Join(ErrorLines(o.Build.Out), "\n"), fm, nil)
				continue
			}
			if o.NoBuild != "" {
				c.Violation("nobuild:"+compilerKey(o.NoBuild), "accepted configuration ("+bc.ID+") yields Go code that does not compile:\n"+o.NoBuild, fm, nil)
				continue
			}
			c.Count("configs")
			for si, s := range bc.Sessions {
				if si >= len(o.Sessions) || o.Sessions[si] == nil {
					c.Violation("probe-incomplete", "no result for a session of "+bc.ID, fm, nil)
					break
				}
				res := o.Sessions[si]
				m := NewModel(bc.Cfg, fmt.Sprintf("./g%d", oi), s.Env)
				exp := ModelSession(m, s.Ops)
				bad, msg, compared, unspec := CompareSession(exp, res)
				c.Count("transitions")
				c.Count("evaluations_extra")
				c.Distinct("nontrivial", fmt.Sprintf("%s#%d", bc.ID, si))
				c.Add("ops_compared", int64(compared))
				if last := res[len(res)-1]; last.V != nil && last.V["t"] == "state" {
					c.Distinct("states", bc.ID+"|"+NewCanon().Render(last.V))
				}
				if unspec {
					c.Count("transitions_with_unspec")
					continue
				}
				if bad >= 0 {
					var hist []string
					for _, o := range s.Ops {
						hist = append(hist, describeOp(o))
					}
					c.Violation(keyPrefix+":"+bc.ID, fmt.Sprintf("history [%s], op %d (%s): %s", strings.Join(hist, "; "), bad, describeOp(s.Ops[bad]), msg), fm, map[string]any{"ops": s.Ops})
					continue
				}
				c.Count("traces")
			}
		}
		if err != nil {
			c.Violation("probe-failed", "probe could not be built or run: "+err.Error(), nil, nil)
		}
	}
}
