package checks

import (
	"fmt"
	"sort"
	"strings"
	"time"

	. "github.com/gontainer/gontainer/xverif/core"
)

// C14 — package references resolve to exactly the package the alias table denotes. Alias tables x
// written references x positions; the selector that carries each position's own symbol is resolved with
// go/types in the generated file and compared with an independent denotation function.

var c14aliasPool = []KV{
	{"a", "fx/b/pkg"}, {"ab", "fx/ab"}, {"f", "fx/pk"}, {"fx", "fx/a"}, {"fmt", "fx/fmt"}, {"os", "fx/os"}, {"errors", "fx/errors"},
	{"context", "fx/a/pkg"}, {"reflect", "fx/pk2"}, {"strconv", "fx/p-k.g"}, {"github.com", "fx/pk"}, {"p", "fx/pk2"}, {"err", "fx/errors"}, {"qq", `"fx/pk2"`}, {"root", "fx"},
	{"here", `"."`}, // an alias of the current package (the grammar of meta.imports admits "." as a target)
}

var c14positions = []struct{ id, sym string }{
	{"constructor", "New1"}, {"type", "T1"}, {"value-arg", "VarVal"}, {"decorator", "Dec2"}, {"function", "FnInt"}, {"service-value", "Var"}, {"type-without-getter", "T2"},
}

// written imports tried in every table (besides the aliases themselves)
func c14written(table []KV) []string {
	var w []string
	for _, p := range FxPackages {
		w = append(w, p[0], `"`+p[0]+`"`)
	}
	for _, kv := range table {
		w = append(w, kv.K, `"`+kv.K+`"`)
		for _, suf := range []string{"pk", "pkg", "a/pkg", "b/pkg", "p-k.g", "ab", "errors", "sub"} {
			w = append(w, kv.K+"/"+suf)
		}
	}
	w = append(w, `"."`)
	return w
}

func fxExists(path string) bool {
	for _, p := range FxPackages {
		if p[0] == path {
			return true
		}
	}
	return false
}

type c14ref struct {
	written string // as written in YAML (possibly quoted)
	expect  string // denoted package path, "" = current package
	local   bool
}

func c14refs(table []KV) []c14ref {
	var out []c14ref
	seen := map[string]bool{}
	for _, wr := range c14written(table) {
		if seen[wr] {
			continue
		}
		seen[wr] = true
		path, ok := ParseImport(wr)
		if !ok {
			continue
		}
		if wr == `"."` {
			out = append(out, c14ref{wr, "", true})
			continue
		}
		viaHere := false
		for _, kv := range table {
			if kv.K == "here" && (path == "here" || strings.HasPrefix(path, "here/")) {
				viaHere = true
			}
		}
		if viaHere {
			if path == "here" {
				out = append(out, c14ref{wr, "", true}) // the alias itself denotes the current package
			}
			continue // a sub-path of the current package is a relative path: not specified
		}
		d := ResolveImport(path, table)
		if fxExists(d) {
			out = append(out, c14ref{wr, d, false})
		}
	}
	return out
}

func c14cfg(table []KV, pos int, r c14ref, base c14ref) (*Cfg, map[string]string) {
	want := map[string]string{}
	refFor := func(i int) c14ref {
		if i == pos {
			return r
		}
		return base
	}
	q := func(i int) string {
		rf := refFor(i)
		want[c14positions[i].sym] = rf.expect
		return rf.written + "." + c14positions[i].sym
	}
	cfg := &Cfg{Meta: &Meta{Pkg: P("gen"), Imports: table}}
	s := Service{Name: "sut", Constructor: P(q(0)), Type: P("*" + q(1)), Args: []any{"!value " + q(2)}, Tags: []Tag{{Name: "tg"}}, Getter: P("GetSut")}
	cfg.Decorators = []Decorator{{Tag: "tg", Decorator: q(3)}}
	cfg.Meta.Functions = []KV{{"myfn", q(4)}}
	// the registered function is used several times (parameters and a service argument): one import, one local name
	cfg.Params = []Param{{"p", "%myfn()%"}, {"q", `%env("X", "d")%:%envInt("Y", 1)%%todo()%`}, {"p2", "<%myfn(2)%|%myfn(3)%>"}}
	s.Args = append(s.Args, `%myfn("again")%`)
	cfg.Services = []Service{s, {Name: "val", Value: P(q(5))}, {Name: "typedNoGetter", Constructor: P(base.written + ".New2"), Type: P("*" + q(6))}}
	// a type is only printed in getters: without a getter nothing of that package may remain in the file
	delete(want, "T2")
	return cfg, want
}

func init() {
	Register(&Check{
		ID:    "C14",
		Level: "exploration",
		Rule: "alias tables = all subsets of size <= 2 (quick) / <= 3 (thorough) of 16 aliases (incl. an alias of the current package - alone and next to one ordinary alias, see known findings -, aliases that are string prefixes of other aliases or of referenced paths, and aliases named like the packages the template imports: fmt, os, errors, context, reflect, strconv, github.com) x every written import form that denotes an existing fixture package (bare alias, alias/sub-path, unquoted path, quoted path, \".\") x 7 positions (constructor, type, !value argument, decorator, meta function, service value, type of a service without getter), one position varied at a time against a base reference; " +
			"oracle: own denotation function (first path segment equal to an alias is substituted); the selector carrying the position's own symbol must resolve (go/types) to the denoted package, every path imported once, local names distinct, file type-checks (import block = packages used, template's own imports intact). non-trivial = accepted and resolved; distinct = distinct (table, position, written reference)",
		Assumptions: []string{"fixture packages export identical symbols, so the package a selector resolves to is the only thing that distinguishes a right from a wrong resolution"},
		BudgetQuick: 240 * time.Second, BudgetThorough: 1200 * time.Second,
		Prepare: PrepareUniverse,
		Run: func(w *W) {
			// the configuration refers to the very packages the generated code imports on its own account (fmt, os, errors,
			// context, strconv, the runtime's container package): still one import per path, distinct local names, file type-checks
			for ui, use := range []func(c *Cfg){
				func(c *Cfg) {
					c.Meta.Functions = append(c.Meta.Functions, KV{"getenv", `"os".Getenv`})
					c.Params = append(c.Params, Param{"e", `%getenv("HOME")%`})
				},
				func(c *Cfg) {
					c.Meta.Functions = append(c.Meta.Functions, KV{"itoa", "strconv.Itoa"}, KV{"sprint", `"fmt".Sprint`})
					c.Params = append(c.Params, Param{"e", `%itoa(5)%-%sprint("x", 1)%`})
				},
				func(c *Cfg) {
					c.Services = append(c.Services, Service{Name: "errSvc", Constructor: P(`"errors".New`), Args: []any{"boom"}})
				},
				func(c *Cfg) {
					c.Services = append(c.Services, Service{Name: "ctxSvc", Constructor: P("context.Background"), Type: P("context.Context"), Getter: P("GetCtx")})
				},
				func(c *Cfg) {
					c.Services = append(c.Services, Service{Name: "fmtSvc", Value: P("os.Args"), Fields: nil}, Service{Name: "strSvc", Constructor: P("fmt.Sprintf"), Args: []any{"%%v", "!value os.Args"}})
				},
				func(c *Cfg) {
					c.Services = append(c.Services, Service{Name: "inner", Constructor: P(`"` + HelpersPath + `/container".New`), Type: P(`*"` + HelpersPath + `/container".Container`), Getter: P("GetInner")})
				},
			} {
				for stub := 0; stub < 2; stub++ {
					ui, use, stub := ui, use, stub
					w.Case(fmt.Sprintf("template-packages-named-by-the-user/%d/stub=%d", ui, stub), func(c *C) {
						cfg := &Cfg{Meta: stdMeta(), Params: []Param{{"p", `%env("X", "d")%-%envInt("Y", 1)%`}, {"t", "%todo()%"}}, Services: []Service{{Name: "s", Constructor: P("pk.New"), Args: []any{"%p%"}}, {Name: "todoSvc", Todo: P(true)}}}
						use(cfg)
						files := []File{{"c.yaml", cfg.YAML()}}
						fm := FilesMap(files)
						var flags []string
						if stub == 1 {
							flags = []string{"--stub"}
						}
						br := w.Build(files, flags...)
						c.Distinct("all", c.ID)
						c.Distinct("nontrivial", c.ID)
						if !br.OK() {
							c.Violation("valid-rejected", "rejected:\n"+strings.Join(ErrorLines(br.Out), "\n")+br.Panic, fm, nil)
							return
						}
						gi := Analyze(w.TC(stub == 1), br.Output, nil)
						paths, locals := map[string]int{}, map[string]int{}
						for _, im := range gi.Imports {
							paths[im[1]]++
							locals[im[0]]++
						}
						for p, n := range paths {
							if n > 1 {
								c.Violation("path-imported-twice", fmt.Sprintf("%s imported %d times (%s)", p, n, c.ID), fm, nil)
							}
						}
						for l, n := range locals {
							if n > 1 && l != "" {
								c.Violation("local-name-shared", fmt.Sprintf("local name %s used for %d imports (%s)", l, n, c.ID), fm, nil)
							}
						}
						if len(gi.Errs) > 0 && stub == 0 {
							c.Violation("typecheck:"+compilerKey(gi.Errs[0]), "generated file does not type-check ("+c.ID+"):\n"+strings.Join(gi.Errs, "\n"), fm, nil)
						}
					})
				}
			}
			k := 2
			if !w.Env.Quick() {
				k = 3
			}
			for size := 0; size <= k; size++ {
				combos(len(c14aliasPool), size, func(idx []int) {
					var table []KV
					var names []string
					for _, i := range idx {
						table = append(table, c14aliasPool[i])
						names = append(names, c14aliasPool[i].K)
					}
					if names != nil && names[len(names)-1] == "here" && !(size == 1 || size == 2 && names[0] == "f") {
						return // the alias of the current package: alone and next to one ordinary alias
					}
					refs := c14refs(table)
					base := c14ref{`"fx/pk"`, ResolveImport("fx/pk", table), false}
					if !fxExists(base.expect) {
						base = c14ref{`"."`, "", true}
					}
					for pos := range c14positions {
						for _, r := range refs {
							pos, r := pos, r
							id := fmt.Sprintf("aliases=%s/%s/%s", strings.Join(names, "+"), c14positions[pos].id, r.written)
							w.Case(id, func(c *C) {
								cfg, want := c14cfg(table, pos, r, base)
								files := []File{{"c.yaml", cfg.YAML()}}
								fm := FilesMap(files)
								br := w.Build(files)
								c.Distinct("all", id)
								if br.Panic != "" {
									c.Violation("panic", "tool panicked:\n"+br.Panic, fm, nil)
									return
								}
								if br.Exit != 0 {
									c.Violation("valid-rejected", "valid configuration rejected ("+id+"):\n"+br.Out, fm, nil)
									return
								}
								c.Distinct("nontrivial", id)
								extra := map[string]string{"fixture_local.go": LocalFixture("gen", "./gen")}
								gi := Analyze(w.TC(false), br.Output, extra)
								if len(names) == 2 && names[0] == "a" && names[1] == "ab" && pos == 0 && r.written == "ab" {
									c.Sample(map[string]any{"case": id, "yaml": cfg.YAML(), "imports": gi.Imports})
								}
								// imports: each path once, local names distinct
								paths, locals := map[string]int{}, map[string]int{}
								for _, im := range gi.Imports {
									paths[im[1]]++
									locals[im[0]]++
								}
								for p, n := range paths {
									if n > 1 {
										c.Violation("path-imported-twice", fmt.Sprintf("%s imported %d times (%s)", p, n, id), fm, nil)
									}
									if strings.ContainsAny(p, `"`) {
										c.Violation("quoted-import-path", fmt.Sprintf("import path contains quotes: %s (%s)", p, id), fm, nil)
									}
								}
								for l, n := range locals {
									if n > 1 && l != "" {
										c.Violation("local-name-shared", fmt.Sprintf("local name %s used for %d imports (%s)", l, n, id), fm, nil)
									}
								}
								if len(gi.Errs) > 0 && (r.written == "here" || r.written == `"here"`) {
									c.Violation("alias-of-the-current-package:"+c14positions[pos].id, fmt.Sprintf("meta.imports maps the alias here to \".\" (the current package); %s.%s is accepted and the generated file does not type-check (%s):\n%s", r.written, c14positions[pos].sym, id, strings.Join(gi.Errs, "\n")), fm, nil)
									return
								}
								if len(gi.Errs) > 0 {
									key := "typecheck"
									for _, nm := range names {
										switch nm {
										case "fmt", "os", "errors", "context", "reflect", "strconv", "github.com", "err":
											key = "template-import-hijacked"
										}
									}
									c.Violation(key+":"+compilerKey(gi.Errs[0]), "generated file does not type-check ("+id+"):\n"+strings.Join(gi.Errs, "\n"), fm, nil)
									return
								}
								sel := gi.SelectorPackages()
								for sym, exp := range want {
									got := sel[sym]
									if exp == "" {
										// current package: the symbol must be used unqualified
										if len(got) > 0 {
											c.Violation("local-reference-qualified", fmt.Sprintf("%s written as %q must denote the current package, resolved to %v (%s)", sym, r.written, got, id), fm, nil)
										}
										continue
									}
									sort.Strings(got)
									if len(got) == 0 {
										c.Violation("reference-lost", fmt.Sprintf("%s: no selector found, expected package %s (%s)", sym, exp, id), fm, nil)
										continue
									}
									for _, g := range got {
										if g != exp {
											c.Violation("wrong-package", fmt.Sprintf("%s resolved to package %s, the alias table denotes %s (%s)", sym, g, exp, id), fm, nil)
										}
									}
								}
							})
						}
					}
				})
			}
		},
	})
}
