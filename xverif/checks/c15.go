package checks

import (
	"fmt"
	"strings"
	"time"

	. "github.com/gontainer/gontainer/xverif/core"
)

// C15 — todo placeholders and run-time overrides. Verdict for every subset of todo markings; HIST-X over
// {GetParam, Get, OverrideParam, OverrideService} histories with at most 2 overrides.

func c15cfg(todoMask int) *Cfg {
	cfg := &Cfg{Meta: stdMeta()}
	pv := func(bit int, todo string, real any) any {
		if todoMask&bit != 0 {
			return todo
		}
		return real
	}
	cfg.Params = []Param{
		{"pt", pv(1, "%todo()%", "real-pt")},
		{"pm", pv(2, `%todo("pm is set at run time")%`, 12)},
		{"pd", "<%pt%|%pm%>"},
		{"pf", `%fnStr("lazy")%`},
		{"pd2", "%pf%!"},
		{"pfirst", "%pt%:%pm%"},
		{"pa", "%pt%"},
		{"pa2", "[%pa%]"},
		{"zalias", "%pt%"},
		{"zalias2", "%pm%"},
	}
	st := Service{Name: "st", Constructor: P("pk.New1"), Args: []any{"real-st"}}
	if todoMask&4 != 0 {
		st = Service{Name: "st", Todo: P(true), Getter: P("GetSd")} // a left-over getter that a real service uses as well
	}
	su := Service{Name: "su", Constructor: P("pk.New2")}
	if todoMask&8 != 0 {
		// a todo service keeps whatever a draft or an earlier file says about it; none of it is validated or followed:
		// undeclared references, a reference back to its own dependant, malformed attributes
		su = Service{Name: "su", Todo: P(true), Constructor: P("this is ignored"), Getter: P("Must bad InContext"),
			Args:   []any{"@sd", "%noSuchParam%", "@noSuchService", "%pd%"},
			Calls:  []Call{{Method: "Set1", Args: []any{"@su", "%alsoMissing%-x"}}},
			Fields: []KV{{"F1", "@sp"}, {"F2", "!tagged nobody"}}, Tags: []Tag{{Name: "tg"}}}
	}
	cfg.Services = []Service{st, su,
		{Name: "sd", Constructor: P("pk.New"), Args: []any{"@st", "%pd%"}, Fields: []KV{{"F1", "@su"}}, Getter: P("GetSd")},
		{Name: "sp", Constructor: P("pk2.New"), Args: []any{"%pd2%"}},
	}
	return cfg
}

// c15deps: what each entity (transitively) depends on.
var c15deps = map[string][]string{
	"p:zalias": {"p:pt"}, "p:zalias2": {"p:pm"},
	"p:pd": {"p:pt", "p:pm"}, "p:pd2": {"p:pf"}, "p:pfirst": {"p:pt", "p:pm"}, "p:pa": {"p:pt"}, "p:pa2": {"p:pa", "p:pt"},
	"s:sd": {"s:st", "s:su", "p:pd", "p:pt", "p:pm"}, "s:sp": {"p:pd2", "p:pf"},
}

// c15expect post-processes the model's expectations: an entity that was successfully constructed before an
// override of something it depends on is unspecified from then on (the statement only speaks about
// dependants not yet constructed).
func c15mask(ops []ProbeOp, exp []Expect) {
	constructed := map[string]bool{}
	tainted := map[string]bool{}
	markBuilt := func(e string) {
		constructed[e] = true
		for _, d := range c15deps[e] {
			constructed[d] = true
		}
	}
	for i, o := range ops {
		var ent string
		switch o.Op {
		case "param":
			ent = "p:" + o.Name
		case "get":
			ent = "s:" + o.Name
		case "overrideParam", "overrideService":
			x := "p:" + o.Name
			if o.Op == "overrideService" {
				x = "s:" + o.Name
			}
			delete(constructed, x)
			delete(tainted, x)
			for e, ds := range c15deps {
				for _, d := range ds {
					if d == x && constructed[e] {
						tainted[e] = true
					}
				}
			}
			continue
		default:
			continue
		}
		if tainted[ent] {
			exp[i] = Expect{Unspec: "constructed before an override of one of its dependencies"}
			continue
		}
		for _, d := range c15deps[ent] {
			if tainted[d] {
				exp[i] = Expect{Unspec: "depends on an entity constructed before an override"}
			}
		}
		if exp[i].Unspec == "" && !exp[i].IsErr {
			markBuilt(ent)
		}
	}
}

func init() {
	Register(&Check{
		ID:    "C15",
		Level: "model_checking",
		Rule: "verdict: all 16 subsets of {2 parameters, 2 services} marked todo (with dependants, incl. a todo service carrying otherwise invalid attributes) must be accepted without 'missing' diagnostics; histories: for 4 todo subsets, explicit-state BFS to depth 4 (quick) / 5 (thorough) over {GetParam x 10, Get x 4, OverrideParam(pt|pm, value | lazily counted provider | failing provider), OverrideService(st, two constructors | value)} with at most 2 overrides per history; every transition replayed on a fresh real container; " +
			"compared: todo errors before an override, the value seen by dependants not yet constructed at the time of the override, function-call counters (laziness: zero right after construction), reached cache state",
		Assumptions: []string{"observations of entities constructed before an override of one of their dependencies are unspecified by the statement and masked (the rest of such a history is not compared)"},
		BudgetQuick: 280 * time.Second, BudgetThorough: 1500 * time.Second,
		Prepare: PrepareUniverse,
		Run: func(w *W) {
			for mask := 0; mask < 16; mask++ {
				mask := mask
				w.Case(fmt.Sprintf("verdict/todo=%04b", mask), func(c *C) {
					cfg := c15cfg(mask)
					files := []File{{"c.yaml", cfg.YAML()}}
					br := w.Build(files)
					c.Distinct("all", c.ID)
					c.Count("evaluations_extra")
					c.Distinct("nontrivial", c.ID)
					if br.Panic != "" {
						c.Violation("panic", "tool panicked:\n"+br.Panic, FilesMap(files), nil)
						return
					}
					if br.Exit != 0 {
						key := "todo-config-rejected"
						if strings.Contains(br.Out, "does not exist") {
							key = "todo-reported-missing"
						}
						c.Violation(key, fmt.Sprintf("configuration whose todo subset is %04b was rejected:\n%s", mask, strings.Join(ErrorLines(br.Out), "\n")), FilesMap(files), nil)
					}
				})
			}
			// a todo service / parameter is declared: whoever refers to it (constructor, call, field, decorator argument, a tag
			// it carries requested by !tagged, another parameter), under every flag combination, the configuration is accepted
			for mask := 1; mask < 4; mask++ {
				for fi, flags := range [][]string{nil, {"--ignore-missing-params"}, {"--ignore-missing-services"}, {"--stub"}} {
					mask, fi, flags := mask, fi, flags
					w.Case(fmt.Sprintf("verdict/every-referrer/todo=%02b/%d", mask, fi), func(c *C) {
						cfg := &Cfg{Meta: stdMeta(), Params: []Param{{"plain", 1}, {"later", "%plain%"}, {"user", "<%later%>"}}}
						if mask&1 != 0 {
							cfg.Params[1] = Param{"later", `%todo("later")%`}
						}
						svc := Service{Name: "draft", Constructor: P("pk.New1"), Tags: []Tag{{Name: "drafts"}}}
						if mask&2 != 0 {
							svc = Service{Name: "draft", Todo: P(true), Tags: []Tag{{Name: "drafts"}}}
						}
						cfg.Services = []Service{svc,
							{Name: "byCtor", Constructor: P("pk.New"), Args: []any{"@draft", "%later%"}},
							{Name: "byCall", Constructor: P("pk.New"), Calls: []Call{{Method: "Set1", Args: []any{"x", "@draft"}}, {Method: "With1", Args: []any{"%later%", "%user%"}, Immutable: P(true)}}},
							{Name: "byField", Value: P("pk.Obj{}"), Fields: []KV{{"F1", "@draft"}, {"F2", "%later%"}}},
							{Name: "byTag", Constructor: P("pk2.New"), Args: []any{"!tagged drafts"}},
							{Name: "decorated", Constructor: P("pk.New2"), Tags: []Tag{{Name: "dtg"}}},
						}
						cfg.Decorators = []Decorator{{Tag: "dtg", Decorator: "pk.Dec1", Args: []any{"@draft", "%later%"}}, {Tag: "drafts", Decorator: "pk.Dec2", Args: []any{"%user%"}}, {Tag: "*", Decorator: "pk.Dec3", Args: []any{"x"}}}
						files := []File{{"c.yaml", cfg.YAML()}}
						br := w.Build(files, flags...)
						c.Distinct("all", c.ID)
						c.Count("evaluations_extra")
						c.Distinct("nontrivial", c.ID)
						if br.Panic != "" {
							c.Violation("panic", "tool panicked:\n"+br.Panic, FilesMap(files), nil)
							return
						}
						if br.Exit != 0 {
							key := "todo-config-rejected:every-referrer"
							if strings.Contains(br.Out, "does not exist") {
								key = "todo-reported-missing:every-referrer"
							}
							c.Violation(key, fmt.Sprintf("todo parameter / service (mask %02b) referred to from every kind of referrer, flags %v: rejected\n%s", mask, flags, strings.Join(ErrorLines(br.Out), "\n")), FilesMap(files), map[string]any{"flags": flags})
						}
					})
				}
			}
			// message forms of %todo("...")%: the documented error carries the given message whatever it contains
			w.Case("messages", func(c *C) {
				msgs := []string{"", "x", "set me at run time", "à faire – później 😀", `say \"hi\"`, "a, (b), [c]", "phase 1,phase 2 ,phase 3  ,  pending", `27\" panel first`, `one \" two \" three \"`, "100\\x25 done \\x25d \\x25s \\x25!", "\\u0025v and \\045", "tab\there", "semi;colon: and 'quotes'", "very " + strings.Repeat("long ", 60)}
				cfg := &Cfg{Meta: stdMeta()}
				var ops []ProbeOp
				for i, m := range msgs {
					n := fmt.Sprintf("pm%d", i)
					cfg.Params = append(cfg.Params, Param{n, `%todo("` + m + `")%`}, Param{n + "user", "<%" + n + "%>"})
					cfg.Services = append(cfg.Services, Service{Name: "s" + n, Constructor: P("pk.New"), Args: []any{"%" + n + "%"}})
					ops = append(ops, op("param", n), op("param", n+"user"), op("get", "s"+n))
				}
				for i := range msgs {
					n := fmt.Sprintf("pm%d", i)
					ops = append(ops, ProbeOp{Op: "overrideParam", Name: n, Val: &ProbeSpec{Kind: "value", V: "now set"}}, op("param", n+"user"), op("get", "s"+n))
				}
				bc := &BCase{ID: "messages", Cfg: cfg, Sessions: []BSession{{Ops: append(ops, op("counters", ""))}}}
				c.Distinct("nontrivial", c.ID)
				outs, err := w.RunBehaviour([]*BCase{bc})
				c15oracle(c, outs, err)
			})
			depth := 4
			if !w.Env.Quick() {
				depth = 5
			}
			val := func(v any) *ProbeSpec { return &ProbeSpec{Kind: "value", V: v} }
			alphabet := []ProbeOp{
				op("param", "pt"), op("param", "pm"), op("param", "pd"), op("param", "pf"), op("param", "pd2"), op("param", "pa"), op("param", "pa2"), op("param", "pfirst"), op("param", "zalias"), op("param", "zalias2"),
				op("get", "st"), op("get", "su"), op("get", "sd"), op("get", "sp"),
				{Op: "overrideParam", Name: "pt", Val: val("ov1")},
				{Op: "overrideParam", Name: "pt", Val: &ProbeSpec{Kind: "provider", V: map[string]any{"int": 2}}},
				{Op: "overrideParam", Name: "pm", Val: &ProbeSpec{Kind: "providerfail", V: "still not ready"}},
				{Op: "overrideService", Name: "st", Val: &ProbeSpec{Kind: "ctor", Ctor: "fx/pk.New2", Args: []any{"ov-a"}}},
				{Op: "overrideService", Name: "st", Val: &ProbeSpec{Kind: "ctor", Ctor: "fx/pk2.NewVal", Args: []any{"ov-b"}, Deps: []string{"su"}}},
				{Op: "overrideService", Name: "su", Val: val("plain")},
			}
			allow := func(h []ProbeOp, o ProbeOp) bool {
				if !strings.HasPrefix(o.Op, "override") {
					return true
				}
				n := 0
				for _, x := range h {
					if strings.HasPrefix(x.Op, "override") {
						n++
					}
				}
				return n < 2
			}
			for _, mask := range []int{15, 5, 10, 0} {
				cfg := c15cfg(mask)
				plan := histExplore(cfg, "", nil, alphabet, depth, allow, 0)
				// shard the transitions of one configuration over several probe builds
				const per = 1500
				for i := 0; i < len(plan.Sessions); i += per {
					j := i + per
					if j > len(plan.Sessions) {
						j = len(plan.Sessions)
					}
					part := plan.Sessions[i:j]
					mask, i := mask, i
					w.Case(fmt.Sprintf("hist/todo=%04b/%d", mask, i), func(c *C) {
						bc := &BCase{ID: fmt.Sprintf("todo=%04b", mask), Cfg: c15cfg(mask)}
						if mask == 5 {
							// the todo markers arrive in a second file on top of complete definitions
							over := &Cfg{Params: []Param{{"pt", "%todo()%"}}, Services: []Service{{Name: "st", Todo: P(true)}}}
							base := c15cfg(0)
							base.Svc("st").Todo = P(false) // an explicit "todo: false" in the earlier file must lose against the later file
							base.Svc("su").Todo = P(false)
							bc.Files = []File{{"base.yaml", base.YAML()}, {"todo.yaml", over.YAML()}}
						}
						for _, s := range part {
							ops := append(append([]ProbeOp{}, s...), op("counters", ""))
							bc.Sessions = append(bc.Sessions, BSession{Ops: ops})
						}
						c.Distinct("nontrivial", c.ID)
						outs, err := w.RunBehaviour([]*BCase{bc})
						c15oracle(c, outs, err)
						if i == 0 {
							c.Sample(map[string]any{"todo_mask": mask, "states_in_model_bfs": plan.States, "depth": plan.Depth, "transitions": len(plan.Sessions), "history": part[len(part)-1]})
						}
					})
				}
			}
		},
	})
}

func c15oracle(c *C, outs []*BOutcome, err error) {
	for _, o := range outs {
		bc := o.Case
		fm := FilesMap(bc.Files)
		if o.Build.Panic != "" || o.Build.Exit != 0 {
			c.Violation("rejected:"+bc.ID, "configuration rejected:\n"+strings.Join(ErrorLines(o.Build.Out), "\n")+o.Build.Panic, fm, nil)
			continue
		}
		if o.NoBuild != "" {
			c.Violation("nobuild:"+compilerKey(o.NoBuild), "does not compile:\n"+o.NoBuild, fm, nil)
			continue
		}
		for si, s := range bc.Sessions {
			if si >= len(o.Sessions) || o.Sessions[si] == nil {
				c.Violation("probe-incomplete", "no result for a session of "+bc.ID, fm, nil)
				break
			}
			res := o.Sessions[si]
			// laziness: nothing has been called when the constructor returns
			if len(res) > 0 && len(res[0].C) != 0 {
				c.Violation("not-lazy", fmt.Sprintf("functions were called while the container was constructed: %v", res[0].C), fm, nil)
			}
			m := NewModel(bc.Cfg, "", nil)
			exp := ModelSession(m, s.Ops)
			c15mask(s.Ops, exp)
			bad, msg, compared, unspec := CompareSession(exp, res)
			c.Count("transitions")
			c.Count("evaluations_extra")
			c.Distinct("nontrivial", fmt.Sprintf("%s#%v", bc.ID, s.Ops))
			c.Add("ops_compared", int64(compared))
			for _, r := range res {
				if r.V != nil && r.V["t"] == "state" {
					c.Distinct("states", bc.ID+"|"+NewCanon().Render(r.V))
				}
			}
			if unspec {
				c.Count("transitions_with_unspec")
			}
			if bad >= 0 {
				var hist []string
				for _, o := range s.Ops {
					hist = append(hist, describeOp(o))
				}
				key := "history-mismatch"
				if strings.Contains(msg, "todo") {
					key = "todo-error-mismatch"
				}
				c.Violation(key+":"+bc.ID, fmt.Sprintf("history [%s], op %d (%s): %s", strings.Join(hist, "; "), bad, describeOp(s.Ops[bad]), msg), fm, map[string]any{"ops": s.Ops})
				continue
			}
			if !unspec {
				c.Count("traces")
			}
		}
	}
	if err != nil {
		c.Violation("probe-failed", "probe could not be built or run: "+err.Error(), nil, nil)
	}
}
