package checks

import (
	"fmt"
	"math"
	"strconv"
	"strings"
	"time"

	. "github.com/gontainer/gontainer/xverif/core"
)

// C03 — parameter and %pattern% evaluation semantics. All strings up to length L over a small alphabet
// (verdict vs. a hand-written evaluator, accepted ones evaluated in the probe), all chunk sequences up to
// length k over 20 chunk kinds, the same as service arguments, and the %-doubling corollary.

var c03sigma = []string{"%", "a", "p", ".", "(", ")", `"`, " ", ",", "é"}

func c03universe() *Cfg {
	m := stdMeta()
	m.Functions = []KV{{"a", "pk.FnStr"}, {"p", "pk.FnInt"}}
	return &Cfg{Meta: m, Params: []Param{{"a", 5}, {"p", "str"}, {"a.p", true}}}
}

// c03verdict: "reject" (with the fragment a diagnostic must contain), "accept", or "unspec".
func c03verdict(s string, declared map[string]bool, fns map[string]bool) (verdict, fragment string) {
	chunks, ok := Chunks(s)
	if !ok {
		return "reject", "not closed token"
	}
	unspec := false
	for _, ch := range chunks {
		if ch == "%%" || !(len(ch) >= 2 && strings.HasPrefix(ch, "%") && strings.HasSuffix(ch, "%")) {
			continue
		}
		inner := ch[1 : len(ch)-1]
		if IsYamlToken(inner) {
			if !declared[inner] {
				return "reject", `"` + inner + `"`
			}
			continue
		}
		if name, args, ok := FnCall(inner); ok {
			if !fns[name] {
				return "reject", quoteASCII(ch)
			}
			if !goArgListOK(args) {
				return "reject", quoteASCII(ch)
			}
			if !literalArgs(args) {
				unspec = true
			}
			continue
		}
		return "reject", quoteASCII(ch)
	}
	if unspec {
		return "unspec", ""
	}
	return "accept", ""
}

func quoteASCII(s string) string {
	q := strconv.QuoteToASCII(s)
	return q[1 : len(q)-1]
}

// goArgListOK: a conservative hand-written judgement of "the text between the parentheses is a Go
// argument list" for the strings this check generates (string literals, identifiers, selectors, commas,
// parentheses, spaces). Returns false only for texts that are certainly not an argument list.
func goArgListOK(a string) bool {
	depth := 0
	inStr := false
	prev := byte(',') // last significant byte: ',' start / after comma, 'x' operand, '.' selector dot
	for i := 0; i < len(a); i++ {
		c := a[i]
		if inStr {
			if c == '\\' {
				i++
				continue
			}
			if c == '"' {
				inStr = false
				prev = 'x'
			}
			continue
		}
		switch {
		case c == '"':
			if prev == 'x' || prev == '.' {
				return false
			}
			inStr = true
		case c == ' ':
		case c == ',':
			if prev != 'x' {
				return false
			}
			prev = ','
		case c == '(':
			depth++
			if prev == '.' {
				return false
			}
			prev = '('
		case c == ')':
			depth--
			if depth < 0 {
				return false
			}
			if prev == ',' || prev == '.' {
				return false
			}
			// "()" is a call without arguments only after an operand; "(())" is not an expression
			if prev == '(' && !(i >= 2 && isIdentByte(a[i-2])) {
				return false
			}
			prev = 'x'
		case c == '.':
			if prev != 'x' {
				return false
			}
			prev = '.'
		case c >= 0x80:
			// é is a letter: identifier character
			if prev == 'x' && i > 0 && (a[i-1] == ' ' || a[i-1] == '"' || a[i-1] == ')') {
				return false
			}
			prev = 'x'
		default:
			if prev == 'x' && i > 0 && (a[i-1] == ' ' || a[i-1] == '"' || a[i-1] == ')') {
				return false
			}
			prev = 'x'
		}
	}
	if inStr || depth != 0 {
		return false
	}
	if strings.TrimSpace(a) == "" {
		return true
	}
	return prev == 'x'
}

// literalArgs: the argument list consists of string literals only (symbols that exist by construction).
func literalArgs(a string) bool {
	_, ok := parseStringList(a)
	return ok
}

func parseStringList(a string) ([]any, bool) {
	a = strings.TrimSpace(a)
	if a == "" {
		return nil, true
	}
	var out []any
	i := 0
	for {
		for i < len(a) && a[i] == ' ' {
			i++
		}
		if i >= len(a) || a[i] != '"' {
			return nil, false
		}
		j := i + 1
		for j < len(a) && a[j] != '"' {
			if a[j] == '\\' {
				return nil, false
			}
			j++
		}
		if j >= len(a) {
			return nil, false
		}
		out = append(out, a[i+1:j])
		i = j + 1
		for i < len(a) && a[i] == ' ' {
			i++
		}
		if i >= len(a) {
			return out, true
		}
		if a[i] != ',' {
			return nil, false
		}
		i++
	}
}

type c03kind struct {
	id, text string
}

var c03kinds = []c03kind{
	{"lit", "lit"}, {"lit-sp", " x "}, {"pct", "%%"},
	{"ref-int", "%rInt%"}, {"ref-nil", "%rNil%"}, {"ref-bool", "%rBool%"}, {"ref-float", "%rFloat%"}, {"ref-str", "%rStr%"}, {"ref-uint", "%rUint%"}, {"ref-multi", "%rMulti%"},
	{"fn-ok", `%fnStr("q", 2)%`}, {"fn-int", `%fnInt()%`}, {"fn-nil", `%fnNil()%`}, {"fn-fail", `%fnE("fail")%`},
	{"env-hit", `%env("C03_SET")%`}, {"env-miss", `%env("C03_UNSET")%`}, {"env-default", `%env("C03_UNSET", "dflt")%`},
	{"envint-ok", `%envInt("C03_INT")%`}, {"envint-bad", `%envInt("C03_SET")%`}, {"envint-default", `%envInt("C03_UNSET", 81)%`},
	{"todo", `%todo()%`}, {"todo-msg", `%todo("not yet")%`},
}

var c03env = map[string]string{"C03_SET": "envvalue", "C03_INT": "-12", "C03_UNSET": "\x00unset"}
var c03modelEnv = map[string]string{"C03_SET": "envvalue", "C03_INT": "-12"}

func c03seqBase() *Cfg {
	c := &Cfg{Meta: stdMeta()}
	c.Params = []Param{{"rInt", 5}, {"rNil", nil}, {"rBool", false}, {"rFloat", 2.5}, {"rStr", "s%%t"}, {"rUint", uint64(math.MaxUint64)}, {"rMulti", "<%rInt%|%rStr%>"}}
	return c
}

func init() {
	Register(&Check{
		ID:    "C03",
		Level: "exploration",
		Rule: "(1) every string of length <= 3 and every string containing '%' of length <= 5 (quick) / <= 6 (thorough) over {%, a, p, ., (, ), \", space, comma, é} as a parameter value: build verdict vs. hand-written evaluator (reject / accept / unspecified), accepted ones packed and evaluated by GetParam in a probe; " +
			"(2) every chunk sequence of length <= 3 (quick) / <= 4 (thorough) over 22 chunk kinds (literals, %%, references to every literal type, functions ok/failing, env/envInt hit/miss/default/bad, todo) as parameter and as constructor argument; (3) the doubling corollary for every string of (1). non-trivial = contains '%' or is evaluated at run time; distinct = distinct string / sequence",
		Assumptions: []string{
			"unspecified: function-call chunks whose argument text is valid Go but not a list of string literals (identifiers would have to exist as Go symbols)",
			"the pinned runtime's documented string cast (exporter.CastToString) is re-stated in the model for the YAML literal types",
		},
		BudgetQuick: 280 * time.Second, BudgetThorough: 1500 * time.Second,
		Prepare: PrepareUniverse,
		Run: func(w *W) {
			L := 5
			if !w.Env.Quick() {
				L = 6
			}
			// (1) strings
			var strs []string
			var gen func(cur string, n int)
			gen = func(cur string, n int) {
				if n > 0 && (strings.Contains(cur, "%") || len([]rune(cur)) <= 3) {
					strs = append(strs, cur)
				}
				if n == L {
					return
				}
				for _, ch := range c03sigma {
					gen(cur+ch, n+1)
				}
			}
			gen("", 0)
			strs = append(strs, "")
			declared := map[string]bool{"a": true, "p": true, "a.p": true}
			fns := map[string]bool{"a": true, "p": true, "env": true, "envInt": true, "todo": true}
			const batch = 400
			for i := 0; i < len(strs); i += batch {
				j := i + batch
				if j > len(strs) {
					j = len(strs)
				}
				part := strs[i:j]
				w.Case(fmt.Sprintf("strings/%d-%d", i, j-1), func(c *C) {
					c.Add("evaluations_extra", int64(len(part)))
					packed := c03universe()
					double := c03universe()
					type ent struct {
						name, s string
					}
					var ents []ent
					for k, s := range part {
						c.Distinct("all", "s:"+s)
						if strings.Contains(s, "%") {
							c.Distinct("nontrivial", "s:"+s)
						}
						cfg := c03universe()
						cfg.Params = append(cfg.Params, Param{"x", s})
						files := []File{{"c.yaml", cfg.YAML()}}
						br := w.Build(files)
						fm := FilesMap(files)
						v, frag := c03verdict(s, declared, fns)
						c.Count("verdict_" + v)
						if br.Panic != "" {
							c.Violation("panic", fmt.Sprintf("tool panicked on parameter value %q:\n%s", s, br.Panic), fm, nil)
							continue
						}
						switch v {
						case "reject":
							if br.Exit == 0 {
								c.Violation("malformed-accepted:"+classify(s), fmt.Sprintf("parameter value %q must be rejected (%s) but was accepted", s, frag), fm, nil)
							} else if !strings.Contains(br.Out, frag) {
								c.Violation("diagnostic-does-not-name-token", fmt.Sprintf("parameter value %q rejected, but no diagnostic contains %q:\n%s", s, frag, strings.Join(ErrorLines(br.Out), "\n")), fm, nil)
							}
						case "accept":
							if br.Exit != 0 {
								c.Violation("valid-rejected:"+classify(s), fmt.Sprintf("parameter value %q must be accepted:\n%s", s, strings.Join(ErrorLines(br.Out), "\n")), fm, nil)
							} else {
								name := fmt.Sprintf("x%d", k)
								packed.Params = append(packed.Params, Param{name, s})
								ents = append(ents, ent{name, s})
							}
						}
						// doubling corollary
						double.Params = append(double.Params, Param{fmt.Sprintf("d%d", k), strings.ReplaceAll(s, "%", "%%")})
					}
					var ops []ProbeOp
					for _, e := range ents {
						ops = append(ops, op("param", e.name))
					}
					var dops []ProbeOp
					for k := range part {
						dops = append(dops, op("param", fmt.Sprintf("d%d", k)))
					}
					cases := []*BCase{
						{ID: c.ID + "/packed", Cfg: packed, Sessions: []BSession{{Ops: ops}}},
						{ID: c.ID + "/doubled", Cfg: double, Sessions: []BSession{{Ops: dops}}},
					}
					outs, err := w.RunBehaviour(cases)
					behaviourOracle(c, outs, err)
					// the corollary, stated directly (not via the model)
					if len(outs) == 2 && len(outs[1].Sessions) == 1 {
						res := outs[1].Sessions[0]
						for k, s := range part {
							if k+1 >= len(res) {
								break
							}
							r := res[k+1]
							got, _ := r.V["v"].(string)
							if r.Err != "" || r.V["t"] != "string" || got != s {
								c.Violation("doubling-corollary", fmt.Sprintf("pattern %q must evaluate to %q; observed %v err=%q", strings.ReplaceAll(s, "%", "%%"), s, r.V, r.Err), FilesMap(cases[1].Files), nil)
							}
							c.Count("doubling_checked")
						}
					}
					if i == 0 {
						c.Sample(map[string]any{"strings": part[:8], "packed_params": len(ents)})
					}
				})
			}
			// (2) chunk sequences as parameters and as constructor arguments
			k := 3
			if !w.Env.Quick() {
				k = 4
			}
			var seqs [][]int
			var sgen func(cur []int)
			sgen = func(cur []int) {
				if len(cur) > 0 {
					seqs = append(seqs, append([]int{}, cur...))
				}
				if len(cur) == k {
					return
				}
				for i := range c03kinds {
					sgen(append(cur, i))
				}
			}
			sgen(nil)
			const sb = 250
			for i := 0; i < len(seqs); i += sb {
				j := i + sb
				if j > len(seqs) {
					j = len(seqs)
				}
				part := seqs[i:j]
				w.Case(fmt.Sprintf("sequences/%d-%d", i, j-1), func(c *C) {
					c.Add("evaluations_extra", int64(len(part)))
					cfg := c03seqBase()
					args := c03seqBase()
					var ops, aops []ProbeOp
					for n, sq := range part {
						var sb strings.Builder
						var ids []string
						for _, ki := range sq {
							sb.WriteString(c03kinds[ki].text)
							ids = append(ids, c03kinds[ki].id)
						}
						c.Distinct("all", "q:"+strings.Join(ids, "+"))
						c.Distinct("nontrivial", "q:"+strings.Join(ids, "+"))
						name := fmt.Sprintf("q%d", n)
						cfg.Params = append(cfg.Params, Param{name, sb.String()})
						ops = append(ops, op("param", name))
						if len(sq) <= 2 {
							sn := fmt.Sprintf("s%d", n)
							args.Services = append(args.Services, Service{Name: sn, Constructor: P("pk.New"), Args: []any{"head", sb.String()}})
							aops = append(aops, op("get", sn))
						}
					}
					cases := []*BCase{{ID: c.ID + "/params", Cfg: cfg, Sessions: []BSession{{Env: c03env, Ops: ops}}}}
					if len(aops) > 0 {
						cases = append(cases, &BCase{ID: c.ID + "/args", Cfg: args, Sessions: []BSession{{Env: c03env, Ops: aops}}})
					}
					outs, err := w.RunBehaviour(cases)
					for _, o := range outs {
						for si := range o.Case.Sessions {
							o.Case.Sessions[si].Env = c03modelEnv
						}
					}
					behaviourOracle(c, outs, err)
				})
			}
		},
	})
}

// classify gives a coarse class of a pattern for violation keys.
func classify(s string) string {
	switch {
	case strings.Count(s, "%")%2 == 1:
		return "unbalanced"
	case strings.Contains(s, "("):
		return "function-like"
	}
	return "token"
}
