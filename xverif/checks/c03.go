package checks

import (
	"fmt"
	"math"
	"strconv"
	"strings"
	"time"

	. "github.com/gontainer/gontainer/xverif/core"
)

// C03 — parameter and %pattern% evaluation semantics. All strings up to length L over a small alphabet
// (verdict vs. a hand-written evaluator, accepted ones evaluated in the probe), all chunk sequences up to
// length k over 20 chunk kinds, the same as service arguments, and the %-doubling corollary.

var c03sigma = []string{"%", "a", "p", ".", "(", ")", `"`, " ", ",", "é"}

func c03universe() *Cfg {
	m := stdMeta()
	m.Functions = []KV{{"a", "pk.FnStr"}, {"p", "pk.FnInt"}}
	return &Cfg{Meta: m, Params: []Param{{"a", 5}, {"p", "str"}, {"a.p", true}}}
}

// c03verdict: "reject" (with the fragment a diagnostic must contain), "accept", or "unspec".
func c03verdict(s string, declared map[string]bool, fns map[string]bool) (verdict, fragment string) {
	chunks, ok := Chunks(s)
	if !ok {
		return "reject", "not closed token"
	}
	unspec := false
	for _, ch := range chunks {
		if ch == "%%" || !(len(ch) >= 2 && strings.HasPrefix(ch, "%") && strings.HasSuffix(ch, "%")) {
			continue
		}
		inner := ch[1 : len(ch)-1]
		if IsYamlToken(inner) {
			if !declared[inner] {
				return "reject", `"` + inner + `"`
			}
			continue
		}
		if name, args, ok := FnCall(inner); ok {
			if !fns[name] {
				return "reject", quoteASCII(ch)
			}
			if !goArgListOK(args) {
				return "reject", quoteASCII(ch)
			}
			if !literalArgs(args) {
				unspec = true
			}
			continue
		}
		return "reject", quoteASCII(ch)
	}
	if unspec {
		return "unspec", ""
	}
	return "accept", ""
}

func quoteASCII(s string) string {
	q := strconv.QuoteToASCII(s)
	return q[1 : len(q)-1]
}

// goArgListOK: a hand-written recursive-descent recogniser of "the text between the parentheses is a Go call
// argument list" for the alphabets this check generates (identifiers made of letters, string literals without
// escapes, '.', ',', parentheses, spaces):
//
//	ArgList := [ Expr { ',' Expr } [ '...' ] [ ',' ] ]
//	Expr    := Unary { '/' Unary }            (comments are rejected up front)
//	Unary   := Primary { '.' ident | '.' '(' Type ')' | '(' ArgList ')' }
//	Primary := ident | string | '(' Expr ')'
//	Type    := ident { '.' ident } | '(' Type ')'
func goArgListOK(a string) bool {
	// a comment swallows the closing parenthesis of the call (line comment) or cannot be closed over the
	// alphabets used here (block comment needs '*')
	inStr := false
	for i := 0; i+1 < len(a); i++ {
		if a[i] == '"' {
			inStr = !inStr
		}
		if !inStr && a[i] == '/' && (a[i+1] == '/' || a[i+1] == '*') {
			return false
		}
	}
	p := &argParser{s: a}
	if !p.argList() {
		return false
	}
	p.ws()
	return p.i == len(p.s)
}

type argParser struct {
	s string
	i int
}

func (p *argParser) ws() {
	for p.i < len(p.s) && p.s[p.i] == ' ' {
		p.i++
	}
}

func (p *argParser) peek() byte {
	p.ws()
	if p.i < len(p.s) {
		return p.s[p.i]
	}
	return 0
}

func isArgIdentByte(c byte) bool { return c >= 0x80 || c == '_' || isIdentByte(c) }

func (p *argParser) ident() bool {
	p.ws()
	j := p.i
	for j < len(p.s) && isArgIdentByte(p.s[j]) {
		j++
	}
	if j == p.i || (p.s[p.i] >= '0' && p.s[p.i] <= '9') {
		return false
	}
	p.i = j
	return true
}

func (p *argParser) typ() bool {
	if p.peek() == '(' {
		p.i++
		if !p.typ() || p.peek() != ')' {
			return false
		}
		p.i++
		return true
	}
	if !p.ident() {
		return false
	}
	for p.peek() == '.' {
		save := p.i
		p.i++
		if !p.ident() {
			p.i = save
			return false
		}
	}
	return true
}

func (p *argParser) primary() bool {
	switch c := p.peek(); {
	case c == '"':
		j := p.i + 1
		for j < len(p.s) && p.s[j] != '"' {
			if p.s[j] == '\\' || p.s[j] == '\n' {
				return false
			}
			j++
		}
		if j >= len(p.s) {
			return false
		}
		p.i = j + 1
		return true
	case c == '(':
		p.i++
		if !p.expr() || p.peek() != ')' {
			return false
		}
		p.i++
		return true
	}
	return p.ident()
}

// expr: a chain of unary expressions joined by the binary operator '/' (the only operator in the alphabets)
func (p *argParser) expr() bool {
	if !p.unary() {
		return false
	}
	for p.peek() == '/' {
		p.i++
		if !p.unary() {
			return false
		}
	}
	return true
}

func (p *argParser) unary() bool {
	if !p.primary() {
		return false
	}
	for {
		switch p.peek() {
		case '.':
			// not "..." (handled by the argument list)
			if strings.HasPrefix(p.s[p.i:], "...") {
				return true
			}
			p.i++
			if p.peek() == '(' {
				p.i++
				if !p.typ() || p.peek() != ')' {
					return false
				}
				p.i++
				continue
			}
			if !p.ident() {
				return false
			}
		case '(':
			p.i++
			if !p.argList() || p.peek() != ')' {
				return false
			}
			p.i++
		default:
			return true
		}
	}
}

func (p *argParser) argList() bool {
	c := p.peek()
	if c == 0 || c == ')' {
		return true
	}
	for {
		if !p.expr() {
			return false
		}
		p.ws()
		if strings.HasPrefix(p.s[p.i:], "...") {
			p.i += 3
			if p.peek() == ',' {
				p.i++
			}
			c := p.peek()
			return c == 0 || c == ')'
		}
		if p.peek() != ',' {
			return true
		}
		p.i++
		if c := p.peek(); c == 0 || c == ')' {
			return true // trailing comma
		}
	}
}

// literalArgs: the argument list consists of string literals only (symbols that exist by construction).
func literalArgs(a string) bool {
	_, ok := parseStringList(a)
	return ok
}

func parseStringList(a string) ([]any, bool) {
	a = strings.TrimSpace(a)
	if a == "" {
		return nil, true
	}
	var out []any
	i := 0
	for {
		for i < len(a) && a[i] == ' ' {
			i++
		}
		if i >= len(a) || a[i] != '"' {
			return nil, false
		}
		j := i + 1
		for j < len(a) && a[j] != '"' {
			if a[j] == '\\' {
				return nil, false
			}
			j++
		}
		if j >= len(a) {
			return nil, false
		}
		out = append(out, a[i+1:j])
		i = j + 1
		for i < len(a) && a[i] == ' ' {
			i++
		}
		if i >= len(a) {
			return out, true
		}
		if a[i] != ',' {
			return nil, false
		}
		i++
	}
}

type c03kind struct {
	id, text string
}

var c03kinds = []c03kind{
	{"lit", "lit"}, {"lit-sp", " x "}, {"pct", "%%"},
	{"ref-int", "%rInt%"}, {"ref-nil", "%rNil%"}, {"ref-bool", "%rBool%"}, {"ref-float", "%rFloat%"}, {"ref-str", "%rStr%"}, {"ref-uint", "%rUint%"}, {"ref-multi", "%rMulti%"}, {"ref-bigfloat", "%rBigFloat%"}, {"ref-tinyfloat", "%rTinyFloat%"}, {"ref-negint", "%rNegInt%"},
	{"fn-ok", `%fnStr("q", 2)%`}, {"fn-int", `%fnInt()%`}, {"fn-nil", `%fnNil()%`}, {"fn-fail", `%fnE("fail")%`},
	{"env-hit", `%env("C03_SET")%`}, {"env-miss", `%env("C03_UNSET")%`}, {"env-default", `%env("C03_UNSET", "dflt")%`},
	{"envint-ok", `%envInt("C03_INT")%`}, {"envint-bad", `%envInt("C03_SET")%`}, {"envint-default", `%envInt("C03_UNSET", 81)%`},
	{"todo", `%todo()%`}, {"todo-msg", `%todo("not yet")%`},
	{"env-empty", `%env("C03_EMPTY")%`}, {"env-empty-default", `%env("C03_EMPTY", "dflt")%`}, {"envint-empty", `%envInt("C03_EMPTY", 4)%`},
}

var c03env = map[string]string{"C03_SET": "envvalue", "C03_INT": "-12", "C03_UNSET": "\x00unset", "C03_EMPTY": ""}
var c03modelEnv = map[string]string{"C03_SET": "envvalue", "C03_INT": "-12", "C03_EMPTY": ""}

func c03seqBase() *Cfg {
	c := &Cfg{Meta: stdMeta()}
	c.Params = []Param{{"rInt", 5}, {"rNil", nil}, {"rBool", false}, {"rFloat", 2.5}, {"rStr", "s%%t"}, {"rUint", uint64(math.MaxUint64)}, {"rMulti", "<%rInt%|%rStr%>"}, {"rBigFloat", 1e21}, {"rTinyFloat", 0.00001}, {"rNegInt", -9223372036854775807}}
	return c
}

func init() {
	Register(&Check{
		ID:    "C03",
		Level: "exploration",
		Rule: "(1) every string of length <= 3 and every string containing '%' of length <= 5 (quick) / <= 6 (thorough) over {%, a, p, ., (, ), \", space, comma, é} as a parameter value: build verdict vs. hand-written evaluator (reject / accept / unspecified), accepted ones packed and evaluated by GetParam in a probe; " +
			"(1b) every argument text of length <= 4 / <= 5 over {(, ), \", a, comma, space, ., /} inside %a(...)%, in both modes; (1d) every string of length <= 3 over {%, backslash, \", newline, carriage return, tab, NUL, an astral rune, ', `, $, @, !, U+2028} as parameter and as constructor argument; (2) every chunk sequence of length <= 3 (quick) / <= 4 (thorough) over 25 chunk kinds (literals, %%, references to every literal type, functions ok/failing, env/envInt hit/miss/default/bad, todo) as parameter and as constructor argument; (3) the doubling corollary for every string of (1); (4) 36 values of the environment variable (signs, leading zeros, base prefixes, underscores, blanks, int64 limits, non-ASCII digits, %) read through env / envInt, alone, with defaults and inside patterns; (5) a registered function with typed parameters (int64, float64, uint8, string, ...float32) called with integer and float literals; (6) ten ways of naming the package of a registered function (alias, alias/sub-path, quoted, unquoted, dotted and dashed paths), each called three times. non-trivial = contains '%' or is evaluated at run time; distinct = distinct string / sequence",
		Assumptions: []string{
			"unspecified: function-call chunks whose argument text is valid Go but not a list of string literals (identifiers would have to exist as Go symbols)",
			"the pinned runtime's documented string cast (exporter.CastToString) is re-stated in the model for the YAML literal types",
		},
		BudgetQuick: 280 * time.Second, BudgetThorough: 1500 * time.Second,
		Prepare: PrepareUniverse,
		Run: func(w *W) {
			L := 5
			if !w.Env.Quick() {
				L = 6
			}
			// (1) strings
			var strs []string
			// shorter strings first: a time cap leaves a completed length bound behind
			words(c03sigma, L, func(cur string) {
				if cur != "" && (strings.Contains(cur, "%") || len([]rune(cur)) <= 3) {
					strs = append(strs, cur)
				}
			})
			strs = append(strs, "")
			declared := map[string]bool{"a": true, "p": true, "a.p": true}
			fns := map[string]bool{"a": true, "p": true, "env": true, "envInt": true, "todo": true}
			const batch = 400
			for i := 0; i < len(strs); i += batch {
				j := i + batch
				if j > len(strs) {
					j = len(strs)
				}
				part := strs[i:j]
				w.Case(fmt.Sprintf("strings/%d-%d", i, j-1), func(c *C) {
					c.Add("evaluations_extra", int64(len(part)))
					packed := c03universe()
					double := c03universe()
					type ent struct {
						name, s string
					}
					var ents []ent
					for k, s := range part {
						c.Distinct("all", "s:"+s)
						if strings.Contains(s, "%") {
							c.Distinct("nontrivial", "s:"+s)
						}
						cfg := c03universe()
						cfg.Params = append(cfg.Params, Param{"x", s})
						files := []File{{"c.yaml", cfg.YAML()}}
						br := w.Build(files)
						fm := FilesMap(files)
						v, frag := c03verdict(s, declared, fns)
						c.Count("verdict_" + v)
						if br.Panic != "" {
							c.Violation("panic", fmt.Sprintf("tool panicked on parameter value %q:\n%s", s, br.Panic), fm, nil)
							continue
						}
						switch v {
						case "reject":
							if br.Exit == 0 {
								c.Violation("malformed-accepted:"+classify(s), fmt.Sprintf("parameter value %q must be rejected (%s) but was accepted", s, frag), fm, nil)
							} else if !strings.Contains(br.Out, frag) {
								c.Violation("diagnostic-does-not-name-token", fmt.Sprintf("parameter value %q rejected, but no diagnostic contains %q:\n%s", s, frag, strings.Join(ErrorLines(br.Out), "\n")), fm, nil)
							}
						case "accept":
							if br.Exit != 0 {
								c.Violation("valid-rejected:"+classify(s), fmt.Sprintf("parameter value %q must be accepted:\n%s", s, strings.Join(ErrorLines(br.Out), "\n")), fm, nil)
							} else {
								name := fmt.Sprintf("x%d", k)
								packed.Params = append(packed.Params, Param{name, s})
								ents = append(ents, ent{name, s})
							}
						}
						// doubling corollary
						double.Params = append(double.Params, Param{fmt.Sprintf("d%d", k), strings.ReplaceAll(s, "%", "%%")})
					}
					var ops []ProbeOp
					for _, e := range ents {
						ops = append(ops, op("param", e.name))
					}
					var dops []ProbeOp
					for k := range part {
						dops = append(dops, op("param", fmt.Sprintf("d%d", k)))
					}
					cases := []*BCase{
						{ID: c.ID + "/packed", Cfg: packed, Sessions: []BSession{{Ops: ops}}},
						{ID: c.ID + "/doubled", Cfg: double, Sessions: []BSession{{Ops: dops}}},
					}
					outs, err := w.RunBehaviour(cases)
					behaviourOracle(c, outs, err)
					// the corollary, stated directly (not via the model)
					if len(outs) == 2 && len(outs[1].Sessions) == 1 {
						res := outs[1].Sessions[0]
						for k, s := range part {
							if k+1 >= len(res) {
								break
							}
							r := res[k+1]
							got, _ := r.V["v"].(string)
							if r.Err != "" || r.V["t"] != "string" || got != s {
								c.Violation("doubling-corollary", fmt.Sprintf("pattern %q must evaluate to %q; observed %v err=%q", strings.ReplaceAll(s, "%", "%%"), s, r.V, r.Err), FilesMap(cases[1].Files), nil)
							}
							c.Count("doubling_checked")
						}
					}
					if i == 0 {
						c.Sample(map[string]any{"strings": part[:8], "packed_params": len(ents)})
					}
				})
			}
			// (1d) a second alphabet: quotes, backslash, newline, NUL, an astral rune, characters that start other
			// argument forms; every string of length <= 3 as parameter value and as constructor argument
			var wild []string
			words([]string{"%", `\`, `"`, "\n", "\r", "\t", "\x00", "😀", "'", "`", "$", "@", "!", "\u2028"}, 3, func(x string) {
				if x != "" {
					wild = append(wild, x)
				}
			})
			for i := 0; i < len(wild); i += 300 {
				j := i + 300
				if j > len(wild) {
					j = len(wild)
				}
				part := wild[i:j]
				w.Case(fmt.Sprintf("wild/%d-%d", i, j-1), func(c *C) {
					c.Add("evaluations_extra", int64(len(part)))
					packed, args, double := c03universe(), c03universe(), c03universe()
					var pops, aops, dops []ProbeOp
					for k, sv := range part {
						c.Distinct("all", "w:"+sv)
						c.Distinct("nontrivial", "w:"+sv)
						v, frag := c03verdict(sv, declared, fns)
						cfg := c03universe()
						cfg.Params = append(cfg.Params, Param{"x", sv})
						files := []File{{"c.yaml", cfg.YAML()}}
						br := w.Build(files)
						switch {
						case br.Panic != "":
							c.Violation("panic", fmt.Sprintf("tool panicked on parameter value %q:\n%s", sv, br.Panic), FilesMap(files), nil)
						case v == "reject" && br.Exit == 0:
							c.Violation("malformed-accepted:"+classify(sv), fmt.Sprintf("parameter value %q must be rejected (%s) but was accepted", sv, frag), FilesMap(files), nil)
						case v == "accept" && br.Exit != 0:
							c.Violation("valid-rejected:"+classify(sv), fmt.Sprintf("parameter value %q must be accepted:\n%s", sv, strings.Join(ErrorLines(br.Out), "\n")), FilesMap(files), nil)
						case v == "accept":
							n := fmt.Sprintf("x%d", k)
							packed.Params = append(packed.Params, Param{n, sv})
							pops = append(pops, op("param", n))
							// as an argument the string goes through the first-match chain: only patterns stay patterns
							if kind, _, _ := ArgKind(sv); kind == "pattern" {
								sn := fmt.Sprintf("s%d", k)
								args.Services = append(args.Services, Service{Name: sn, Constructor: P("pk.New"), Args: []any{sv}})
								aops = append(aops, op("get", sn))
							}
						}
						dn := fmt.Sprintf("d%d", k)
						double.Params = append(double.Params, Param{dn, strings.ReplaceAll(sv, "%", "%%")})
						dops = append(dops, op("param", dn))
					}
					cases := []*BCase{{ID: c.ID + "/params", Cfg: packed, Sessions: []BSession{{Ops: pops}}}, {ID: c.ID + "/args", Cfg: args, Sessions: []BSession{{Ops: aops}}}, {ID: c.ID + "/doubled", Cfg: double, Sessions: []BSession{{Ops: dops}}}}
					outs, err := w.RunBehaviour(cases)
					behaviourOracle(c, outs, err)
				})
			}
			// (1b) argument texts of a registered function: every string of length <= A over {(, ), ", a, comma, space, ., /}
			// between the parentheses of %a(...)%, alone and inside a multi-chunk pattern
			A := 4
			if !w.Env.Quick() {
				A = 5
			}
			var argTexts []string
			words([]string{"(", ")", `"`, "a", ",", " ", ".", "/"}, A, func(x string) { argTexts = append(argTexts, x) })
			for i := 0; i < len(argTexts); i += 500 {
				j := i + 500
				if j > len(argTexts) {
					j = len(argTexts)
				}
				part := argTexts[i:j]
				w.Case(fmt.Sprintf("fnargs/%d-%d", i, j-1), func(c *C) {
					c.Add("evaluations_extra", int64(2*len(part)))
					for _, at := range part {
						for _, pat := range []string{"%a(" + at + ")%", "x%a(" + at + ")%%p%"} {
							c.Distinct("all", "f:"+pat)
							c.Distinct("nontrivial", "f:"+pat)
							cfg := c03universe()
							cfg.Params = append(cfg.Params, Param{"x", pat})
							files := []File{{"c.yaml", cfg.YAML()}}
							v, frag := c03verdict(pat, declared, fns)
							c.Count("fnargs_" + v)
							for _, flags := range [][]string{nil, {"--stub"}} {
								br := w.Build(files, flags...)
								if br.Panic != "" {
									c.Violation("panic", fmt.Sprintf("tool panicked on parameter value %q:\n%s", pat, br.Panic), FilesMap(files), nil)
									continue
								}
								switch v {
								case "reject":
									if br.Exit == 0 {
										c.Violation("malformed-accepted:function-arguments", fmt.Sprintf("parameter value %q (flags %v) must be rejected (%s) but was accepted", pat, flags, frag), FilesMap(files), nil)
									}
								case "accept":
									if br.Exit != 0 {
										c.Violation("valid-rejected:function-arguments", fmt.Sprintf("parameter value %q (flags %v) must be accepted:\n%s", pat, flags, strings.Join(ErrorLines(br.Out), "\n")), FilesMap(files), nil)
									}
								}
							}
						}
					}
				})
			}
			// (1c) user functions registered under the names of the built-in ones take precedence (meta.functions is
			// merged after the defaults), and a function registered in a later file replaces an earlier one
			w.Case("function-registration", func(c *C) {
				one := &Cfg{Meta: stdMeta(), Params: []Param{{"e", `%env("K")%`}, {"i", `%envInt("K")%-%todo()%`}, {"u", `%mine("x")%`}}}
				one.Meta.Functions = []KV{{"env", "pk.FnStr"}, {"envInt", "pk2.FnInt"}, {"todo", "pk.FnNil"}, {"mine", "pk2.FnStr"}, {"other1", "pk.FnE"}, {"other2", "pk.FnE"}}
				a := &Cfg{Meta: &Meta{Pkg: P("gen"), Imports: []KV{{"pk", "fx/pk"}, {"pk2", "fx/pk2"}}, Functions: []KV{{"mine", "pk.FnInt"}, {"env", "pk2.FnNil"}}}}
				b := &Cfg{Meta: &Meta{Functions: one.Meta.Functions}, Params: one.Params}
				merged := &Cfg{Meta: stdMeta(), Params: one.Params}
				merged.Meta.Functions = one.Meta.Functions
				ops := []ProbeOp{op("param", "e"), op("param", "i"), op("param", "u")}
				cases := []*BCase{
					{ID: "functions/override-builtins", Cfg: one, Sessions: []BSession{{Ops: ops}}},
					{ID: "functions/later-file-wins", Cfg: merged, Files: []File{{"a.yaml", a.YAML()}, {"b.yaml", b.YAML()}}, Sessions: []BSession{{Ops: ops}}},
				}
				outs, err := w.RunBehaviour(cases)
				behaviourOracle(c, outs, err)
				c.Distinct("nontrivial", c.ID)
			})
			// (2) chunk sequences as parameters and as constructor arguments
			k := 3
			if !w.Env.Quick() {
				k = 4
			}
			var seqs [][]int
			var sgen func(cur []int)
			sgen = func(cur []int) {
				if len(cur) > 0 {
					seqs = append(seqs, append([]int{}, cur...))
				}
				if len(cur) == k {
					return
				}
				for i := range c03kinds {
					sgen(append(cur, i))
				}
			}
			sgen(nil)
			const sb = 250
			for i := 0; i < len(seqs); i += sb {
				j := i + sb
				if j > len(seqs) {
					j = len(seqs)
				}
				part := seqs[i:j]
				w.Case(fmt.Sprintf("sequences/%d-%d", i, j-1), func(c *C) {
					c.Add("evaluations_extra", int64(len(part)))
					cfg := c03seqBase()
					args := c03seqBase()
					var ops, aops []ProbeOp
					for n, sq := range part {
						var sb strings.Builder
						var ids []string
						for _, ki := range sq {
							sb.WriteString(c03kinds[ki].text)
							ids = append(ids, c03kinds[ki].id)
						}
						c.Distinct("all", "q:"+strings.Join(ids, "+"))
						c.Distinct("nontrivial", "q:"+strings.Join(ids, "+"))
						name := fmt.Sprintf("q%d", n)
						cfg.Params = append(cfg.Params, Param{name, sb.String()})
						ops = append(ops, op("param", name))
						if len(sq) <= 2 {
							sn := fmt.Sprintf("s%d", n)
							args.Services = append(args.Services, Service{Name: sn, Constructor: P("pk.New"), Args: []any{"head", sb.String()}})
							aops = append(aops, op("get", sn))
						}
					}
					cases := []*BCase{{ID: c.ID + "/params", Cfg: cfg, Sessions: []BSession{{Env: c03env, Ops: ops}}}}
					if len(aops) > 0 {
						cases = append(cases, &BCase{ID: c.ID + "/args", Cfg: args, Sessions: []BSession{{Env: c03env, Ops: aops}}})
					}
					outs, err := w.RunBehaviour(cases)
					for _, o := range outs {
						for si := range o.Case.Sessions {
							o.Case.Sessions[si].Env = c03modelEnv
						}
					}
					behaviourOracle(c, outs, err)
				})
			}
			// (8) a name that is not registered is an unknown function, however close it is to a registered one (longer,
			// shorter, other case); every registered name is accepted
			w.Case("function-names-near-registered", func(c *C) {
				registered := []string{"env", "envInt", "todo", "fnStr", "fnInt", "up", "upper", "upperFirst"}
				var names []string
				for _, r := range registered {
					names = append(names, r, r+"x", r+"Int", r+"_", r+"1", r[:len(r)-1], strings.ToLower(r), strings.ToUpper(r), strings.ToUpper(r[:1])+r[1:], "x"+r)
				}
				isReg := map[string]bool{}
				for _, r := range registered {
					isReg[r] = true
				}
				seen := map[string]bool{}
				for _, n := range names {
					if seen[n] || !IsGoToken(n) {
						continue
					}
					seen[n] = true
					cfg := &Cfg{Meta: stdMeta(), Params: []Param{{"x", "%" + n + `("A", 1)%`}}}
					cfg.Meta.Functions = append(cfg.Meta.Functions, KV{"up", "pk.FnStr"}, KV{"upper", "pk2.FnStr"}, KV{"upperFirst", "pk.FnInt"})
					files := []File{{"c.yaml", cfg.YAML()}}
					br := w.Build(files)
					c.Distinct("all", "fname:"+n)
					c.Distinct("nontrivial", "fname:"+n)
					c.Count("evaluations_extra")
					switch {
					case br.Panic != "":
						c.Violation("panic", "tool panicked on function name "+n+":\n"+br.Panic, FilesMap(files), nil)
					case isReg[n] && br.Exit != 0:
						c.Violation("registered-function-rejected:"+n, "the registered function "+n+" is rejected:\n"+strings.Join(ErrorLines(br.Out), "\n"), FilesMap(files), nil)
					case !isReg[n] && br.Exit == 0:
						c.Violation("unknown-function-accepted", "%"+n+"(...)% is not a registered function (registered: "+strings.Join(registered, ", ")+") but the configuration was accepted", FilesMap(files), nil)
					}
				}
			})
			// (7) values that a block-style YAML file writes as literal block scalars (lines beginning with tabs or blanks,
			// blank lines, patterns spread over lines): the generated file is the same as for the quoted one-line spelling
			w.Case("yaml-presentation/block-scalars", func(c *C) {
				cfg := &Cfg{Meta: stdMeta(), Params: []Param{{"p", "referenced"}}}
				for i, v := range []string{"\tindented", "a\n\tb", "rule:\n\tcmd one\n\tcmd two", "  two blanks first\n one", "x\n\n\ny", "100%% of %p%\n\tnext line %p%", "col1\tcol2\nv1\tv2", "ends with a line feed\n", "\n starts with a line feed", "trailing blanks  \nand\ttabs\t"} {
					cfg.Params = append(cfg.Params, Param{fmt.Sprintf("b%d", i), v})
					cfg.Services = append(cfg.Services, Service{Name: fmt.Sprintf("s%d", i), Constructor: P("pk.New"), Args: []any{v}, Fields: []KV{{"F1", v}}})
				}
				c.Distinct("all", c.ID)
				w.ShapeInvarianceOK(c, c.ID, []File{{"c.yaml", cfg.YAML()}}, true)
				w.NameInvariance(c, c.ID, cfg)
			})
			// (6) how the registered function names its package: alias, alias/sub-path, quoted, unquoted, paths with dots and dashes
			w.Case("function-import-forms", func(c *C) {
				cfg := &Cfg{Meta: &Meta{Pkg: P("gen"), Imports: []KV{{"pk", "fx/pk"}, {"fxroot", "fx"}, {"dotted.alias", "fx/p-k.g"}}}}
				var ops []ProbeOp
				for i, fn := range []string{"pk.FnStr", "fxroot/pk2.FnStr", `"fx/pk".FnInt`, "fx/pk2.FnInt", "fx/p-k.g.FnStr", `"fx/p-k.g".FnInt`, "dotted.alias.FnStr", "fx/a/pkg.FnStr", `"fx/ab/ab".FnStr`, "fxroot/pk2/sub.FnInt"} {
					n := fmt.Sprintf("f%d", i)
					cfg.Meta.Functions = append(cfg.Meta.Functions, KV{n, fn})
					cfg.Params = append(cfg.Params, Param{"p" + n, "%" + n + `("x", 1)%`}, Param{"m" + n, "<%" + n + "()%|%" + n + "(2)%>"})
					ops = append(ops, op("param", "p"+n), op("param", "m"+n))
					c.Distinct("all", "fnform:"+fn)
					c.Distinct("nontrivial", "fnform:"+fn)
				}
				outs, err := w.RunBehaviour([]*BCase{{ID: c.ID, Cfg: cfg, Sessions: []BSession{{Ops: append(ops, op("counters", ""))}}}})
				behaviourOracle(c, outs, err)
			})
			// (6b) ... and when it names the current package: the explicit "." spelling and the bare function name
			w.Case("function-of-the-current-package", func(c *C) {
				cfg := &Cfg{Meta: &Meta{Pkg: P("gen"), Imports: []KV{{"pk", "fx/pk"}}}}
				var ops []ProbeOp
				for i, fn := range []string{`".".FnStr`, "FnInt", `".".FnInt`, "FnStr", "pk.FnStr"} {
					n := fmt.Sprintf("f%d", i)
					cfg.Meta.Functions = append(cfg.Meta.Functions, KV{n, fn})
					cfg.Params = append(cfg.Params, Param{"p" + n, "%" + n + `("x", 1)%`}, Param{"m" + n, "<%" + n + "()%|%" + n + "(2)%>"})
					ops = append(ops, op("param", "p"+n), op("param", "m"+n))
					c.Distinct("all", "fnform-local:"+fn)
					c.Distinct("nontrivial", "fnform-local:"+fn)
				}
				cfg.Services = []Service{{Name: "s", Constructor: P(`".".New`), Args: []any{"%pf0%", "%mf1%"}}}
				ops = append(ops, op("get", "s"))
				outs, err := w.RunBehaviour([]*BCase{{ID: c.ID, Cfg: cfg, Local: true, Sessions: []BSession{{Ops: append(ops, op("counters", ""))}}}})
				behaviourOracle(c, outs, err)
			})
			// (5) a registered function whose parameter types differ from the literal types: the call happens "with those
			// arguments", i.e. converted to the parameter types
			w.Case("typed-function-arguments", func(c *C) {
				cfg := &Cfg{Meta: stdMeta()}
				var ops []ProbeOp
				for i, a := range []string{`1, 2, 3, "x"`, `-7, 2.5, 255, ""`, `0, 0, 0, "%"`, `9223372036854775807, 1e300, 1, "s", 1, 2, 3.5`, `1,2,3,"a, b"`, ` 4 , 5 , 6 , "sp" `, `1, 2, 3, "x", -0.5`} {
					n := fmt.Sprintf("t%d", i)
					if strings.Contains(a, "%") {
						continue
					}
					cfg.Params = append(cfg.Params, Param{n, "%fnTyped(" + a + ")%"}, Param{n + "m", "<%fnTyped(" + a + ")%|%" + n + "%>"})
					ops = append(ops, op("param", n), op("param", n+"m"))
					c.Distinct("all", "typed:"+a)
					c.Distinct("nontrivial", "typed:"+a)
				}
				outs, err := w.RunBehaviour([]*BCase{{ID: c.ID, Cfg: cfg, Sessions: []BSession{{Ops: append(ops, op("counters", ""))}}}})
				behaviourOracle(c, outs, err)
			})
			// (7) values that print alike and differ in type, in ONE configuration, every value under a name that sorts early
			// and under one that sorts late (so every pair of lookalikes meets in both orders), each also behind a
			// single-chunk reference: each parameter keeps ITS value and type whatever else the configuration holds
			w.Case("lookalike-values-in-one-configuration", func(c *C) {
				vals := []any{30, 30.0, "30", "30.0", 2, 2.0, "2", true, "true", false, "false", nil, "null", "~", "", 0, 0.0, "0", "0.0", -0.0, 1000, 1e3, "1e3", "1000",
					uint64(18446744073709551615), 18446744073709551615.0, "18446744073709551615", 1.5, "1.5", "nil", "<nil>", " 30", "30 ", "%%30", "int(30)", "float64(30)", `"30"`}
				cfg := &Cfg{Meta: stdMeta()}
				var ops []ProbeOp
				k := len(vals)
				for i, v := range vals {
					early, late := fmt.Sprintf("a%02d", i), fmt.Sprintf("z%02d", k-1-i)
					cfg.Params = append(cfg.Params, Param{early, v}, Param{late, v}, Param{"r" + early, "%" + early + "%"}, Param{"r" + late, "%" + late + "%"}, Param{"m" + early, "<%" + early + "%|%" + late + "%>"})
					cfg.Services = append(cfg.Services, Service{Name: "s" + early, Constructor: P("pk.New"), Args: []any{"%" + early + "%", "%r" + late + "%"}, Fields: []KV{{"F1", "%" + late + "%"}}})
					ops = append(ops, op("param", early), op("param", late), op("param", "r"+early), op("param", "r"+late), op("param", "m"+early), op("get", "s"+early))
					c.Distinct("all", fmt.Sprintf("lookalike:%T:%v", v, v))
					c.Distinct("nontrivial", fmt.Sprintf("lookalike:%T:%v", v, v))
				}
				outs, err := w.RunBehaviour([]*BCase{{ID: c.ID, Cfg: cfg, Sessions: []BSession{{Ops: ops}}}})
				behaviourOracle(c, outs, err)
				w.NameInvariance(c, c.ID, cfg)
			})
			// (4) what the environment holds: envInt is strconv.Atoi of the variable, env is the variable verbatim
			w.Case("environment-values", func(c *C) {
				vals := []string{"0", "-0", "+5", "7", "010", "0080", "0x1F", "0X1f", "0b11", "0o17", "1_000", " 5", "5 ", "5\n", "9223372036854775807", "9223372036854775808", "-9223372036854775808",
					"1e3", "1.0", "", "٣", "５", "--5", "+-5", "0x", "_1", "1_", "nil", "true", "%", "%%", "%p%", `"5"`, "'5'", "5,6", "💯"}
				env := map[string]string{}
				cfg := &Cfg{Meta: stdMeta(), Params: []Param{{"p", "referenced"}}}
				var ops []ProbeOp
				for i, v := range vals {
					k := fmt.Sprintf("C03_V%d", i)
					env[k] = v
					cfg.Params = append(cfg.Params,
						Param{fmt.Sprintf("i%d", i), `%envInt("` + k + `")%`}, Param{fmt.Sprintf("im%d", i), `<%envInt("` + k + `", 3)%>`},
						Param{fmt.Sprintf("e%d", i), `%env("` + k + `")%`}, Param{fmt.Sprintf("em%d", i), `<%env("` + k + `", "d")%|%env("` + k + `")%>`})
					cfg.Services = append(cfg.Services, Service{Name: fmt.Sprintf("s%d", i), Constructor: P("pk.New"), Args: []any{`%envInt("` + k + `")%`, `%env("` + k + `")%`}})
					ops = append(ops, op("param", fmt.Sprintf("i%d", i)), op("param", fmt.Sprintf("im%d", i)), op("param", fmt.Sprintf("e%d", i)), op("param", fmt.Sprintf("em%d", i)), op("get", fmt.Sprintf("s%d", i)))
					c.Distinct("all", "envval:"+v)
					c.Distinct("nontrivial", "envval:"+v)
				}
				outs, err := w.RunBehaviour([]*BCase{{ID: c.ID, Cfg: cfg, Sessions: []BSession{{Env: env, Ops: ops}}}})
				behaviourOracle(c, outs, err)
			})
		},
	})
}

// classify gives a coarse class of a pattern for violation keys.
func classify(s string) string {
	switch {
	case strings.Count(s, "%")%2 == 1:
		return "unbalanced"
	case strings.Contains(s, "("):
		return "function-like"
	}
	return "token"
}
