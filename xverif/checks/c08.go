package checks

import (
	"bytes"
	"fmt"
	"os"
	"os/exec"
	"path/filepath"
	"sort"
	"strings"
	"sync"
	"time"

	. "github.com/gontainer/gontainer/xverif/core"
	"github.com/gontainer/gontainer/xverif/vmap"
)

// C08 — output and diagnostics are deterministic and key-order independent.
// CHOICE-X over map iteration order (every range-over-map of the tool is a choice point), exhaustive key
// permutations of every YAML mapping, env / cwd grid on the real binary, repeated fresh processes.

type c08cfg struct {
	id    string
	files func() []File
	args  []string // default: -i each file
	flags []string
}

func c08configs() []c08cfg {
	rich := func() *Cfg {
		return &Cfg{
			Meta: &Meta{Pkg: P("gen"), DefaultMustGetter: P(true),
				Imports:   []KV{{"a", "fx/b/pkg"}, {"ab", "fx/ab"}, {"pk", "fx/pk"}, {"zz", "fx/pk2"}, {"pk.v2", "fx/a/pkg"}, {"pk.v2.x", "fx/os"}, {"pk-v2", "fx/errors"}},
				Functions: []KV{{"f1", "pk.FnStr"}, {"f2", "ab.FnInt"}, {"f3", `"fx/a".FnE`}}},
			Params: []Param{{"p3", "%f3()%%p1%"}, {"p1", 1}, {"p2", "%f1()%-%f2()%-%p1%"}, {"p4", `%todo("later")%`}, {"p5", `%env("C08_X", "d")%:%envInt("C08_Y", 3)%`}, {"p6", nil}},
			Services: []Service{
				{Name: "s3", Constructor: P("ab/sub.New"), Args: []any{"@s1", "%p2%", "!value a.Var"}, Fields: []KV{{"Fz", "!value \"fx/b/pkg\".Var"}, {"Fa", "@s1"}, {"Fm", "%p3%"}, {"Fb", "!value \"fx/errors\".Const"}, {"Fc", "!value \"fx/os\".Var"}}, Tags: []Tag{{Name: "tg", Priority: P(100)}, {Name: "other", Priority: P(-1)}, {Name: "third"}}},
				{Name: "s1", Constructor: P("a.New"), Getter: P("GetS1"), Type: P("*zz.Obj")},
				{Name: "s2", Value: P("&ab.Obj{}"), Fields: []KV{{"F2", 2}, {"F1", "!tagged tg"}}},
				{Name: "s4", Constructor: P("pk.v2.New"), Args: []any{"!value pk.v2.x.Var", "!value pk-v2.Const", "!value pk.v2/sub.Var"}},
				{Name: "s5", Todo: P(true)},
				{Name: "s6", Constructor: P("pk.New"), Scope: P("contextual"), Args: []any{"@s5", "%p4%", "%p5%", "$gontainer"}, Calls: []Call{{Method: "With1", Args: []any{"%p6%"}, Immutable: P(true)}}, Getter: P("GetS6"), MustGetter: P(false)},
				{Name: "s7", Type: P("pk.Val"), Scope: P("non_shared")},
			},
			Decorators: []Decorator{{Tag: "tg", Decorator: "zz.Dec1", Args: []any{"@s1"}}, {Tag: "tg", Decorator: "a.Dec2"}, {Tag: "other", Decorator: "ab.Dec3"}, {Tag: "third", Decorator: "pk.Dec1", Args: []any{1}}, {Tag: "other", Decorator: "zz.Dec2"}},
		}
	}
	one := func(c *Cfg) func() []File { return func() []File { return []File{{"c.yaml", c.YAML()}} } }
	var out []c08cfg
	out = append(out, c08cfg{id: "valid-rich", files: one(rich())})
	out = append(out, c08cfg{id: "valid-rich-stub", files: one(rich()), flags: []string{"--stub"}})
	// the same texts under another alias table (the aliases denote other packages), other functions behind the same names,
	// a getter that the first configuration uses for another service
	out = append(out, c08cfg{id: "valid-rich-aliases-rotated", files: one(func() *Cfg {
		c := rich()
		c.Meta.Imports = []KV{{"a", "fx/pk2"}, {"ab", "fx/pk"}, {"pk", "fx/ab"}, {"zz", "fx/b/pkg"}, {"pk.v2", "fx/os"}, {"pk.v2.x", "fx/errors"}, {"pk-v2", "fx/a/pkg"}}
		c.Meta.Functions = []KV{{"f1", "zz.FnInt"}, {"f2", "pk.FnStr"}, {"f3", `"fx/pk2".FnE`}, {"env", "ab.FnStr"}, {"extra", "a.FnNil"}}
		c.Params = append(c.Params, Param{"p7", `%extra()%`})
		c.Services[1].Getter, c.Services[1].Type = nil, nil
		c.Services[2].Getter = P("GetS1")
		return c
	}())})
	// nothing in meta: package, container type and constructor are the documented defaults whatever the environment says
	out = append(out, c08cfg{id: "valid-defaults-only", files: one(&Cfg{Params: []Param{{"p", `%env("HOME", "h")%`}}, Services: []Service{{Name: "s", Value: P("T{}"), Getter: P("GetS")}}})})
	out = append(out, c08cfg{id: "case-colliding-keys", files: one(&Cfg{
		Meta:   &Meta{Pkg: P("gen"), Imports: []KV{{"pk", "fx/pk"}, {"PK", "fx/pk2"}, {"Pk", "fx/ab"}}, Functions: []KV{{"fn", "pk.FnStr"}, {"FN", "PK.FnInt"}, {"Fn", "Pk.FnNil"}}},
		Params: []Param{{"name", "%fn()%"}, {"Name", "%FN()%%gone%"}, {"NAME", "%Fn()%%lost%"}, {"nAme", 4}},
		Services: []Service{{Name: "db", Constructor: P("pk.New"), Args: []any{"@missingB"}, Fields: []KV{{"f1", "!value PK.Var"}, {"F1", "!value Pk.Var"}}},
			{Name: "DB", Constructor: P("PK.New"), Args: []any{"@missingA"}}, {Name: "Db", Constructor: P("Pk.New"), Args: []any{"%nope%"}}},
	})})
	out = append(out, c08cfg{id: "case-colliding-keys-valid", files: one(&Cfg{
		Meta:   &Meta{Pkg: P("gen"), Imports: []KV{{"pk", "fx/pk"}, {"PK", "fx/pk2"}, {"Pk", "fx/ab"}}, Functions: []KV{{"fn", "pk.FnStr"}, {"FN", "PK.FnInt"}, {"Fn", "Pk.FnNil"}}},
		Params: []Param{{"name", "%fn()%"}, {"Name", "%FN()%"}, {"NAME", "%Fn()%"}, {"nAme", 4}},
		Services: []Service{{Name: "db", Constructor: P("pk.New"), Fields: []KV{{"f1", "!value PK.Var"}, {"F1", "!value Pk.Var"}}},
			{Name: "DB", Constructor: P("PK.New")}, {Name: "Db", Constructor: P("Pk.New")}},
	})})
	out = append(out, c08cfg{id: "invalid-every-validation-defect", files: func() []File {
		cfg := c11base()
		for _, d := range c11defects() {
			d.apply(cfg)
		}
		// ... and the duplicates that are only visible across services
		cfg.Services = append(cfg.Services, Service{Name: "dupA", Constructor: P("pk.New"), Getter: P("GetDup")}, Service{Name: "dupB", Constructor: P("pk.New"), Getter: P("GetDup")}, Service{Name: "dupC", Constructor: P("pk.New"), Getter: P("GetDup")})
		return []File{{"c.yaml", cfg.YAML()}}
	}})
	out = append(out, c08cfg{id: "invalid-in-the-formatting-step-stub", flags: []string{"--stub"}, files: one(&Cfg{Meta: &Meta{Pkg: P("gen"), Imports: []KV{{"pk", "fx/pk"}, {"pk2", "fx/pk2"}}},
		Services: []Service{{Name: "s", Constructor: P("pk.New"), Type: P("func"), Getter: P("GetS")}, {Name: "t", Constructor: P("pk2.New"), Type: P("*pk2.Obj"), Getter: P("GetT")}}})})
	out = append(out, c08cfg{id: "invalid-in-the-formatting-step", files: one(&Cfg{Meta: &Meta{Pkg: P("gen"), ContainerType: P("type")}, Params: []Param{{"p", 1}}})})
	out = append(out, c08cfg{id: "valid-three-files", files: func() []File {
		r := rich()
		a := &Cfg{Meta: r.Meta, Params: r.Params[:2]}
		b := &Cfg{Meta: &Meta{Imports: []KV{{"zz", "fx/pk2"}, {"extra", "fx/b/pkg"}}, Functions: []KV{{"f9", "extra.FnNil"}}}, Params: r.Params[1:], Services: r.Services[:2]}
		c := &Cfg{Services: []Service{r.Services[2], {Name: "s3", Fields: []KV{{"Fb", "@s1"}, {"Fa", "@s1"}}}}, Decorators: r.Decorators}
		return []File{{"a.yaml", a.YAML()}, {"b.yaml", b.YAML()}, {"c.yaml", c.YAML()}}
	}})
	// invalid: several simultaneous defects of each class
	inv := func(f func(c *Cfg)) func() []File { c := rich(); f(c); return one(c) }
	out = append(out, c08cfg{id: "invalid-meta", files: inv(func(c *Cfg) {
		c.Meta.Imports = append(c.Meta.Imports, KV{"1x", "/bad"}, KV{"2y", "also bad"}, KV{"ok3", "//"})
		c.Meta.Functions = append(c.Meta.Functions, KV{"9f", "bad fn"}, KV{"8f", "pk."}, KV{"ok-f", "1"})
		c.Meta.Pkg = P("a-b")
	})})
	out = append(out, c08cfg{id: "invalid-services-params", files: inv(func(c *Cfg) {
		c.Params = append(c.Params, Param{"1bad", 1}, Param{"0bad", Raw("[1]")}, Param{"okname", Raw("{a: 1}")})
		c.Services = append(c.Services, Service{Name: "x y", Getter: P("1g"), Fields: []KV{{"1f", Raw("[]")}, {"0f", 1}}}, Service{Name: "a b", Type: P("**"), Value: P("&&"), Constructor: P(".")})
	})})
	out = append(out, c08cfg{id: "invalid-compile", files: inv(func(c *Cfg) {
		c.Params = append(c.Params, Param{"u1", "50%"}, Param{"u2", "%nofn()%"}, Param{"u3", "%a b%%c d%"})
	})})
	out = append(out, c08cfg{id: "invalid-compile-services", files: inv(func(c *Cfg) {
		c.Services = append(c.Services, Service{Name: "w1", Constructor: P("New"), Args: []any{"@", "!value 1"}, Fields: []KV{{"Fb", "!tagged -"}, {"Fa", "@"}}, MustGetter: P(true)},
			Service{Name: "w0", Constructor: P("New"), Calls: []Call{{Method: "M", Args: []any{"%x"}}, {Method: "N", Args: []any{"@"}}}})
	})})
	out = append(out, c08cfg{id: "invalid-output", files: inv(func(c *Cfg) {
		c.Params = append(c.Params, Param{"c1", "%c2%"}, Param{"c2", "%c1%%gone1%"}, Param{"m", "%gone3%%gone2%"})
		c.Services = append(c.Services, Service{Name: "y1", Constructor: P("New"), Args: []any{"@y2", "@lost2", "%gone4%", "@y0", "@y2", "%c1%", "%c2%", "%c1%", "!tagged tg", "!tagged tg"}, Calls: []Call{{Method: "M", Args: []any{"@y2", "@y0"}}}, Scope: P("shared")},
			Service{Name: "y2", Constructor: P("New"), Args: []any{"@y1", "@lost1"}, Scope: P("contextual")},
			Service{Name: "y0", Constructor: P("New"), Args: []any{"@y0", "@y2"}, Scope: P("shared"), Tags: []Tag{{Name: "tg"}}})
		c.Decorators = append(c.Decorators, Decorator{Tag: "tg", Decorator: "pk.Dec3", Args: []any{"@lost3", "%gone5%", "@s3"}})
	})})
	out = append(out, c08cfg{id: "matched-twice", files: func() []File {
		r := rich()
		return []File{{"d/a.yaml", r.YAML()}, {"d/b.yaml", (&Cfg{Params: []Param{{"extra", 1}}}).YAML()}, {"d/c.yaml", (&Cfg{Params: []Param{{"extra2", 1}}}).YAML()}}
	}, args: []string{"-i", "d/*.yaml", "-i", "d/?.yaml", "-i", "d/[abc].yaml"}})
	out = append(out, c08cfg{id: "unreadable-and-unparsable", files: func() []File {
		return []File{{"d/a.yaml", "services: ["}, {"d/b.yaml", "parameters: {a: [1}"}, {"d/c.yaml/keep", ""}, {"d/d.yaml", rich().YAML()}}
	}, args: []string{"-i", "d/*.yaml", "-i", "nope*.yaml", "-i", "[bad"}})
	return out
}

type c08obs struct {
	exit   int
	out    string
	output string
	panic  string
}

func (o c08obs) key() string {
	return fmt.Sprintf("%d|%s|%s|%s", o.exit, Sha(o.out), Sha(o.output), Sha(o.panic))
}

// c08diverged: set by c08run when a recorded plan no longer fits the sequence of choice points it meets.
var c08diverged string

type c08point struct {
	site string
	n    int
}

// c08run executes one configuration under a choice plan (point index -> permutation index).
func c08run(w *W, cfg c08cfg, plan map[int]int) (c08obs, []c08point) {
	w.FreshDir()
	files := cfg.files()
	var args []string
	for _, f := range files {
		if d := filepath.Dir(f.Name); d != "." {
			os.MkdirAll(d, 0o755)
		}
		os.WriteFile(f.Name, []byte(f.Content), 0o644)
		if cfg.args == nil {
			args = append(args, "-i", f.Name)
		}
	}
	args = append(args, cfg.args...)
	args = append(args, "-o", "out.go")
	args = append(args, cfg.flags...)
	var points []c08point
	var mu sync.Mutex
	c08diverged = ""
	vmap.Chooser = func(site string, n int) int {
		mu.Lock() // the tool under test may range over maps from goroutines of its own
		defer mu.Unlock()
		i := len(points)
		points = append(points, c08point{site, n})
		c := plan[i]
		if c >= vmap.NumAlternatives(n) {
			// the plan was recorded on a run with the same choices up to here: the sequence of iterations is not reproducible
			if c08diverged == "" {
				c08diverged = fmt.Sprintf("choice %d is out of range at point %d (%s, %d entries): the same choices led to a different sequence of map iterations than before", c, i, site, n)
			}
			return 0
		}
		return c
	}
	r := Tool("1.2.3", "1.2.3 unknown", args...)
	vmap.Chooser = nil
	b, _ := os.ReadFile("out.go")
	return c08obs{r.Exit, r.Out, string(b), r.Panic}, points
}

func permutations(n int) [][]int {
	var out [][]int
	var rec func(cur []int, used []bool)
	rec = func(cur []int, used []bool) {
		if len(cur) == n {
			out = append(out, append([]int{}, cur...))
			return
		}
		for i := 0; i < n; i++ {
			if !used[i] {
				used[i] = true
				rec(append(cur, i), used)
				used[i] = false
			}
		}
	}
	rec(nil, make([]bool, n))
	return out
}

func init() {
	Register(&Check{
		ID:    "C08",
		Level: "model_checking",
		Rule: "map-order exploration: every `range` over a map in the tool's non-test code (found with go/types, rewritten with go build -overlay) is a choice point offering every permutation of the entries (n <= 4; rotations and reversals above); for 11 configurations (valid rich, stub, three files, and invalid ones with several simultaneous defects of every class incl. files matched by several patterns and unreadable inputs) all executions with <= 1 non-canonical choice (quick) / <= 2 (thorough) are run: exit status, printed report and -o bytes must be identical; " +
			"key permutations: every permutation of the keys of each YAML mapping (services, parameters, fields, meta.imports, meta.functions, 3 keys each), one mapping at a time (thorough: all pairs of mappings); environment grid: real binary under 10 environments (incl. TMPDIR missing / unwritable / on another file system) x 2 working directories; backstop (not deciding): 30 fresh processes per invalid configuration. states = distinct choice prefixes executed, transitions = choice points passed",
		Assumptions: []string{
			"map iteration inside third-party packages (yaml.v3, gonum, cobra, x/tools) is not intercepted; its effect is only sampled by the repeated-process backstop",
			"sites executed during package initialisation run before the explorer exists and are listed, not explored",
		},
		BudgetQuick: 280 * time.Second, BudgetThorough: 1500 * time.Second,
		Prepare: func(p *Parent) error {
			repl, sites, err := RewriteMapRanges(p.Env.Repo, filepath.Join(p.Shared, "maprewrite"))
			if err != nil {
				return err
			}
			var inv []string
			n := 0
			for _, s := range sites {
				st := "intercepted"
				if !s.Intercepted {
					st = "NOT intercepted: " + s.Why
				} else {
					n++
				}
				if s.InInit {
					st += " (runs at package initialisation: canonical order only)"
				}
				inv = append(inv, s.Site+" in "+s.Func+": "+st)
			}
			p.Extra["map_range_sites"] = inv
			if n == 0 {
				return fmt.Errorf("no range-over-map site found: the explorer has nothing to intercept")
			}
			bin, err := p.BuildInstrumented("xv-map", repl)
			if err != nil {
				return err
			}
			p.WorkerBinary = bin
			cmd := exec.Command("go", "build", "-ldflags", "-X main.version=v1.2.3 -X main.commit=0123abcd -X main.date=2024-03-31T23:30:00Z -X main.isGitDirty=false -X main.builtBy=verif", "-o", filepath.Join(p.Shared, "gontainer"), ".")
			cmd.Dir = p.Env.Repo
			if b, err := cmd.CombinedOutput(); err != nil {
				return fmt.Errorf("go build /repo: %v\n%s", err, b)
			}
			return nil
		},
		Run: func(w *W) {
			maxDev := 1
			if !w.Env.Quick() {
				maxDev = 2
			}
			cfgs := c08configs()
			for _, cfg := range cfgs {
				cfg := cfg
				// the exploration of one configuration is split by first deviation point to spread over workers
				base, basePoints := c08obs{}, []c08point(nil)
				ready := false
				prepare := func() {
					if !ready {
						base, basePoints = c08run(w, cfg, nil)
						ready = true
					}
				}
				prepare()
				w.Case("order/"+cfg.id+"/baseline", func(c *C) {
					c.Distinct("states", cfg.id+"|")
					c.Add("transitions", int64(len(basePoints)))
					c.Count("traces")
					c.Distinct("nontrivial", c.ID)
					again, againPoints := c08run(w, cfg, nil)
					if fmt.Sprint(againPoints) != fmt.Sprint(basePoints) {
						c.Violation("choice-sequence-not-reproducible:"+cfg.id, fmt.Sprintf("two runs with the canonical order of every map meet different sequences of map iterations (%d vs %d points): something other than the input decides what the tool does", len(basePoints), len(againPoints)), FilesMap(cfg.files()), nil)
					}
					if again.key() != base.key() {
						c.Violation("not-repeatable:"+cfg.id, "two runs with the canonical order differ: "+firstDiff(base.out, again.out), FilesMap(cfg.files()), nil)
					}
					if base.panic != "" {
						c.Violation("panic:"+cfg.id, "tool panicked:\n"+base.panic, FilesMap(cfg.files()), nil)
					}
					sitesSeen := map[string]int{}
					for _, p := range basePoints {
						sitesSeen[p.site]++
					}
					c.Sample(map[string]any{"configuration": cfg.id, "exit": base.exit, "choice_points": len(basePoints), "sites_with_two_or_more_entries": sitesSeen})
				})
				for i := range basePoints {
					nAlt := 1
					if maxDev > 1 {
						nAlt = vmap.NumAlternatives(basePoints[i].n) - 1 // thorough: one case per (point, first alternative)
					}
					for firstAlt := 1; firstAlt <= nAlt; firstAlt++ {
						i, firstAlt := i, firstAlt
						w.Case(fmt.Sprintf("order/%s/point%d/alt%d", cfg.id, i, firstAlt), func(c *C) {
							var explore func(plan map[int]int, from int, points []c08point, depth int)
							explore = func(plan map[int]int, from int, points []c08point, depth int) {
								for pi := from; pi < len(points); pi++ {
									if depth == 0 && pi != i {
										continue
									}
									for alt := 1; alt < vmap.NumAlternatives(points[pi].n); alt++ {
										if depth == 0 && maxDev > 1 && alt != firstAlt {
											continue
										}
										np := map[int]int{}
										for k, v := range plan {
											np[k] = v
										}
										np[pi] = alt
										obs, pts := c08run(w, cfg, np)
										if c08diverged != "" {
											c.Violation("choice-sequence-not-reproducible:"+cfg.id, "replaying a recorded choice plan: "+c08diverged, FilesMap(cfg.files()), map[string]any{"plan": fmt.Sprint(np)})
											return
										}
										c.Distinct("states", cfg.id+"|"+fmt.Sprint(np))
										c.Distinct("nontrivial", cfg.id+"|"+fmt.Sprint(np))
										c.Add("transitions", int64(len(pts)))
										c.Count("executions")
										c.Count("evaluations_extra")
										c.Distinct("outcomes", cfg.id+"|"+obs.key())
										if obs.key() != base.key() {
											// replay twice before believing it
											again, _ := c08run(w, cfg, np)
											if again.key() != obs.key() {
												c.Violation("not-repeatable:"+cfg.id, "two runs under the same choice plan differ: "+firstDiff(obs.out+obs.output, again.out+again.output), FilesMap(cfg.files()), map[string]any{"plan": fmt.Sprint(np)})
												return
											}
											what := "printed report"
											d := firstDiff(base.out, obs.out)
											if obs.output != base.output {
												what, d = "-o bytes", firstDiff(base.output, obs.output)
											}
											if obs.exit != base.exit {
												what = "exit status"
											}
											c.Violation("order-dependent:"+points[pi].site, fmt.Sprintf("%s depends on the iteration order of the map ranged at %s (configuration %s, permutation %d of %d entries): %s", what, points[pi].site, cfg.id, alt, points[pi].n, d),
												FilesMap(cfg.files()), map[string]any{"plan": fmt.Sprint(np), "args": cfg.args})
										} else {
											c.Count("traces")
										}
										if depth+1 < maxDev {
											explore(np, pi+1, pts, depth+1)
										}
									}
								}
							}
							c.Distinct("nontrivial", c.ID)
							explore(map[int]int{}, 0, basePoints, 0)
						})
					}
				}
			}
			// key permutations
			type mapping struct {
				id      string
				permute func(c *Cfg, perm []int)
			}
			permKV := func(kv []KV, perm []int) []KV {
				o := make([]KV, len(kv))
				for i, p := range perm {
					o[i] = kv[p]
				}
				return o
			}
			richCfg := func() *Cfg {
				f := c08configs()[0].files()
				_ = f
				return &Cfg{
					Meta:   &Meta{Pkg: P("gen"), Imports: []KV{{"a", "fx/a"}, {"ab", "fx/ab"}, {"pk", "fx/pk"}}, Functions: []KV{{"f1", "pk.FnStr"}, {"f2", "ab.FnInt"}, {"f3", `"fx/a".FnE`}}},
					Params: []Param{{"p3", "%f3()%%p1%"}, {"p1", 1}, {"p2", "%f1()%-%f2()%-%p1%"}},
					Services: []Service{
						{Name: "s3", Constructor: P("ab/sub.New"), Args: []any{"@s1", "%p2%", "!value a.Var"}, Fields: []KV{{"Fz", 1}, {"Fa", "@s1"}, {"Fm", "%p3%"}}, Tags: []Tag{{Name: "tg"}}},
						{Name: "s1", Constructor: P("a.New"), Getter: P("GetS1")},
						{Name: "s2", Value: P("&ab.Obj{}"), Fields: []KV{{"F2", 2}, {"F1", "!tagged tg"}, {"F3", nil}}},
					},
					Decorators: []Decorator{{Tag: "tg", Decorator: "pk.Dec1", Args: []any{"@s1"}}},
				}
			}
			mappings := []mapping{
				{"services", func(c *Cfg, p []int) {
					o := make([]Service, 3)
					for i, x := range p {
						o[i] = c.Services[x]
					}
					c.Services = o
				}},
				{"parameters", func(c *Cfg, p []int) {
					o := make([]Param, 3)
					for i, x := range p {
						o[i] = c.Params[x]
					}
					c.Params = o
				}},
				{"fields-s3", func(c *Cfg, p []int) { c.Svc("s3").Fields = permKV(c.Svc("s3").Fields, p) }},
				{"fields-s2", func(c *Cfg, p []int) { c.Svc("s2").Fields = permKV(c.Svc("s2").Fields, p) }},
				{"meta.imports", func(c *Cfg, p []int) { c.Meta.Imports = permKV(c.Meta.Imports, p) }},
				{"meta.functions", func(c *Cfg, p []int) { c.Meta.Functions = permKV(c.Meta.Functions, p) }},
				{"top-level", func(c *Cfg, p []int) {
					c.TopOrder = [][]string{{"meta", "parameters", "services", "decorators"}, {"decorators", "services", "parameters", "meta"}, {"services", "meta", "decorators", "parameters"}, {"parameters", "decorators", "meta", "services"}, {"services", "decorators", "parameters", "meta"}, {"decorators", "meta", "services", "parameters"}}[p[0]*2+p[1]%2]
				}},
				{"service-attributes", func(c *Cfg, p []int) {
					c.Svc("s3").Order = [][]string{{"tags", "fields", "arguments", "constructor"}, {"fields", "constructor", "tags", "arguments"}, {"arguments", "tags", "constructor", "fields"}}[p[0]]
				}},
			}
			perms := permutations(3)
			var reference string
			getRef := func() string {
				if reference == "" {
					br := w.Build([]File{{"c.yaml", richCfg().YAML()}})
					reference = br.Output
					if !br.OK() {
						reference = "<rejected>" + br.Out
					}
				}
				return reference
			}
			for mi, m := range mappings {
				for pi, p := range perms {
					m, p := m, p
					w.Case(fmt.Sprintf("keys/%s/%v", m.id, p), func(c *C) {
						cfg := richCfg()
						m.permute(cfg, p)
						files := []File{{"c.yaml", cfg.YAML()}}
						br := w.Build(files)
						c.Distinct("nontrivial", c.ID)
						c.Count("key_permutations")
						c.Count("evaluations_extra")
						if br.Output != getRef() {
							c.Violation("key-order-dependent:"+m.id, fmt.Sprintf("reordering the keys of %s (permutation %v) changes the generated file: %s", m.id, p, firstDiff(getRef(), br.Output)), FilesMap(files), nil)
						}
					})
					if !w.Env.Quick() {
						for mj := mi + 1; mj < len(mappings); mj++ {
							for _, q := range perms {
								m2, q := mappings[mj], q
								w.Case(fmt.Sprintf("keys2/%s/%v/%s/%v", m.id, p, m2.id, q), func(c *C) {
									cfg := richCfg()
									m.permute(cfg, p)
									m2.permute(cfg, q)
									files := []File{{"c.yaml", cfg.YAML()}}
									br := w.Build(files)
									c.Count("key_permutations")
									c.Count("evaluations_extra")
									if br.Output != getRef() {
										c.Violation("key-order-dependent:"+m.id+"+"+m2.id, "reordering keys changes the generated file: "+firstDiff(getRef(), br.Output), FilesMap(files), nil)
									}
								})
							}
						}
					}
					_ = pi
				}
			}
			// what the process did before is not an input: every configuration built right after every other one (the
			// predecessor with and without ignore flags / --stub) gives what it gives on its own
			for _, cfg := range cfgs {
				cfg := cfg
				if cfg.args != nil {
					continue
				}
				w.Case("process-history/"+cfg.id, func(c *C) {
					build := func(x c08cfg, extra ...string) BuildResult {
						return w.Build(x.files(), append(append([]string{}, x.flags...), extra...)...)
					}
					alone := build(cfg)
					c.Distinct("all", c.ID)
					// ... and what a fresh process gives (the real binary; only the version comment differs)
					{
						dir := w.FreshDir()
						args := []string{"build"}
						for _, f := range cfg.files() {
							if d := filepath.Dir(f.Name); d != "." {
								os.MkdirAll(d, 0o755)
							}
							os.WriteFile(f.Name, []byte(f.Content), 0o644)
							args = append(args, "-i", f.Name)
						}
						args = append(append(args, "-o", "fresh.go"), cfg.flags...)
						cmd := exec.Command(filepath.Join(w.Shared, "gontainer"), args...)
						cmd.Dir = dir
						cmd.Env = []string{"PATH=/usr/bin:/bin"}
						out, err := cmd.CombinedOutput()
						code := 0
						if err != nil {
							code = 1
						}
						fresh, _ := os.ReadFile(filepath.Join(dir, "fresh.go"))
						if code != alone.Exit || stripVersionLine(string(fresh)) != stripVersionLine(alone.Output) || strings.Join(ErrorLines(string(out)), "\n") != strings.Join(ErrorLines(alone.Out), "\n") {
							c.Violation("depends-on-earlier-builds:"+cfg.id, fmt.Sprintf("a fresh process and a process that has built other configurations before disagree on %s: exit %d vs %d; %s", cfg.id, code, alone.Exit, FirstDiff(stripVersionLine(string(fresh)), stripVersionLine(alone.Output))), FilesMap(cfg.files()), nil)
							return
						}
					}
					for _, pred := range cfgs {
						if pred.args != nil {
							continue
						}
						for _, pf := range [][]string{nil, {"--ignore-missing-params", "--ignore-missing-services"}, {"--stub"}} {
							build(pred, pf...)
							again := build(cfg)
							c.Count("evaluations_extra")
							c.Distinct("nontrivial", c.ID+"|"+pred.id+fmt.Sprint(pf))
							if again.Exit != alone.Exit || strings.Join(ErrorLines(again.Out), "\n") != strings.Join(ErrorLines(alone.Out), "\n") || again.Output != alone.Output {
								c.Violation("depends-on-earlier-builds:"+cfg.id, fmt.Sprintf("built right after %s %v in the same process, %s gives another result: exit %d vs %d; %s\n%s", pred.id, pf, cfg.id, again.Exit, alone.Exit, FirstDiff(alone.Output, again.Output), FirstDiff(strings.Join(ErrorLines(alone.Out), "\n"), strings.Join(ErrorLines(again.Out), "\n"))), FilesMap(cfg.files()), map[string]any{"predecessor": pred.id, "predecessor_flags": pf})
								return
							}
						}
					}
				})
			}
			// how the YAML is written (block or flow style, key order of EVERY mapping incl. tag / decorator / service
			// objects, anchors and aliases, merge keys, explicit tags, CRLF, BOM, document markers) is not an input either
			for _, cfg := range cfgs {
				cfg := cfg
				if cfg.args != nil {
					continue
				}
				w.Case("yaml-presentation/"+cfg.id, func(c *C) {
					c.Distinct("all", c.ID)
					w.ShapeInvarianceOK(c, cfg.id, cfg.files(), strings.HasPrefix(cfg.id, "valid") || strings.HasSuffix(cfg.id, "-valid"), cfg.flags...)
				})
			}
			// environment / cwd grid and fresh-process backstop on the real binary
			envs := [][]string{
				{"PATH=/usr/bin:/bin"},
				{"PATH=/usr/bin:/bin", "NO_COLOR=1"},
				{"PATH=/usr/bin:/bin", "TERM=dumb"},
				{"PATH=/usr/bin:/bin", "TERM=xterm-256color", "COLORTERM=truecolor", "CLICOLOR_FORCE=1"},
				{"PATH=/usr/bin:/bin", "HOME=/nonexistent", "LANG=pl_PL.UTF-8", "TZ=Asia/Tokyo"},
				{"PATH=/usr/bin:/bin", "p1=shadow", "GONTAINER=1", "GOFLAGS=-mod=vendor", "GODEBUG=randautoseed=0"},
				// where temporary files would go: a directory that does not exist, one that cannot be written, another file system
				{"PATH=/usr/bin:/bin", "TMPDIR=/nonexistent/tmp", "TMP=/nonexistent/tmp", "TEMP=/nonexistent/tmp", "GOTMPDIR=/nonexistent/tmp"},
				{"PATH=/usr/bin:/bin", "TMPDIR=/proc/self", "XDG_CACHE_HOME=/nonexistent", "XDG_CONFIG_HOME=/nonexistent", "GOCACHE=/nonexistent", "HOME="},
				{"PATH=/usr/bin:/bin", "TMPDIR=/dev/shm"},
				{"PATH=/usr/bin:/bin", "GOPACKAGE=storage", "GOFILE=doc.go", "GOLINE=3", "GOARCH=arm64", "GOOS=plan9", "GOROOT=/nonexistent", "DOLLAR=$", "PWD=/elsewhere", "USER=nobody", "COLUMNS=7", "LINES=2"},
			}
			for _, cfg := range cfgs {
				cfg := cfg
				w.Case("process/"+cfg.id, func(c *C) {
					dir := w.FreshDir()
					files := cfg.files()
					var args []string
					args = append(args, "build")
					for _, f := range files {
						if d := filepath.Dir(f.Name); d != "." {
							os.MkdirAll(d, 0o755)
						}
						os.WriteFile(f.Name, []byte(f.Content), 0o644)
						if cfg.args == nil {
							args = append(args, "-i", filepath.Join(dir, f.Name))
						}
					}
					for i, a := range cfg.args {
						if i%2 == 1 {
							a = filepath.Join(dir, a)
						}
						args = append(args, a)
					}
					args = append(args, "-o", filepath.Join(dir, "out.go"))
					args = append(args, cfg.flags...)
					seen := map[string]string{}
					run := func(label string, env []string, cwd string) {
						os.Remove(filepath.Join(dir, "out.go"))
						cmd := exec.Command(filepath.Join(w.Shared, "gontainer"), args...)
						cmd.Env = env
						cmd.Dir = cwd
						out, err := cmd.CombinedOutput()
						code := 0
						if err != nil {
							code = 1
						}
						b, _ := os.ReadFile(filepath.Join(dir, "out.go"))
						k := fmt.Sprintf("%d|%s|%s", code, Sha(string(out)), Sha(string(b)))
						seen[k] = label + "\n" + string(out)
						c.Count("process_runs")
						c.Count("evaluations_extra")
					}
					for ei, env := range envs {
						for _, cwd := range []string{dir, "/"} {
							run(fmt.Sprintf("env %d cwd %s", ei, cwd), env, cwd)
						}
					}
					for i := 0; i < 30; i++ {
						run(fmt.Sprintf("fresh process %d", i), envs[0], dir)
					}
					// what the output path held before the run is not an input either
					for pi, pre := range [][]byte{{}, []byte("x"), []byte("package old\n\nfunc Old() {}\n"), bytes.Repeat([]byte("// a former generation, much longer than the new one\n"), 4000)} {
						os.WriteFile(filepath.Join(dir, "out.go"), pre, 0o644)
						cmd := exec.Command(filepath.Join(w.Shared, "gontainer"), args...)
						cmd.Env = envs[0]
						cmd.Dir = dir
						out, err := cmd.CombinedOutput()
						code := 0
						if err != nil {
							code = 1
						}
						b, _ := os.ReadFile(filepath.Join(dir, "out.go"))
						if code != 0 {
							b = nil // the path keeps what it held (C10); only status and report are compared here
						}
						k := fmt.Sprintf("%d|%s|%s", code, Sha(string(out)), Sha(string(b)))
						seen[k] = fmt.Sprintf("output path pre-filled with %d bytes (pre-state %d)\n", len(pre), pi) + string(out)
						c.Count("process_runs")
						c.Count("evaluations_extra")
					}
					os.Remove(filepath.Join(dir, "out.go"))
					// the same tree in two different directories, relative arguments, each run from its own directory
					if cfg.args != nil || true {
						relArgs := []string{"build"}
						for _, f := range files {
							if cfg.args == nil {
								relArgs = append(relArgs, "-i", f.Name)
							}
						}
						relArgs = append(relArgs, cfg.args...)
						relArgs = append(relArgs, "-o", "out.go")
						relArgs = append(relArgs, cfg.flags...)
						rel := map[string]string{}
						// the second tree sits among Go files that import look-alikes of the packages the generated code uses:
						// what lies next to (or above) the working directory is not an input
						decoy := "package decoy\n\nimport (\n\terrors \"github.com/pkg/errors\"\n\tfmt \"example.com/other/fmt\"\n\tcontext \"golang.org/x/net/context\"\n\tos \"example.com/other/os\"\n\tstrconv \"example.com/other/strconv\"\n\tcontainer \"example.com/other/container\"\n)\n\n" +
							"var _ = errors.New\nvar _ = fmt.Sprintf\nvar _ = fmt.Errorf\nvar _ context.Context\nvar _ = os.LookupEnv\nvar _ = os.Getenv\nvar _ = strconv.Atoi\nvar _ = container.New\n"
						for _, dd := range []string{"second", "second/elsewhere", "second/elsewhere/project"} {
							os.MkdirAll(filepath.Join(dir, dd), 0o755)
							os.WriteFile(filepath.Join(dir, dd, "decoy.go"), []byte(strings.Replace(decoy, "package decoy", "package "+filepath.Base(dd), 1)), 0o644)
						}
						// ... and inside a Go module whose path is a prefix of the packages the configuration imports
						os.WriteFile(filepath.Join(dir, "second", "elsewhere", "go.mod"), []byte("module fx\n\ngo 1.21\n"), 0o644)
						for _, sub := range []string{"first/project", "second/elsewhere/project"} {
							root := filepath.Join(dir, sub)
							for _, f := range files {
								os.MkdirAll(filepath.Dir(filepath.Join(root, f.Name)), 0o755)
								os.WriteFile(filepath.Join(root, f.Name), []byte(f.Content), 0o644)
							}
							cmd := exec.Command(filepath.Join(w.Shared, "gontainer"), relArgs...)
							cmd.Env = envs[0]
							cmd.Dir = root
							out, err := cmd.CombinedOutput()
							code := 0
							if err != nil {
								code = 1
							}
							b, _ := os.ReadFile(filepath.Join(root, "out.go"))
							rel[fmt.Sprintf("%d|%s|%s", code, Sha(string(out)), Sha(string(b)))] = sub + "\n" + string(out)
							c.Count("process_runs")
							c.Count("evaluations_extra")
						}
						if len(rel) > 1 {
							var ks []string
							for k := range rel {
								ks = append(ks, k)
							}
							sort.Strings(ks)
							a, b := rel[ks[0]], rel[ks[1]]
							c.Violation("cwd-dependent:"+cfg.id, "the same tree built with the same relative arguments from two different directories gives different results: "+firstDiff(a[strings.Index(a, "\n"):], b[strings.Index(b, "\n"):]), FilesMap(files), nil)
						}
					}
					c.Distinct("nontrivial", c.ID)
					if len(seen) > 1 {
						var ks []string
						for k := range seen {
							ks = append(ks, k)
						}
						sort.Strings(ks)
						a, b := seen[ks[0]], seen[ks[1]]
						c.Violation("process-nondeterminism:"+cfg.id, fmt.Sprintf("%d distinct (exit, stdout, -o) observations over %d runs of the real binary; e.g. %s", len(seen), 12+30, firstDiff(a[strings.Index(a, "\n"):], b[strings.Index(b, "\n"):])), FilesMap(files), nil)
					}
				})
			}
		},
	})
}
