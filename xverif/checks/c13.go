package checks

import (
	"fmt"
	"sort"
	"strings"
	"time"

	. "github.com/gontainer/gontainer/xverif/core"
)

// C13 — getter API contract. Full truth table getter x type form x must_getter x default_must_getter x
// meta names x creation, decided on the go/types method set of the generated container type; collision
// rows; a typed subset executed in the probe.

var c13types = []struct {
	id, yaml, goType string
	local            bool
}{
	{"absent", "", "interface{}", false},
	{"value", "pk.Obj", "fx/pk.Obj", false},
	{"ptr", "*pk.Obj", "*fx/pk.Obj", false},
	{"ptr-quoted", `*"fx/pk".Obj`, "*fx/pk.Obj", false},
	{"local-value", `".".Val`, "probe/gen.Val", true},
	{"local-bare-ptr", `*Obj`, "*probe/gen.Obj", true},
	{"local-dot-ptr", `*".".Obj`, "*probe/gen.Obj", true},
	{"ptr-dash-path", `*"fx/p-k.g".Val`, "*fx/p-k.g.Val", false},
	{"iface", "pk.Iface", "fx/pk.Iface", false},
	{"ptr-unquoted-path", "*fx/pk2.Val", "*fx/pk2.Val", false},
}

func tri(i int) *bool {
	switch i {
	case 1:
		return P(true)
	case 2:
		return P(false)
	}
	return nil
}

func c13expectMethods(base map[string]string, getter string, goType string, must bool) map[string]string {
	m := map[string]string{}
	for k, v := range base {
		m[k] = v
	}
	if getter != "" {
		m[getter] = "func() (" + goType + ", error)"
		m[getter+"InContext"] = "func(context.Context) (" + goType + ", error)"
		if must {
			m["Must"+getter] = "func() " + goType
			m["Must"+getter+"InContext"] = "func(context.Context) " + goType
		}
	}
	return m
}

func diffMaps(want, got map[string]string) string {
	var d []string
	for k, v := range want {
		if g, ok := got[k]; !ok {
			d = append(d, "missing method "+k+" "+v)
		} else if g != v {
			d = append(d, "method "+k+": want "+v+", got "+g)
		}
	}
	for k, v := range got {
		if _, ok := want[k]; !ok {
			d = append(d, "unexpected method "+k+" "+v)
		}
	}
	sort.Strings(d)
	return strings.Join(d, "\n")
}

func init() {
	Register(&Check{
		ID:    "C13",
		Level: "exploration",
		Rule: "full truth table: getter {absent, G} x type form (10: absent, value, pointer, quoted, local value, local bare pointer, interface, unquoted path) x must_getter {unset,true,false} x default_must_getter {unset,true,false} x meta names set/unset (2^3) x creation {constructor, type-only} (both tiers); three services at once, each in one of six getter / must_getter states, x the three defaults (648 configurations); collision rows (equal getters on two services; getter = every exported method and field of the embedded container, plus Must/InContext combinations); " +
			"a typed subset executed in the probe (getter, InContext twin, Must twins incl. panics on todo services). non-trivial = accepted configuration whose method set was compared; distinct = distinct configuration",
		Assumptions: []string{"the exported method set of *container.Container is read with go/types from the pinned runtime's export data", "unexported underscore helper methods of the non-stub output are not part of the API and are ignored"},
		BudgetQuick: 240 * time.Second, BudgetThorough: 900 * time.Second,
		Prepare: PrepareUniverse,
		Run: func(w *W) {
			var base map[string]string
			var fields []string
			getBase := func() {
				if base == nil {
					var err error
					base, fields, err = w.TC(false).ContainerMethods()
					if err != nil {
						panic(err)
					}
				}
			}
			for creation := 0; creation < 2; creation++ {
				for g := 0; g < 2; g++ {
					for ti, ty := range c13types {
						if creation == 1 && ty.yaml == "" {
							continue
						}
						for must := 0; must < 3; must++ {
							for dm := 0; dm < 3; dm++ {
								for names := 0; names < 8; names++ {
									creation, g, ti, ty, must, dm, names := creation, g, ti, ty, must, dm, names
									id := fmt.Sprintf("table/creation=%d/getter=%d/type=%s/must=%d/default=%d/names=%d", creation, g, ty.id, must, dm, names)
									w.Case(id, func(c *C) {
										getBase()
										cfg := &Cfg{Meta: stdMeta()}
										cfg.Meta.Pkg = nil
										wantPkg, wantType, wantCtor := "main", "Gontainer", "NewGontainer"
										if names&1 != 0 {
											cfg.Meta.Pkg = P("gen")
											wantPkg = "gen"
										}
										if names&2 != 0 {
											cfg.Meta.ContainerType = P("myContainer")
											wantType = "myContainer"
										}
										if names&4 != 0 {
											cfg.Meta.ContainerConstructor = P("BuildIt")
											wantCtor = "BuildIt"
										}
										cfg.Meta.DefaultMustGetter = tri(dm)
										s := Service{Name: "sut", MustGetter: tri(must)}
										if creation == 0 {
											s.Constructor = P("pk.New")
										}
										if ty.yaml != "" {
											s.Type = P(ty.yaml)
										}
										getter := ""
										if g == 1 {
											getter = "FetchSut"
											s.Getter = P(getter)
										}
										cfg.Services = []Service{s, {Name: "plain", Constructor: P("pk2.New")}}
										files := []File{{"c.yaml", cfg.YAML()}}
										fm := FilesMap(files)
										br := w.Build(files)
										c.Distinct("all", id)
										if br.Panic != "" {
											c.Violation("panic", "tool panicked:\n"+br.Panic, fm, nil)
											return
										}
										wantReject := g == 0 && must == 1
										if wantReject {
											if br.Exit == 0 {
												c.Violation("must-getter-without-getter-accepted", "explicit must_getter: true without a getter was accepted ("+id+")", fm, nil)
											} else if !strings.Contains(br.Out, "must-getter") {
												c.Violation("must-getter-without-getter-diagnostic", "rejection does not mention the must-getter ("+id+"):\n"+br.Out, fm, nil)
											}
											c.Count("rejected")
											return
										}
										if br.Exit != 0 {
											c.Violation("valid-rejected", "valid configuration rejected ("+id+"):\n"+br.Out, fm, nil)
											return
										}
										c.Distinct("nontrivial", id)
										c.Count("accepted")
										extra := map[string]string{}
										if ty.local {
											extra["fixture_local.go"] = LocalFixture(wantPkg, "./gen")
										}
										gi := Analyze(w.TC(false), br.Output, extra)
										if len(gi.Errs) > 0 {
											c.Violation("typecheck:"+compilerKey(gi.Errs[0]), "generated file does not type-check ("+id+"):\n"+strings.Join(gi.Errs, "\n"), fm, nil)
											return
										}
										if gi.PkgName != wantPkg {
											c.Violation("package-name", fmt.Sprintf("package clause %q, want %q (%s)", gi.PkgName, wantPkg, id), fm, nil)
										}
										if gi.ContainerType != wantType {
											c.Violation("container-type-name", fmt.Sprintf("container type %q, want %q (%s)", gi.ContainerType, wantType, id), fm, nil)
											return
										}
										wantSig := "func() *probe/gen." + wantType
										if gi.Funcs[wantCtor] != wantSig {
											c.Violation("constructor", fmt.Sprintf("constructor %s has signature %q, want %q (%s); functions: %v", wantCtor, gi.Funcs[wantCtor], wantSig, id, gi.Funcs), fm, nil)
										}
										for fn := range gi.Funcs {
											if fn != wantCtor && fn != "init" {
												c.Violation("extra-function", "unexpected package-level function "+fn+" ("+id+")", fm, nil)
											}
										}
										wantMust := g == 1 && (must == 1 || must == 0 && dm == 1)
										goType := ty.goType
										if ty.local {
											goType = strings.Replace(goType, "probe/gen.", "probe/gen.", 1)
										}
										want := c13expectMethods(base, getter, goType, wantMust)
										got := map[string]string{}
										for k, v := range gi.Methods {
											if isExported(k) {
												got[k] = v
											}
										}
										if d := diffMaps(want, got); d != "" {
											key := "method-set"
											if strings.Contains(d, "Must") {
												key = "method-set-must"
											}
											c.Violation(key, "method set of *"+wantType+" differs ("+id+"):\n"+d, fm, nil)
										}
										if ti == 2 && must == 0 && dm == 1 && names == 7 && g == 1 && creation == 0 {
											c.Sample(map[string]any{"case": id, "yaml": cfg.YAML(), "methods": got})
										}
									})
								}
							}
						}
					}
				}
			}
			// several services at once: what one service says about its must-getter says nothing about its neighbours.
			// Three services (in name order), each in one of six states, x default_must_getter {unset, true, false}
			{
				type st struct {
					getter bool
					must   int // 0 unset, 1 true, 2 false
				}
				states := []st{{false, 0}, {false, 2}, {false, 1}, {true, 0}, {true, 1}, {true, 2}}
				names3 := []string{"alpha", "beta", "gamma"}
				for v := 0; v < 6*6*6; v++ {
					for dm := 0; dm < 3; dm++ {
						v, dm := v, dm
						idx := []int{v % 6, (v / 6) % 6, v / 36}
						id := fmt.Sprintf("several/%d%d%d/default=%d", idx[0], idx[1], idx[2], dm)
						w.Case(id, func(c *C) {
							getBase()
							cfg := &Cfg{Meta: stdMeta()}
							cfg.Meta.DefaultMustGetter = tri(dm)
							want := c13expectMethods(base, "", "", false)
							wantReject := false
							for i, n := range names3 {
								x := states[idx[i]]
								sv := Service{Name: n, Constructor: P("pk.New"), MustGetter: tri(x.must)}
								if x.getter {
									g := "Fetch" + strings.ToUpper(n[:1]) + n[1:]
									sv.Getter = P(g)
									for k, m := range c13expectMethods(nil, g, "interface{}", x.must == 1 || x.must == 0 && dm == 1) {
										want[k] = m
									}
								} else if x.must == 1 {
									wantReject = true
								}
								cfg.Services = append(cfg.Services, sv)
							}
							files := []File{{"c.yaml", cfg.YAML()}}
							fm := FilesMap(files)
							br := w.Build(files)
							c.Distinct("all", id)
							c.Distinct("nontrivial", id)
							if br.Panic != "" {
								c.Violation("panic", "tool panicked:\n"+br.Panic, fm, nil)
								return
							}
							if wantReject {
								if br.Exit == 0 {
									c.Violation("must-getter-without-getter-accepted", "explicit must_getter: true without a getter was accepted next to other services ("+id+")", fm, nil)
								}
								return
							}
							if br.Exit != 0 {
								c.Violation("valid-rejected", "valid configuration rejected ("+id+"):\n"+br.Out, fm, nil)
								return
							}
							gi := Analyze(w.TC(false), br.Output, nil)
							if len(gi.Errs) > 0 {
								c.Violation("typecheck:"+compilerKey(gi.Errs[0]), "generated file does not type-check ("+id+"):\n"+strings.Join(gi.Errs, "\n"), fm, nil)
								return
							}
							got := map[string]string{}
							for k, m := range gi.Methods {
								if isExported(k) {
									got[k] = m
								}
							}
							if d := diffMaps(want, got); d != "" {
								c.Violation("method-set-several-services", "method set differs ("+id+"; states are getter/must_getter of alpha, beta, gamma):\n"+d, fm, nil)
							}
						})
					}
				}
			}
			// the attributes of one service spread over files: getter in one, must_getter (and the creation method) in another,
			// in both orders; the merged service is what counts
			for oi, order := range [][]int{{0, 1, 2}, {2, 1, 0}, {1, 0, 2}, {1, 2, 0}} {
				for must := 0; must < 3; must++ {
					oi, order, must := oi, order, must
					w.Case(fmt.Sprintf("split-files/order%d/must=%d", oi, must), func(c *C) {
						getBase()
						parts := []*Cfg{
							{Meta: stdMeta(), Services: []Service{{Name: "sut", Getter: P("FetchSut")}}},
							{Services: []Service{{Name: "sut", MustGetter: tri(must)}}},
							{Services: []Service{{Name: "sut", Constructor: P("pk.New")}, {Name: "plain", Constructor: P("pk2.New")}}},
						}
						var files []File
						for k, pi := range order {
							files = append(files, File{fmt.Sprintf("%d.yaml", k), parts[pi].YAML()})
						}
						br := w.Build(files)
						c.Distinct("all", c.ID)
						c.Distinct("nontrivial", c.ID)
						if !br.OK() {
							c.Violation("valid-rejected:split-files", "a service whose getter, must_getter and constructor come from three files is rejected:\n"+strings.Join(ErrorLines(br.Out), "\n")+br.Panic, FilesMap(files), nil)
							return
						}
						gi := Analyze(w.TC(false), br.Output, nil)
						want := c13expectMethods(base, "FetchSut", "interface{}", must == 1)
						got := map[string]string{}
						for k, m := range gi.Methods {
							if isExported(k) {
								got[k] = m
							}
						}
						if d := diffMaps(want, got); d != "" || len(gi.Errs) > 0 {
							c.Violation("method-set:split-files", "method set differs when the attributes come from several files:\n"+d+strings.Join(gi.Errs, "\n"), FilesMap(files), nil)
						}
					})
				}
			}
			// equal getters on services that are not neighbours in name order, with other getters / getter-less / todo services
			// between them; getters that differ in surrounding white space only
			for li, layout := range [][]string{{"G", "G"}, {"G", "O", "G"}, {"G", "", "G"}, {"G", "T", "G"}, {"O", "G", "O", "G"}, {"G", "O", "P", "G"}, {"G", "O", "G", "O"}, {"G", "G\n"}, {"G", " G"}, {"G", "O", "G\t"}, {"G\n", "G\n"}} {
				li, layout := li, layout
				w.Case(fmt.Sprintf("collision/layout/%d", li), func(c *C) {
					cfg := &Cfg{Meta: stdMeta()}
					for i, g := range layout {
						sv := Service{Name: fmt.Sprintf("s%02d", i), Constructor: P("pk.New")}
						switch {
						case g == "":
						case g == "T":
							sv = Service{Name: sv.Name, Todo: P(true)}
						case g == "O":
							sv.Getter = P("GetOther")
						case g == "P":
							sv.Getter = P("GetThird")
						default:
							sv.Getter = P(strings.Replace(g, "G", "GetShared", 1))
						}
						cfg.Services = append(cfg.Services, sv)
					}
					files := []File{{"c.yaml", cfg.YAML()}}
					br := w.Build(files)
					c.Distinct("all", c.ID)
					c.Distinct("nontrivial", c.ID)
					if br.Panic != "" {
						c.Violation("panic", "tool panicked:\n"+br.Panic, FilesMap(files), nil)
					} else if br.Exit == 0 {
						c.Violation("collision-accepted:layout", fmt.Sprintf("getters %q (in service-name order; G = GetShared, O / P = other getters, T = todo, empty = none): two services share a getter (or a getter carries white space) and the configuration was accepted", layout), FilesMap(files), nil)
					}
				})
			}
			// collision rows
			w.Case("collision/setup", func(c *C) { getBase() })
			base0, fields0, _ := w.TC(false).ContainerMethods()
			var reserved []string
			for m := range base0 {
				reserved = append(reserved, m)
			}
			reserved = append(reserved, fields0...)
			reserved = append(reserved, "Container")
			sort.Strings(reserved)
			_ = fields
			var collide []struct{ id, g1, g2, why string }
			collide = append(collide, struct{ id, g1, g2, why string }{"equal-getters", "FetchIt", "FetchIt", "two services with the same getter"})
			for _, r := range reserved {
				collide = append(collide, struct{ id, g1, g2, why string }{"reserved/" + r, r, "", "getter equals " + r + " of the embedded container"})
				collide = append(collide, struct{ id, g1, g2, why string }{"reserved-must/" + r, "Must" + r, "", "Must-prefixed"})
				collide = append(collide, struct{ id, g1, g2, why string }{"reserved-ctx/" + r, r + "InContext", "", "InContext-suffixed or reserved"})
			}
			for _, g := range []string{"Must", "Mustang", "Mustx", "Must1", "Must_x", "MustInContext", "InContext", "xInContext", "aMustInContext"} {
				collide = append(collide, struct{ id, g1, g2, why string }{"spelling/" + g, g, "", "Must-prefixed or InContext-suffixed"})
			}
			// a getter X with a Must-getter collides with a getter MustX of another service, whatever the case of X
			collide = append(collide, struct{ id, g1, g2, why string }{"must-twin/ang", "ang", "Mustang", "MustX of one service equals the getter of another"})
			collide = append(collide, struct{ id, g1, g2, why string }{"ctx-twin/fetch", "fetch", "fetchInContext", "XInContext of one service equals the getter of another"})
			collide = append(collide, struct{ id, g1, g2, why string }{"must-prefix", "MustFetch", "", "Must-prefixed"})
			collide = append(collide, struct{ id, g1, g2, why string }{"ctx-suffix", "FetchInContext", "", "InContext-suffixed"})
			seen := map[string]bool{}
			for _, col := range collide {
				col := col
				if seen[col.id] {
					continue
				}
				seen[col.id] = true
				for mg := 0; mg < 2; mg++ {
					mg := mg
					id := fmt.Sprintf("collision/%s/must=%d", col.id, mg)
					w.Case(id, func(c *C) {
						cfg := &Cfg{Meta: stdMeta()}
						s1 := Service{Name: "one", Constructor: P("pk.New"), Getter: P(col.g1)}
						if mg == 1 {
							s1.MustGetter = P(true)
						}
						cfg.Services = []Service{s1}
						if col.g2 != "" {
							cfg.Services = append(cfg.Services, Service{Name: "two", Constructor: P("pk.New"), Getter: P(col.g2)})
						}
						files := []File{{"c.yaml", cfg.YAML()}}
						br := w.Build(files)
						c.Distinct("all", id)
						c.Distinct("nontrivial", id)
						c.Count("collision_rows")
						if br.Panic != "" {
							c.Violation("panic", "tool panicked:\n"+br.Panic, FilesMap(files), nil)
							return
						}
						if br.Exit == 0 {
							key := "collision-accepted:" + col.id
							gi := Analyze(w.TC(false), br.Output, nil)
							extra := ""
							if len(gi.Errs) > 0 {
								extra = "; the generated file does not compile: " + gi.Errs[0]
							}
							c.Violation(key, "colliding getter accepted ("+col.why+": "+col.g1+")"+extra, FilesMap(files), nil)
						}
					})
				}
			}
			// names next to the methods the generated type declares itself (its private helpers): such a method's name with its
			// leading underscores removed, with the first letter in either case, is a getter by the documented grammar unless it
			// is reserved - accepted getters give a file that compiles, with G / GInContext of the documented signatures
			w.Case("near-own-methods", func(c *C) {
				rich := func(getter *string) *Cfg {
					cfg := &Cfg{Meta: stdMeta(), Params: []Param{{"e", `%env("C13_X", "d")%`}, {"i", `%envInt("C13_I", 3)%`}, {"t", `%todo("later")%`}, {"m", "a%e%b%i%"}}}
					cfg.Services = []Service{{Name: "one", Constructor: P("pk.New"), Args: []any{"%m%", "x%e%"}, Getter: getter, Type: P("*pk.Obj"), Tags: []Tag{{Name: "tg"}}}, {Name: "two", Constructor: P("pk.New"), Args: []any{"!tagged tg", "@one"}}}
					cfg.Decorators = []Decorator{{Tag: "tg", Decorator: "pk.Dec1", Args: []any{"%i%"}}}
					return cfg
				}
				br := w.Build([]File{{"c.yaml", rich(P("FetchOne")).YAML()}})
				gi := Analyze(w.TC(false), br.Output, nil)
				if !br.OK() || len(gi.Errs) > 0 {
					c.Violation("near-own-methods-base", fmt.Sprintf("the base configuration of this family is meant to be accepted and to compile: exit %d %v", br.Exit, gi.Errs), nil, nil)
					return
				}
				res := map[string]bool{}
				for _, r := range reserved {
					res[r] = true
				}
				cands := map[string]bool{}
				for m := range gi.Methods {
					t := strings.TrimLeft(m, "_")
					if t == "" {
						continue
					}
					for _, v := range []string{t, strings.ToLower(t[:1]) + t[1:], strings.ToUpper(t[:1]) + t[1:], t + "_", t + "1"} {
						if okGetter(v) && !res[v] && v != "FetchOne" && !strings.HasPrefix(v, "FetchOne") && !strings.HasPrefix(v, "MustFetchOne") {
							cands[v] = true
						}
					}
				}
				c.Distinct("all", c.ID)
				c.Distinct("nontrivial", c.ID)
				for _, g := range SortedKeys(cands) {
					files := []File{{"c.yaml", rich(P(g)).YAML()}}
					b := w.Build(files)
					c.Count("collision_rows")
					c.Count("evaluations_extra")
					if b.Panic != "" {
						c.Violation("panic", "tool panicked:\n"+b.Panic, FilesMap(files), nil)
						continue
					}
					if !b.OK() {
						c.Violation("getter-near-own-method-rejected", fmt.Sprintf("getter %q is a getter by the documented grammar and not reserved, yet rejected:\n%s", g, strings.Join(ErrorLines(b.Out), "\n")), FilesMap(files), nil)
						continue
					}
					g2 := Analyze(w.TC(false), b.Output, nil)
					if len(g2.Errs) > 0 {
						c.Violation("getter-collides-with-own-method", fmt.Sprintf("getter %q accepted, the generated file does not compile: %s", g, g2.Errs[0]), FilesMap(files), nil)
						continue
					}
					if _, ok := g2.Methods[g]; !ok {
						c.Violation("getter-near-own-method-missing", fmt.Sprintf("getter %q accepted, the container type has no such method", g), FilesMap(files), nil)
					}
				}
			})
			// equal getters and the todo flag: a placeholder emits no methods, an explicit "todo: false" changes nothing
			for _, tv := range []struct {
				id     string
				todo   *bool
				reject bool
			}{{"second-todo-false", P(false), true}, {"second-todo-true", P(true), false}, {"second-todo-unset", nil, true}} {
				for mf := 0; mf < 2; mf++ {
					tv, mf := tv, mf
					w.Case(fmt.Sprintf("collision/equal-getters/%s/files=%d", tv.id, mf+1), func(c *C) {
						one := Service{Name: "one", Constructor: P("pk.New"), Getter: P("FetchIt")}
						two := Service{Name: "two", Constructor: P("pk.New"), Getter: P("FetchIt"), Todo: tv.todo}
						files := []File{{"c.yaml", (&Cfg{Meta: stdMeta(), Services: []Service{one, two}}).YAML()}}
						if mf == 1 {
							// the second service starts as a placeholder in the first file and is completed in the second
							base := &Cfg{Meta: stdMeta(), Services: []Service{one, {Name: "two", Todo: P(true)}}}
							over := &Cfg{Services: []Service{two}}
							files = []File{{"a.yaml", base.YAML()}, {"b.yaml", over.YAML()}}
							if tv.todo == nil {
								return // the merged flag would stay true
							}
						}
						br := w.Build(files)
						c.Distinct("all", c.ID)
						c.Distinct("nontrivial", c.ID)
						c.Count("collision_rows")
						if br.Panic != "" {
							c.Violation("panic", "tool panicked:\n"+br.Panic, FilesMap(files), nil)
							return
						}
						if tv.reject && br.Exit == 0 {
							c.Violation("collision-accepted:equal-getters:"+tv.id, "two non-placeholder services share the getter FetchIt and the configuration was accepted", FilesMap(files), nil)
						}
						if !tv.reject && br.Exit != 0 {
							c.Violation("placeholder-getter-rejected", "a placeholder (todo: true) emits no getter, yet the configuration was rejected:\n"+strings.Join(ErrorLines(br.Out), "\n"), FilesMap(files), nil)
						}
					})
				}
			}
			// executed subset
			var cases []*BCase
			dyn := []struct {
				id   string
				svc  Service
				todo bool
			}{
				{"untyped", Service{Constructor: P("pk.New"), Args: []any{1}}, false},
				{"ptr", Service{Constructor: P("pk.New"), Type: P("*pk.Obj")}, false},
				{"iface", Service{Constructor: P("pk.New"), Type: P("pk.Iface")}, false},
				{"val", Service{Constructor: P("pk.NewVal"), Type: P("pk.Val")}, false},
				{"value-struct", Service{Value: P("pk.Obj{}"), Type: P("pk.Obj"), Fields: []KV{{"F1", "x"}}}, false},
				{"type-only", Service{Type: P("pk2.Val"), Fields: []KV{{"F2", "@helper"}}}, false},
				{"decorated-untyped", Service{Constructor: P("pk.New"), Tags: []Tag{{Name: "dtag"}}}, false},
				{"shared-explicit", Service{Constructor: P("pk.New"), Type: P("*pk.Obj"), Scope: P("shared")}, false},
				{"shared-explicit-untyped", Service{Constructor: P("pk.New"), Scope: P("shared"), Args: []any{"@helper"}}, false},
				{"value-nonshared-decorated", Service{Value: P("&pk.Obj{}"), Scope: P("non_shared"), Tags: []Tag{{Name: "dtag"}}}, false},
				{"value-shared-decorated", Service{Value: P("pk.Var"), Tags: []Tag{{Name: "dtag"}}}, false},
				{"value-contextual-plain", Service{Value: P("&pk.Obj{}"), Scope: P("contextual"), Type: P("*pk.Obj")}, false},
				{"value-nonshared-typed", Service{Value: P("&pk.Obj{}"), Scope: P("non_shared"), Type: P("*pk.Obj")}, false},
				{"type-only-nonshared", Service{Type: P("pk2.Val"), Scope: P("non_shared"), Fields: []KV{{"F1", "x"}}}, false},
				{"named-string-type-from-a-string", Service{Constructor: P("pk.NewStr"), Args: []any{"x", 1}, Type: P("pk.Str")}, false},
				{"named-string-type-other-package", Service{Constructor: P(`"fx/pk".NewStr`), Type: P("pk2.Str"), Scope: P("non_shared")}, false},
				{"contextual", Service{Constructor: P("pk.New"), Type: P("*pk.Obj"), Scope: P("contextual")}, false},
				{"inferred-contextual", Service{Constructor: P("pk.New"), Type: P("*pk.Obj"), Args: []any{"@ctxDep"}}, false},
				{"inferred-contextual-untyped", Service{Constructor: P("pk.New"), Fields: []KV{{"F1", "@ctxDep"}}}, false},
				{"inferred-contextual-by-decorator", Service{Constructor: P("pk.New"), Tags: []Tag{{Name: "ctag"}}}, false},
				{"nonshared", Service{Constructor: P("pk.NewVal"), Type: P("pk.Val"), Scope: P("non_shared")}, false},
				{"failing", Service{Constructor: P("pk.NewE"), Args: []any{"fail"}, Type: P("*pk.Obj")}, true},
				{"failing-value-type", Service{Constructor: P("pk.NewE"), Args: []any{"fail"}, Type: P("pk.Val")}, true},
				{"dep-todo", Service{Constructor: P("pk.New"), Args: []any{"@todoSvc"}}, true},
			}
			for _, d := range dyn {
				for dm := 0; dm < 2; dm++ {
					cfg := &Cfg{Meta: stdMeta()}
					if dm == 1 {
						cfg.Meta.DefaultMustGetter = P(true)
					}
					s := d.svc
					s.Name = "sut"
					s.Getter = P("FetchSut")
					if dm == 0 {
						s.MustGetter = P(true)
					}
					cfg.Services = []Service{s, {Name: "helper", Constructor: P("pk2.New")}, {Name: "todoSvc", Todo: P(true)}, {Name: "ctxDep", Constructor: P("pk.New1"), Scope: P("contextual")}}
					cfg.Decorators = []Decorator{{Tag: "dtag", Decorator: "pk.Dec1"}, {Tag: "ctag", Decorator: "pk2.Dec2", Args: []any{"@ctxDep"}}}
					ops := []ProbeOp{op("get", "sut"), op("getter", "FetchSut"), opCtx("getterctx", "A", "FetchSutInContext"), opCtx("getctx", "A", "sut"), op("mustgetter", "MustFetchSut"), opCtx("mustgetterctx", "A", "MustFetchSutInContext"), opCtx("getterctx", "B", "FetchSutInContext"), opCtx("getctx", "B", "sut"), opCtx("getctx", "A", "ctxDep"), op("getter", "FetchSut")}
					sessions := []BSession{{Ops: ops}}
					switch d.id {
					case "untyped", "ptr", "iface", "shared-explicit", "shared-explicit-untyped", "contextual", "decorated-untyped":
						// the getters keep agreeing with Get(name) after the service has been replaced at run time
						ov := ProbeOp{Op: "overrideService", Name: "sut", Val: &ProbeSpec{Kind: "ctor", Ctor: "fx/pk.New2", Args: []any{"replacement"}}}
						after := []ProbeOp{op("get", "sut"), op("getter", "FetchSut"), op("mustgetter", "MustFetchSut"), opCtx("getterctx", "A", "FetchSutInContext"), opCtx("mustgetterctx", "B", "MustFetchSutInContext")}
						sessions = append(sessions,
							BSession{Ops: append(append(append([]ProbeOp{}, ops...), ov), after...)},
							BSession{Ops: append(append([]ProbeOp{op("getter", "FetchSut"), op("mustgetter", "MustFetchSut")}, ov), after...)},
							BSession{Ops: append([]ProbeOp{ov}, after...)})
					}
					cases = append(cases, &BCase{ID: fmt.Sprintf("exec/%s/default=%d", d.id, dm), Cfg: cfg, Sessions: sessions})
				}
			}
			runBatches(w, "c13exec", cases, 24, behaviourOracle)
		},
	})
}

func isExported(n string) bool { return n != "" && n[0] >= 'A' && n[0] <= 'Z' }
