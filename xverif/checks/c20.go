package checks

import (
	"bytes"
	"encoding/json"
	"fmt"
	"os"
	"os/exec"
	"strings"
	"time"

	. "github.com/gontainer/gontainer/xverif/core"
)

// C20 — generated container is safe under concurrent use. SCHED-X: preemption-bounded exhaustive
// exploration of thread interleavings of real generated code + a copy of the pinned runtime whose sync
// primitives are controlled by a cooperative scheduler; plus a separate free-running -race pass.

type c20driver struct {
	id       string
	files    func() []File // optional: the configuration spread over several files
	cfg      func() *Cfg
	threads  [][]ProbeOp
	threads2 [][]ProbeOp // thorough: two operations per thread
	contexts []string
	setup    []ProbeOp // run before the threads start
}

// environment of the probes: some of the variables the drivers read are set, some are not
var c20env = []string{"C20_A=value-a", "C20_C=7", "C20_D=value-d", "C20_F=value-f", "C20_DSN=dsn-from-env"}
var c20modelEnv = map[string]string{"C20_A": "value-a", "C20_C": "7", "C20_D": "value-d", "C20_F": "value-f", "C20_DSN": "dsn-from-env"}

func c20drivers() []c20driver {
	base := func(f func(c *Cfg)) func() *Cfg {
		return func() *Cfg { c := &Cfg{Meta: stdMeta()}; f(c); return c }
	}
	return []c20driver{
		{id: "shared-chain-multichunk", cfg: base(func(c *Cfg) {
			c.Params = []Param{{"host", "h"}, {"port", 80}, {"addr", "%host%:%port%"}}
			c.Services = []Service{{Name: "db", Constructor: P("pk.New"), Args: []any{"%addr%"}}, {Name: "repo", Constructor: P("pk.New2"), Args: []any{"@db", "%addr%"}}}
		}), threads: [][]ProbeOp{{op("get", "repo")}, {op("get", "db")}, {op("param", "addr")}},
			threads2: [][]ProbeOp{{op("get", "repo"), op("param", "addr")}, {op("get", "db"), op("get", "repo")}, {op("param", "addr"), op("get", "db")}}},
		{id: "function-param-shared-by-two", cfg: base(func(c *Cfg) {
			c.Params = []Param{{"pf", `%fnStr("once")%`}, {"p1", "%pf%-1"}, {"p2", "<%pf%|%pf%>"}}
		}), threads: [][]ProbeOp{{op("param", "p1")}, {op("param", "p2")}, {op("param", "pf")}},
			threads2: [][]ProbeOp{{op("param", "p1"), op("param", "p2")}, {op("param", "p2"), op("param", "pf")}, {op("param", "pf"), op("param", "p1")}}},
		{id: "aliases-sorting-around-their-function-target", cfg: base(func(c *Cfg) {
			// plain aliases (a lone reference) of a parameter computed by a function, named so that they sort before and after it,
			// aliases of aliases, and a service taking them: the function runs once for all of them
			c.Params = []Param{{"mid", `%fnStr("once")%`}, {"a_alias", "%mid%"}, {"z_alias", "%mid%"}, {"z_alias2", "%z_alias%"}, {"a_alias2", "%z_alias2%"}, {"glued", "<%a_alias%|%z_alias%|%mid%>"}}
			c.Services = []Service{{Name: "s", Constructor: P("pk.New"), Args: []any{"%z_alias%", "%a_alias2%"}, Fields: []KV{{"F1", "%mid%"}}}}
		}), threads: [][]ProbeOp{{op("param", "z_alias")}, {op("param", "mid")}, {op("get", "s")}},
			threads2: [][]ProbeOp{{op("param", "z_alias"), op("param", "glued")}, {op("param", "a_alias2"), op("param", "mid")}, {op("get", "s"), op("param", "z_alias2")}}},
		{id: "function-call-glued-to-text", cfg: base(func(c *Cfg) {
			// a function call next to other chunks inside one value ('node-%fn()%'), as a parameter, as an alias of it, in an
			// argument of a shared service and in a field: one call per parameter, whoever asks and however many ask
			c.Params = []Param{{"glued", `node-%fnStr("g")%`}, {"two", `%fnStr("a")%:%fnStr("b")%`}, {"alias", "%glued%"}, {"around", "[%glued%|%two%]"}}
			c.Services = []Service{{Name: "s", Constructor: P("pk.New"), Args: []any{"%glued%", `arg-%fnStr("s")%`}, Fields: []KV{{"F1", "%two%"}}}}
		}), threads: [][]ProbeOp{{op("param", "glued")}, {op("param", "alias")}, {op("get", "s")}},
			threads2: [][]ProbeOp{{op("param", "glued"), op("param", "around")}, {op("param", "two"), op("get", "s")}, {op("get", "s"), op("param", "alias")}}},
		{id: "multichunk-concatenation", cfg: base(func(c *Cfg) {
			c.Params = []Param{{"a", "A"}, {"b", 2}, {"m1", "%a%-%b%-%a%"}, {"m2", "[%b%/%a%/%b%]"}}
			c.Services = []Service{{Name: "s", Constructor: P("pk.New"), Args: []any{"x%a%y%b%z"}, Scope: P("non_shared")}}
		}), threads: [][]ProbeOp{{op("param", "m1")}, {op("param", "m2")}, {op("get", "s")}},
			threads2: [][]ProbeOp{{op("param", "m1"), op("get", "s")}, {op("param", "m2"), op("param", "m1")}, {op("get", "s"), op("param", "m2")}}},
		{id: "contextual-and-unset", contexts: []string{"A", "B"}, cfg: base(func(c *Cfg) {
			c.Services = []Service{{Name: "ctxsvc", Constructor: P("pk.New1"), Scope: P("contextual")}, {Name: "user", Constructor: P("pk.New2"), Args: []any{"@ctxsvc"}}, {Name: "top", Constructor: P("pk.New3"), Args: []any{"@user", "@ctxsvc"}}}
		}), threads: [][]ProbeOp{{opCtx("getctx", "A", "top")}, {opCtx("getctx", "A", "ctxsvc")}, {opCtx("getctx", "B", "user")}},
			threads2: [][]ProbeOp{{opCtx("getctx", "A", "top"), opCtx("getctx", "B", "ctxsvc")}, {opCtx("getctx", "A", "ctxsvc"), op("get", "top")}, {opCtx("getctx", "B", "user"), opCtx("getctx", "A", "user")}}},
		{id: "nonshared-and-shared", cfg: base(func(c *Cfg) {
			c.Services = []Service{{Name: "ns", Constructor: P("pk.NewVal"), Scope: P("non_shared")}, {Name: "sh", Constructor: P("pk.New"), Args: []any{"@ns"}}, {Name: "both", Constructor: P("pk.New2"), Args: []any{"@ns", "@sh", "@ns"}}}
		}), threads: [][]ProbeOp{{op("get", "both")}, {op("get", "sh")}, {op("get", "ns")}},
			threads2: [][]ProbeOp{{op("get", "both"), op("get", "ns")}, {op("get", "sh"), op("get", "both")}, {op("get", "ns"), op("get", "sh")}}},
		{id: "tagged-pair-and-consumer", cfg: base(func(c *Cfg) {
			c.Services = []Service{{Name: "ta", Constructor: P("pk.New1"), Tags: []Tag{{Name: "tg"}}}, {Name: "tb", Constructor: P("pk.New2"), Tags: []Tag{{Name: "tg", Priority: P(3)}}}, {Name: "consumer", Constructor: P("pk.New3"), Args: []any{"!tagged tg"}}}
		}), threads: [][]ProbeOp{{opTag("tagged", "tg")}, {op("get", "consumer")}, {op("get", "ta")}},
			threads2: [][]ProbeOp{{opTag("tagged", "tg"), op("get", "tb")}, {op("get", "consumer"), opTag("tagged", "tg")}, {op("get", "ta"), op("get", "consumer")}}},
		{id: "decorated", cfg: base(func(c *Cfg) {
			c.Services = []Service{{Name: "logger", Constructor: P("pk.New1")}, {Name: "handler", Constructor: P("pk.New2"), Tags: []Tag{{Name: "http"}}, Calls: []Call{{Method: "Set1", Args: []any{"@logger"}}}}}
			c.Decorators = []Decorator{{Tag: "http", Decorator: "pk2.Dec1", Args: []any{"@logger"}}}
		}), threads: [][]ProbeOp{{op("get", "handler")}, {op("get", "logger")}, {op("get", "handler")}},
			threads2: [][]ProbeOp{{op("get", "handler"), op("get", "logger")}, {op("get", "logger"), op("get", "handler")}, {op("get", "handler"), op("get", "handler")}}},
		{id: "env-chunks", cfg: base(func(c *Cfg) {
			c.Params = []Param{{"e1", `%env("C20_A", "a")%`}, {"e2", `%env("C20_B", "b")%`}, {"e3", `%envInt("C20_C", 3)%`}, {"e4", `%env("C20_D", "d")%-%envInt("C20_E", 5)%`}}
			c.Services = []Service{{Name: "s", Constructor: P("pk.New"), Args: []any{`%env("C20_F", "f")%`, "%e4%"}, Scope: P("non_shared")}}
		}), threads: [][]ProbeOp{{op("param", "e4")}, {op("param", "e4")}, {op("get", "s")}},
			threads2: [][]ProbeOp{{op("param", "e1"), op("param", "e3")}, {op("param", "e2"), op("param", "e4")}, {op("get", "s"), op("param", "e1")}}},
		{id: "contextual-split-over-files", contexts: []string{"A", "B"}, files: func() []File {
			a := &Cfg{Meta: stdMeta(), Services: []Service{{Name: "session", Constructor: P("pk.New1"), Scope: P("contextual")}, {Name: "shared", Constructor: P("pk.New2")}}}
			b := &Cfg{Services: []Service{{Name: "session", Tags: []Tag{{Name: "tg"}}, Getter: P("FetchSession")}, {Name: "user", Constructor: P("pk.New3"), Args: []any{"@session", "@shared"}}}}
			return []File{{"a.yaml", a.YAML()}, {"b.yaml", b.YAML()}}
		}, cfg: base(func(c *Cfg) {
			c.Services = []Service{{Name: "session", Constructor: P("pk.New1"), Scope: P("contextual"), Tags: []Tag{{Name: "tg"}}, Getter: P("FetchSession")}, {Name: "shared", Constructor: P("pk.New2")}, {Name: "user", Constructor: P("pk.New3"), Args: []any{"@session", "@shared"}}}
		}),
			threads:  [][]ProbeOp{{opCtx("getctx", "A", "session")}, {opCtx("getctx", "B", "session")}, {opCtx("getctx", "A", "user")}},
			threads2: [][]ProbeOp{{opCtx("getctx", "A", "session"), opCtx("getctx", "B", "user")}, {opCtx("getctx", "B", "session"), ProbeOp{Op: "taggedctx", Ctx: "A", Tag: "tg"}}, {opCtx("getterctx", "A", "FetchSessionInContext"), opCtx("getctx", "B", "session")}}},
		{id: "contextual-value-literal", contexts: []string{"A", "B"}, cfg: base(func(c *Cfg) {
			c.Services = []Service{{Name: "tx", Value: P("&pk.Obj{}"), Scope: P("contextual")}, {Name: "txTyped", Value: P("&pk2.Obj{}"), Type: P("*pk2.Obj"), Scope: P("contextual")},
				{Name: "repo", Constructor: P("pk.New"), Args: []any{"@tx", "@txTyped"}}, {Name: "fresh", Value: P("pk.Val{}"), Scope: P("non_shared"), Fields: []KV{{"F1", "@tx"}}}}
		}), threads: [][]ProbeOp{{opCtx("getctx", "A", "repo")}, {opCtx("getctx", "B", "repo")}, {opCtx("getctx", "A", "tx")}},
			threads2: [][]ProbeOp{{opCtx("getctx", "A", "repo"), opCtx("getctx", "B", "tx")}, {opCtx("getctx", "B", "repo"), op("get", "fresh")}, {opCtx("getctx", "A", "tx"), op("get", "fresh")}}},
		{id: "contextual-after-todo", contexts: []string{"A", "B"}, cfg: base(func(c *Cfg) {
			c.Params = []Param{{"pf", `%fnStr("once")%`}, {"alias", "%pf%"}, {"aliasOfAlias", "%alias%"}}
			c.Services = []Service{{Name: "auditLog", Todo: P(true)}, {Name: "clock", Constructor: P("pk.New1"), Args: []any{"%alias%"}}, {Name: "handler", Constructor: P("pk.New2"), Args: []any{"@session", "@clock", "%aliasOfAlias%"}},
				{Name: "session", Constructor: P("pk.New3"), Scope: P("contextual")}, {Name: "zzTodo", Todo: P(true), Scope: P("non_shared")}, {Name: "zzz", Constructor: P("pk.New4"), Scope: P("contextual"), Args: []any{"%pf%"}}}
		}), threads: [][]ProbeOp{{opCtx("getctx", "A", "handler")}, {opCtx("getctx", "B", "handler")}, {opCtx("getctx", "A", "session")}},
			threads2: [][]ProbeOp{{opCtx("getctx", "A", "handler"), opCtx("getctx", "B", "zzz")}, {opCtx("getctx", "B", "handler"), op("param", "alias")}, {opCtx("getctx", "A", "zzz"), op("param", "pf")}}},
		{id: "bare-service-contextual-by-decorator", contexts: []string{"A", "B"}, cfg: base(func(c *Cfg) {
			// nothing is injected into handler itself; it is contextual because the decorator on its tag takes a contextual service
			c.Services = []Service{{Name: "handler", Constructor: P("pk.New1"), Tags: []Tag{{Name: "http"}}}, {Name: "requestID", Constructor: P("pk.New2"), Scope: P("contextual")},
				{Name: "bareValue", Value: P("&pk.Obj{}"), Scope: P("contextual")}, {Name: "front", Constructor: P("pk.New3"), Args: []any{"@handler", "@bareValue"}}}
			c.Decorators = []Decorator{{Tag: "http", Decorator: "pk2.Dec1", Args: []any{"@requestID"}}}
		}), threads: [][]ProbeOp{{opCtx("getctx", "A", "handler")}, {opCtx("getctx", "B", "handler")}, {opCtx("getctx", "A", "requestID")}},
			threads2: [][]ProbeOp{{opCtx("getctx", "A", "front"), opCtx("getctx", "B", "requestID")}, {opCtx("getctx", "B", "front"), opCtx("getctx", "A", "bareValue")}, {opCtx("getctx", "A", "handler"), opCtx("getctx", "B", "bareValue")}}},
		{id: "tagged-contextual-members", contexts: []string{"A", "B"}, cfg: base(func(c *Cfg) {
			// the consumer has no declared scope: it is contextual because a member of the tag it requests is
			c.Services = []Service{{Name: "audit", Constructor: P("pk.New1"), Scope: P("contextual"), Tags: []Tag{{Name: "tx"}}}, {Name: "plain", Constructor: P("pk.New2"), Tags: []Tag{{Name: "tx", Priority: P(1)}}},
				{Name: "repo", Constructor: P("pk.New3"), Args: []any{"!tagged tx"}}, {Name: "viaField", Value: P("pk.Obj{}"), Fields: []KV{{"F1", "!tagged tx"}}}}
		}), threads: [][]ProbeOp{{opCtx("getctx", "A", "repo")}, {opCtx("getctx", "B", "repo")}, {opCtx("getctx", "A", "audit")}},
			threads2: [][]ProbeOp{{opCtx("getctx", "A", "repo"), ProbeOp{Op: "taggedctx", Ctx: "A", Tag: "tx"}}, {opCtx("getctx", "B", "viaField"), opCtx("getctx", "B", "audit")}, {opCtx("getctx", "A", "viaField"), opCtx("getctx", "B", "repo")}}},
		{id: "failing-getters", cfg: base(func(c *Cfg) {
			// every operation fails (todo service, todo parameter, failing constructor): the error path is shared state too
			c.Params = []Param{{"pt", "%todo()%"}, {"pu", "x%pt%"}}
			c.Services = []Service{{Name: "later", Todo: P(true), Getter: P("FetchLater"), MustGetter: P(true)}, {Name: "broken", Constructor: P("pk.NewE"), Args: []any{"fail"}, Getter: P("FetchBroken"), Type: P("*pk.Obj")},
				{Name: "needs", Constructor: P("pk.New"), Args: []any{"%pu%", "@later"}, Getter: P("FetchNeeds")}}
		}), threads: [][]ProbeOp{{op("getter", "FetchNeeds")}, {op("getter", "FetchBroken")}, {op("getter", "FetchNeeds")}},
			threads2: [][]ProbeOp{{op("getter", "FetchNeeds"), op("param", "pu")}, {op("getter", "FetchBroken"), op("getter", "FetchNeeds")}, {op("get", "later"), op("getter", "FetchBroken")}}},
		{id: "override-then-concurrent-dependants", setup: []ProbeOp{
			{Op: "overrideParam", Name: "dsn", Val: &ProbeSpec{Kind: "provider", V: map[string]any{"int": 7}}},
			{Op: "overrideService", Name: "conn", Val: &ProbeSpec{Kind: "ctor", Ctor: "fx/pk.New2", Args: []any{"late"}}},
		}, cfg: base(func(c *Cfg) {
			// a todo parameter and a todo service are filled in before the threads start; their dependants - none of them
			// constructed yet - are asked for concurrently and all receive the overriding values
			c.Params = []Param{{"dsn", "%todo()%"}, {"url", "db://%dsn%"}, {"alias", "%dsn%"}}
			c.Services = []Service{{Name: "conn", Todo: P(true)}, {Name: "repoA", Constructor: P("pk.New"), Args: []any{"%url%", "@conn"}}, {Name: "repoB", Constructor: P("pk.New1"), Args: []any{"%alias%", "@conn"}},
				{Name: "repoC", Constructor: P("pk.New3"), Fields: []KV{{"F1", "%dsn%"}, {"F2", "@conn"}}}}
		}), threads: [][]ProbeOp{{op("get", "repoA")}, {op("get", "repoB")}, {op("get", "repoC")}},
			threads2: [][]ProbeOp{{op("get", "repoA"), op("param", "alias")}, {op("get", "repoB"), op("param", "url")}, {op("param", "dsn"), op("get", "repoC")}}},
		{id: "typed-getters", cfg: base(func(c *Cfg) {
			c.Params = []Param{{"dsn", `%env("C20_DSN", "default-dsn")%`}}
			c.Services = []Service{{Name: "db", Constructor: P("pk.New"), Args: []any{"%dsn%"}, Getter: P("FetchDb"), Type: P("*pk.Obj"), MustGetter: P(true)}}
		}), threads: [][]ProbeOp{{op("getter", "FetchDb")}, {op("mustgetter", "MustFetchDb")}, {op("get", "db")}},
			threads2: [][]ProbeOp{{op("getter", "FetchDb"), op("param", "dsn")}, {op("mustgetter", "MustFetchDb"), op("get", "db")}, {op("get", "db"), op("getter", "FetchDb")}}},
	}
}

func init() {
	Register(&Check{
		ID:    "C20",
		Level: "model_checking",
		Rule: "18 drivers (a function call glued to text inside one value, plain aliases sorting before and after the function parameter they name, a todo parameter and a todo service overridden before dependants are requested concurrently, contextual members of a requested tag, getters that fail concurrently, a service with nothing injected that is contextual through the decorator on its tag, contextual services declared after todo services + single-reference alias parameters of a function parameter, shared chain with a multi-chunk parameter, %fn()% parameter used by two parameters, multi-chunk concatenation, contextual + unset-resolving-to-contextual under two attached contexts, non_shared + shared, tagged pair + consumer, decorated service, typed getters, several env()/envInt() chunks, a contextual service whose definition is spread over two files) x 3 threads x 1 operation on the same names: every interleaving with <= 2 preemptions (quick) / <= 3 preemptions and 2 operations per thread within a time budget (thorough); scheduling points before every Mutex.Lock, RWMutex.RLock/Lock and Once.Do of the runtime copy and before every statement of the generated code; " +
			"per execution: no deadlock, every operation returns exactly what the sequential run returns (canonical object graphs incl. identity across threads), construction / function-call counters equal the sequential run's (each shared service and each parameter built once), contextual instances of distinct contexts distinct. Separate free-running pass of the same bodies with the real sync package under -race (16 goroutines x 600 rounds per driver). states = executions (complete schedules), transitions = scheduling decisions",
		Assumptions: []string{
			"the scheduler controls sync.Mutex, sync.RWMutex (writer preference) and sync.Once of the runtime's container package and every statement boundary of generated code; unsynchronised accesses below that granularity are left to the -race pass",
			"groupcontext's WaitGroup (only used by HotSwap, which is not among the explored operations) stays on the real sync package",
		},
		BudgetQuick: 280 * time.Second, BudgetThorough: 1700 * time.Second,
		Prepare: PrepareSchedRuntime,
		Run: func(w *W) {
			drivers := c20drivers()
			quick := w.Env.Quick()
			shards := 1
			if !quick {
				shards = 4
			}
			for _, d := range drivers {
				for _, two := range []bool{false, true} {
					if two && quick {
						continue
					}
					for sh := 0; sh < shards; sh++ {
						d, two, sh := d, two, sh
						id := fmt.Sprintf("sched/%s/ops=%d/shard%d", d.id, map[bool]int{false: 1, true: 2}[two], sh)
						w.Case(id, func(c *C) {
							cfg := d.cfg()
							files := []File{{"c.yaml", cfg.YAML()}}
							if d.files != nil {
								files = d.files()
							}
							br := w.Build(files)
							fm := FilesMap(files)
							if !br.OK() {
								c.Violation("driver-rejected", "driver configuration rejected:\n"+br.Out+br.Panic, fm, nil)
								return
							}
							bin, err := w.BuildSchedProbe(br.Output, "NewGontainer", false)
							if err != nil {
								c.Violation("sched-probe-build:"+compilerKey(err.Error()), "controlled probe does not build:\n"+err.Error(), fm, nil)
								return
							}
							spec := SchedSpec{Threads: d.threads, Contexts: d.contexts, Setup: d.setup, Bound: 2, BudgetSec: 60, Shard: sh, NShards: shards}
							if !quick {
								spec.Bound, spec.BudgetSec = 3, 240
							}
							if two {
								spec.Threads = d.threads2
								spec.Bound = 2
							}
							rep, err := RunSched(bin, spec, time.Duration(spec.BudgetSec+60)*time.Second, c20env...)
							if err != nil {
								c.Violation("sched-probe-failed", "controlled probe failed: "+err.Error(), fm, nil)
								return
							}
							if rep.Internal != "" {
								panic("schedule explorer internal error (" + d.id + "): " + rep.Internal)
							}
							c.Add("states", int64(rep.Executions))
							c.Add("transitions", rep.Steps)
							c.Add("branching_points", rep.Points)
							c.Add("traces", int64(rep.Executions))
							c.Add("evaluations_extra", int64(rep.Executions))
							c.Add("executions_with_blocking", int64(rep.WithBlocking))
							c.Add("distinct_nontrivial_extra", int64(rep.WithBlocking))
							c.Distinct("nontrivial", id)
							for o := range rep.Outcomes {
								c.Distinct("outcomes", d.id+"|"+o)
							}
							if rep.Capped {
								w.Note(fmt.Sprintf("%s: time/exec cap hit after %d executions; completed bound %d", id, rep.Executions, rep.BoundCompleted))
								c.Count("capped_drivers")
								c.Partial()
							}
							if rep.WithBlocking == 0 {
								// not a property violation: a vacuity guard for the reader of the evidence
								w.Note("driver " + id + ": no execution ever blocked on a lock (the threads do not collide)")
								c.Count("drivers_without_blocking")
							}
							for _, v := range rep.Violations {
								c.Violation(v.Kind+":"+d.id, fmt.Sprintf("driver %s, schedule %v (choices at branching points): %s", d.id, v.Schedule, v.Msg), fm, map[string]any{"schedule": v.Schedule, "threads": spec.Threads})
							}
							if sh == 0 && !two {
								c.Sample(map[string]any{"driver": d.id, "threads": spec.Threads, "bound": spec.Bound, "executions": rep.Executions, "max_branching_points": rep.MaxBranching, "sample_schedules": rep.SampleSchedules, "executions_with_blocking": rep.WithBlocking, "distinct_outcomes": len(rep.Outcomes)})
							}
						})
					}
				}
			}
			// configurations whose container would hand one contextual instance to several contexts must not be built at
			// all: a declared-shared service reaching a contextual one, with parameters / tags / decorators on the way
			w.Case("scope-violating-configurations-are-not-built", func(c *C) {
				mk := func(f func(c *Cfg)) *Cfg {
					cfg := &Cfg{Meta: stdMeta(), Params: []Param{{"dsn", "x"}, {"opt", "%dsn%"}}, Services: []Service{{Name: "tx", Constructor: P("pk.New1"), Scope: P("contextual")}}}
					f(cfg)
					return cfg
				}
				cfgs := map[string]*Cfg{
					"direct-with-param": mk(func(c *Cfg) {
						c.Services = append(c.Services, Service{Name: "repo", Constructor: P("pk.New"), Args: []any{"%opt%", "@tx"}, Scope: P("shared")})
					}),
					"indirect-with-param": mk(func(c *Cfg) {
						c.Services = append(c.Services, Service{Name: "mid", Constructor: P("pk.New"), Args: []any{"%dsn%", "@tx"}}, Service{Name: "repo", Constructor: P("pk.New"), Fields: []KV{{"F1", "@mid"}, {"F2", "%opt%"}}, Scope: P("shared")})
					}),
					"via-tag-with-param": mk(func(c *Cfg) {
						c.Services[0].Tags = []Tag{{Name: "txs"}}
						c.Services = append(c.Services, Service{Name: "repo", Constructor: P("pk.New"), Args: []any{"%dsn%", "!tagged txs"}, Tags: []Tag{{Name: "aaa"}}, Scope: P("shared")})
					}),
					"via-decorator-no-args": mk(func(c *Cfg) {
						c.Services = append(c.Services, Service{Name: "repo", Constructor: P("pk.New"), Tags: []Tag{{Name: "decorated"}}, Scope: P("shared")})
						c.Decorators = []Decorator{{Tag: "decorated", Decorator: "pk.Dec1", Args: []any{"%opt%", "@tx"}}}
					}),
				}
				for _, name := range SortedKeys(cfgs) {
					files := []File{{"c.yaml", cfgs[name].YAML()}}
					// no flag makes such a container acceptable
					for _, flags := range [][]string{nil, {"--ignore-missing-services"}, {"--ignore-missing-params"}, {"--ignore-missing-params", "--ignore-missing-services"}, {"--stub"}, {"--quiet"}, {"--quiet", "--stub", "--ignore-missing-services", "--ignore-missing-params"}} {
						br := w.Build(files, flags...)
						c.Distinct("nontrivial", c.ID+name+fmt.Sprint(flags))
						c.Count("evaluations_extra")
						if br.OK() {
							c.Violation("scope-violation-built:"+name, fmt.Sprintf("a declared-shared service reaches a contextual one (%s) and the container was generated under flags %v: it would cache one context's instance for every context", name, flags), FilesMap(files), map[string]any{"flags": flags})
						}
					}
				}
			})
			// the sequential composition of every driver's threads against the reference model (the explorer compares
			// concurrent executions with the sequential run of the same build; this pins the sequential run itself)
			w.Case("sequential-semantics", func(c *C) {
				var cases []*BCase
				for _, d := range drivers {
					for ti, th := range [][][]ProbeOp{d.threads, d.threads2} {
						ops := append([]ProbeOp{}, d.setup...)
						for _, t := range th {
							ops = append(ops, t...)
						}
						ops = append(ops, op("counters", ""))
						bc := &BCase{ID: fmt.Sprintf("sequential/%s/%d", d.id, ti), Cfg: d.cfg(), Sessions: []BSession{{Ops: ops}}}
						if d.files != nil {
							bc.Files = d.files()
						}
						cases = append(cases, bc)
					}
				}
				for _, kv := range c20env {
					p := strings.SplitN(kv, "=", 2)
					os.Setenv(p[0], p[1])
				}
				outs, err := w.RunBehaviour(cases)
				for _, o := range outs {
					for si := range o.Case.Sessions {
						o.Case.Sessions[si].Env = c20modelEnv
					}
				}
				behaviourOracle(c, outs, err)
				c.Distinct("nontrivial", c.ID)
			})
			// free-running race pass
			for _, d := range drivers {
				d := d
				w.Case("race/"+d.id, func(c *C) {
					cfg := d.cfg()
					files := []File{{"c.yaml", cfg.YAML()}}
					if d.files != nil {
						files = d.files()
					}
					br := w.Build(files)
					if !br.OK() {
						return
					}
					bin, err := w.BuildSchedProbe(br.Output, "NewGontainer", true)
					if err != nil {
						c.Violation("race-probe-build", "race probe does not build:\n"+err.Error(), FilesMap(files), nil)
						return
					}
					spec := map[string]any{"threads": d.threads2, "contexts": d.contexts, "setup": d.setup, "goroutines": 16, "rounds": 600, "seed": w.Env.Seed + 1}
					in, _ := json.Marshal(spec)
					cmd := exec.Command(bin)
					cmd.Stdin = bytes.NewReader(in)
					cmd.Env = append(append(os.Environ(), "GORACE=halt_on_error=0 exitcode=66", "GOMAXPROCS=8"), c20env...)
					var stdout, stderr bytes.Buffer
					cmd.Stdout, cmd.Stderr = &stdout, &stderr
					err = cmd.Run()
					c.Distinct("nontrivial", c.ID)
					c.Count("race_runs")
					if strings.Contains(stderr.String(), "WARNING: DATA RACE") {
						c.Violation("data-race:"+d.id, "the race detector reports a data race in driver "+d.id+":\n"+tailStr(stderr.String(), 3000), FilesMap(files), nil)
						return
					}
					if err != nil {
						c.Violation("race-probe-failed", "race probe failed: "+err.Error()+"\n"+tailStr(stderr.String(), 2000), FilesMap(files), nil)
						return
					}
					var rep struct {
						Rounds, Ops int
						Mismatches  []string
					}
					json.Unmarshal(bytes.TrimSpace(stdout.Bytes()), &rep)
					c.Add("race_ops", int64(rep.Ops))
					for _, m := range rep.Mismatches {
						c.Violation("free-running-mismatch:"+d.id, m, FilesMap(files), nil)
					}
				})
			}
		},
	})
}

func tailStr(s string, n int) string {
	if len(s) > n {
		return s[:n]
	}
	return s
}
