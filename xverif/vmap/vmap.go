// Package vmap is the map-iteration seam injected (go build -overlay) into the tool: every `range` over
// a map becomes a choice point at which the explorer picks the iteration order.
package vmap

import (
	"fmt"
	"reflect"
	"sort"
)

type Entry[K comparable, V any] struct {
	K K
	V V
}

// Chooser returns, for a site with n entries (n >= 2), the index of the permutation to use
// (0 = canonical order, 0 <= index < n! for n <= 4, otherwise < 2n rotations/reversals).
var Chooser func(site string, n int) int

// Sites records every site that was executed with >= 2 entries.
var Sites = map[string]int{}

func NumAlternatives(n int) int {
	switch {
	case n < 2:
		return 1
	case n <= 4:
		f := 1
		for i := 2; i <= n; i++ {
			f *= i
		}
		return f
	}
	return 2 * n
}

func Entries[K comparable, V any](m map[K]V, site string) []Entry[K, V] {
	es := make([]Entry[K, V], 0, len(m))
	for k, v := range m {
		es = append(es, Entry[K, V]{k, v})
	}
	sort.Slice(es, func(i, j int) bool { return less(es[i].K, es[j].K) })
	n := len(es)
	if n < 2 {
		return es
	}
	Sites[site]++
	c := 0
	if Chooser != nil {
		c = Chooser(site, n)
	}
	if c == 0 {
		return es
	}
	if n <= 4 {
		return permute(es, c)
	}
	// rotations, then reversed rotations
	out := make([]Entry[K, V], n)
	rot := c % n
	for i := range es {
		out[i] = es[(i+rot)%n]
	}
	if c >= n {
		for i, j := 0, n-1; i < j; i, j = i+1, j-1 {
			out[i], out[j] = out[j], out[i]
		}
	}
	return out
}

// permute returns the c-th permutation (factorial number system) of es.
func permute[T any](es []T, c int) []T {
	n := len(es)
	pool := append([]T{}, es...)
	out := make([]T, 0, n)
	f := 1
	for i := 2; i < n; i++ {
		f *= i
	}
	for i := n - 1; i >= 0; i-- {
		idx := c / f
		c %= f
		out = append(out, pool[idx])
		pool = append(pool[:idx], pool[idx+1:]...)
		if i > 0 {
			f /= maxInt(i, 1)
		}
	}
	return out
}

func maxInt(a, b int) int {
	if a > b {
		return a
	}
	return b
}

func less(a, b any) bool {
	va, vb := reflect.ValueOf(a), reflect.ValueOf(b)
	switch va.Kind() {
	case reflect.String:
		return va.String() < vb.String()
	case reflect.Int, reflect.Int8, reflect.Int16, reflect.Int32, reflect.Int64:
		return va.Int() < vb.Int()
	case reflect.Uint, reflect.Uint8, reflect.Uint16, reflect.Uint32, reflect.Uint64:
		return va.Uint() < vb.Uint()
	}
	return fmt.Sprint(a) < fmt.Sprint(b)
}
