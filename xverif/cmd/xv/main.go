package main

import (
	"os"

	_ "github.com/gontainer/gontainer/xverif/checks"
	"github.com/gontainer/gontainer/xverif/core"
)

func main() { os.Exit(core.Main(os.Args[1:])) }
