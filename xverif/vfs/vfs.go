// Package vfs is the file-system seam injected (go build -overlay) into the tool's runner package: every
// os.ReadFile / os.WriteFile / filepath.Glob call of internal/cmd/runner becomes a choice point.
package vfs

import (
	"os"
	"path/filepath"
)

// Hook is consulted before every call; a non-nil error is returned to the caller instead of touching the
// file system. kind is "read", "write" or "glob".
var Hook func(kind, arg string) error

func ReadFile(name string) ([]byte, error) {
	if h := Hook; h != nil {
		if err := h("read", name); err != nil {
			return nil, err
		}
	}
	return os.ReadFile(name)
}

func WriteFile(name string, data []byte, perm os.FileMode) error {
	if h := Hook; h != nil {
		if err := h("write", name); err != nil {
			return err
		}
	}
	return os.WriteFile(name, data, perm)
}

func Glob(pattern string) ([]string, error) {
	if h := Hook; h != nil {
		if err := h("glob", pattern); err != nil {
			return nil, err
		}
	}
	return filepath.Glob(pattern)
}
