package core

import (
	"bytes"
	"encoding/json"
	"fmt"
	"go/ast"
	"go/format"
	"go/parser"
	"go/token"
	"os"
	"os/exec"
	"path/filepath"
	"strings"
	"time"
)

// PrepareSchedRuntime copies the pinned runtime module to shared/helpers, rewrites its "sync" import to the
// vsync shim (container package only; groupcontext keeps the real WaitGroup, it is only used by HotSwap) and
// writes the schedule explorer into the fixture universe.
func PrepareSchedRuntime(p *Parent) error {
	if err := PrepareUniverse(p); err != nil {
		return err
	}
	out, err := exec.Command("go", "list", "-m", "-f", "{{.Dir}}", HelpersPath).Output()
	if err != nil {
		// resolve in the repository's module
		cmd := exec.Command("go", "list", "-m", "-f", "{{.Dir}}", HelpersPath)
		cmd.Dir = p.Env.Repo
		out, err = cmd.Output()
		if err != nil {
			return fmt.Errorf("cannot locate the pinned runtime: %v", err)
		}
	}
	src := strings.TrimSpace(string(out))
	dst := filepath.Join(p.Shared, "helpers")
	if o, err := exec.Command("cp", "-r", src, dst).CombinedOutput(); err != nil {
		return fmt.Errorf("cp runtime: %v %s", err, o)
	}
	exec.Command("chmod", "-R", "u+w", dst).Run()
	rewritten := 0
	ents, _ := os.ReadDir(filepath.Join(dst, "container"))
	var files []string
	for _, e := range ents {
		if strings.HasSuffix(e.Name(), ".go") && !strings.HasSuffix(e.Name(), "_test.go") {
			files = append(files, e.Name())
		}
	}
	for _, f := range files {
		path := filepath.Join(dst, "container", f)
		b, err := os.ReadFile(path)
		if err != nil {
			return err
		}
		if bytes.Contains(b, []byte("\t\"sync\"\n")) {
			b = bytes.Replace(b, []byte("\t\"sync\"\n"), []byte("\tsync \""+HelpersPath+"/vsync\"\n"), 1)
			if err := os.WriteFile(path, b, 0o644); err != nil {
				return err
			}
			rewritten++
		}
	}
	if rewritten == 0 {
		return fmt.Errorf("no file of the runtime's container package imports sync: nothing to control")
	}
	p.Extra["runtime_files_with_sync_shim"] = rewritten
	// remove the runtime's tests (they use the real sync semantics)
	filepath.Walk(dst, func(path string, fi os.FileInfo, err error) error {
		if err == nil && strings.HasSuffix(path, "_test.go") {
			os.Remove(path)
		}
		return nil
	})
	os.MkdirAll(filepath.Join(dst, "vsync"), 0o755)
	if err := os.WriteFile(filepath.Join(dst, "vsync", "vsync.go"), []byte(vsyncSrc), 0o644); err != nil {
		return err
	}
	os.MkdirAll(filepath.Join(p.Shared, "fx", "racert"), 0o755)
	if err := os.WriteFile(filepath.Join(p.Shared, "fx", "racert", "racert.go"), []byte(racertSrc), 0o644); err != nil {
		return err
	}
	os.MkdirAll(filepath.Join(p.Shared, "fx", "schedrt"), 0o755)
	return os.WriteFile(filepath.Join(p.Shared, "fx", "schedrt", "schedrt.go"), []byte(schedrtSrc), 0o644)
}

// InstrumentGenerated inserts vsync.Point() before every statement of every function body.
func InstrumentGenerated(src string) (string, int, error) {
	fset := token.NewFileSet()
	f, err := parser.ParseFile(fset, "gontainer.go", src, parser.ParseComments)
	if err != nil {
		return "", 0, err
	}
	n := 0
	point := func() ast.Stmt {
		n++
		return &ast.ExprStmt{X: &ast.CallExpr{Fun: &ast.SelectorExpr{X: ast.NewIdent("vsyncpt"), Sel: ast.NewIdent("Point")}}}
	}
	var instr func(b *ast.BlockStmt)
	instr = func(b *ast.BlockStmt) {
		if b == nil {
			return
		}
		var out []ast.Stmt
		for _, st := range b.List {
			out = append(out, point(), st)
		}
		b.List = out
	}
	ast.Inspect(f, func(nd ast.Node) bool {
		switch x := nd.(type) {
		case *ast.FuncDecl:
			if x.Name.Name == "init" {
				return false
			}
		case *ast.BlockStmt:
			instr(x)
		}
		return true
	})
	f.Comments = nil // positions of comments no longer make sense
	var buf bytes.Buffer
	if err := format.Node(&buf, fset, f); err != nil {
		return "", 0, err
	}
	out := buf.String()
	// import the shim
	i := strings.Index(out, "\nimport (")
	if i < 0 {
		return "", 0, fmt.Errorf("no import block")
	}
	out = out[:i] + "\nimport vsyncpt \"" + HelpersPath + "/vsync\"\n" + out[i:]
	return out, n, nil
}

// SchedSpec mirrors fx/schedrt.Spec.
type SchedSpec struct {
	Threads   [][]ProbeOp `json:"threads"`
	Contexts  []string    `json:"contexts"`
	Setup     []ProbeOp   `json:"setup,omitempty"`
	Bound     int         `json:"bound"`
	MaxExec   int         `json:"max_exec"`
	BudgetSec int         `json:"budget_sec"`
	Replay    []int       `json:"replay,omitempty"`
	Shard     int
	NShards   int
}

type SchedViolation struct {
	Kind     string `json:"kind"`
	Msg      string `json:"msg"`
	Schedule []int  `json:"schedule"`
}

type SchedReport struct {
	Executions      int              `json:"executions"`
	Points          int64            `json:"points"`
	Steps           int64            `json:"steps"`
	MaxBranching    int              `json:"max_branching_points"`
	WithBlocking    int              `json:"executions_with_blocking"`
	Outcomes        map[string]int   `json:"outcomes"`
	BoundCompleted  int              `json:"bound_completed"`
	Capped          bool             `json:"capped"`
	Violations      []SchedViolation `json:"violations"`
	Reference       string           `json:"reference"`
	SampleSchedules [][]int          `json:"sample_schedules"`
	Internal        string           `json:"internal,omitempty"`
}

// BuildSchedProbe builds the controlled probe for one generated package; returns the binary path.
func (w *W) BuildSchedProbe(gen string, ctor string, race bool) (string, error) {
	d := filepath.Join(w.Dir, "schedprobe")
	os.RemoveAll(d)
	os.MkdirAll(filepath.Join(d, "gen"), 0o755)
	ver, err := HelpersVersion(w.Env.Repo)
	if err != nil {
		return "", err
	}
	gomod := fmt.Sprintf("module probe\n\ngo 1.21\n\nrequire %s %s\nrequire fx v0.0.0\nreplace fx => %s\n", HelpersPath, ver, filepath.Join(w.Shared, "fx"))
	main := ""
	src := gen
	if race {
		main = "package main\n\nimport (\n\t\"fx/racert\"\n\tgen \"probe/gen\"\n)\n\nfunc main() { racert.Main(func() any { return gen." + ctor + "() }) }\n"
	} else {
		gomod += fmt.Sprintf("replace %s => %s\n", HelpersPath, filepath.Join(w.Shared, "helpers"))
		var n int
		src, n, err = InstrumentGenerated(gen)
		if err != nil {
			return "", err
		}
		_ = n
		main = "package main\n\nimport (\n\t\"fx/schedrt\"\n\tgen \"probe/gen\"\n)\n\nfunc main() { schedrt.Main(func() any { return gen." + ctor + "() }) }\n"
	}
	os.WriteFile(filepath.Join(d, "go.mod"), []byte(gomod), 0o644)
	copyFile(filepath.Join(w.Env.Repo, "go.sum"), filepath.Join(d, "go.sum"))
	os.WriteFile(filepath.Join(d, "gen", "gontainer.go"), []byte(src), 0o644)
	os.WriteFile(filepath.Join(d, "main.go"), []byte(main), 0o644)
	bin := filepath.Join(w.Dir, "schedprobe.bin")
	args := []string{"build", "-o", bin}
	if race {
		args = append(args, "-race")
	}
	args = append(args, ".")
	cmd := exec.Command("go", args...)
	cmd.Dir = d
	cmd.Env = append(os.Environ(), "GOMAXPROCS=4")
	if out, err := cmd.CombinedOutput(); err != nil {
		return "", &ProbeError{"build", string(out)}
	}
	return bin, nil
}

// RunSched runs the controlled probe with a spec.
func RunSched(bin string, spec SchedSpec, timeout time.Duration, extraEnv ...string) (*SchedReport, error) {
	in, _ := json.Marshal(spec)
	cmd := exec.Command(bin)
	cmd.Stdin = bytes.NewReader(in)
	cmd.Env = append(append(os.Environ(), "GOMAXPROCS=1"), extraEnv...)
	var stdout, stderr bytes.Buffer
	cmd.Stdout = &stdout
	cmd.Stderr = &stderr
	if err := cmd.Start(); err != nil {
		return nil, err
	}
	done := make(chan error, 1)
	go func() { done <- cmd.Wait() }()
	select {
	case err := <-done:
		if err != nil {
			return nil, &ProbeError{"run", fmt.Sprintf("%v\n%s", err, tail(stderr.String(), 4000))}
		}
	case <-time.After(timeout):
		cmd.Process.Kill()
		<-done
		return nil, &ProbeError{"hang", "controlled probe exceeded " + timeout.String() + "\n" + tail(stderr.String(), 2000)}
	}
	var rep SchedReport
	if err := json.Unmarshal(bytes.TrimSpace(stdout.Bytes()), &rep); err != nil {
		return nil, &ProbeError{"run", "undecodable report: " + err.Error() + "\n" + tail(stdout.String(), 1000)}
	}
	return &rep, nil
}

func init() {
	// warm the build cache for the controlled probe and for the -race probe (std lib with -race is the slow part)
	SetupHooks = append(SetupHooks, func(env Env) error {
		shared := filepath.Join(env.Scratch, "setup-shared-sched")
		p := &Parent{Env: env, Shared: shared, Extra: map[string]any{}}
		os.MkdirAll(shared, 0o755)
		if err := PrepareSchedRuntime(p); err != nil {
			return err
		}
		w := &W{Env: env, Shared: shared, Dir: filepath.Join(env.Scratch, "setup-w-sched")}
		os.MkdirAll(w.Dir, 0o755)
		os.Chdir(w.Dir)
		DriverInit()
		cfg := &Cfg{Meta: &Meta{Pkg: P("gen"), Imports: []KV{{"pk", "fx/pk"}}}, Params: []Param{{"p", "a%q%"}, {"q", 1}}, Services: []Service{{Name: "s", Constructor: P("pk.New"), Args: []any{"%p%"}}}}
		br := w.Build([]File{{"c.yaml", cfg.YAML()}})
		if !br.OK() {
			return fmt.Errorf("setup: minimal configuration rejected:\n%s", br.Out)
		}
		if _, err := w.BuildSchedProbe(br.Output, "NewGontainer", false); err != nil {
			return err
		}
		_, err := w.BuildSchedProbe(br.Output, "NewGontainer", true)
		return err
	})
}
