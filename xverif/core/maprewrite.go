package core

import (
	"bytes"
	"encoding/json"
	"fmt"
	"go/ast"
	"go/importer"
	"go/parser"
	"go/token"
	"go/types"
	"io"
	"os"
	"os/exec"
	"path/filepath"
	"sort"
	"strings"
)

// MapRangeSite is one `range` over a map found in the repository's non-test code.
type MapRangeSite struct {
	Site        string // file:line relative to the repository
	Func        string
	Intercepted bool
	Why         string // reason when not intercepted
	InInit      bool
}

// RewriteMapRanges type-checks every non-test package of the repository (gc export data from go list)
// and produces overlay replacements in which every `for k, v := range <map>` asks vmap.Entries for the
// iteration order. It returns absolute source path -> rewritten file path, and the site inventory.
func RewriteMapRanges(repo, outDir string) (map[string]string, []MapRangeSite, error) {
	cmd := exec.Command("go", "list", "-export", "-deps", "-json=ImportPath,Export,Dir,GoFiles,Module,Standard", "./...")
	cmd.Dir = repo
	var stderr bytes.Buffer
	cmd.Stderr = &stderr
	out, err := cmd.Output()
	if err != nil {
		return nil, nil, fmt.Errorf("go list: %v\n%s", err, stderr.String())
	}
	type pkg struct {
		ImportPath, Export, Dir string
		GoFiles                 []string
		Standard                bool
		Module                  *struct{ Path string }
	}
	exports := map[string]string{}
	var own []pkg
	dec := json.NewDecoder(bytes.NewReader(out))
	for dec.More() {
		var p pkg
		if err := dec.Decode(&p); err != nil {
			return nil, nil, err
		}
		if p.Export != "" {
			exports[p.ImportPath] = p.Export
		}
		if p.Module != nil && p.Module.Path == "github.com/gontainer/gontainer" {
			own = append(own, p)
		}
	}
	fset := token.NewFileSet()
	imp := importer.ForCompiler(fset, "gc", func(path string) (io.ReadCloser, error) {
		f, ok := exports[path]
		if !ok {
			return nil, fmt.Errorf("no export data for %q", path)
		}
		return os.Open(f)
	})
	repl := map[string]string{}
	var sites []MapRangeSite
	os.MkdirAll(outDir, 0o755)
	for _, p := range own {
		var files []*ast.File
		srcs := map[string][]byte{}
		for _, gf := range p.GoFiles {
			path := filepath.Join(p.Dir, gf)
			b, err := os.ReadFile(path)
			if err != nil {
				return nil, nil, err
			}
			f, err := parser.ParseFile(fset, path, b, parser.ParseComments)
			if err != nil {
				return nil, nil, err
			}
			files = append(files, f)
			srcs[path] = b
		}
		info := &types.Info{Types: map[ast.Expr]types.TypeAndValue{}}
		conf := types.Config{Importer: imp, Error: func(error) {}}
		conf.Check(p.ImportPath, fset, files, info)
		for _, f := range files {
			path := fset.File(f.Pos()).Name()
			src := srcs[path]
			type edit struct {
				from, to int
				text     string
			}
			var edits []edit
			var curFunc string
			var inspect func(n ast.Node) bool
			counter := 0
			inspect = func(n ast.Node) bool {
				if fd, ok := n.(*ast.FuncDecl); ok {
					curFunc = fd.Name.Name
					if fd.Recv != nil && len(fd.Recv.List) > 0 {
						curFunc = types.ExprString(fd.Recv.List[0].Type) + "." + curFunc
					}
				}
				rs, ok := n.(*ast.RangeStmt)
				if !ok {
					return true
				}
				tv, ok := info.Types[rs.X]
				if !ok || tv.Type == nil {
					return true
				}
				under := tv.Type.Underlying()
				if tp, ok := tv.Type.(*types.TypeParam); ok {
					under = tp.Constraint().Underlying()
				}
				if _, isMap := under.(*types.Map); !isMap {
					return true
				}
				pos := fset.Position(rs.For)
				rel, _ := filepath.Rel(repo, pos.Filename)
				site := MapRangeSite{Site: fmt.Sprintf("%s:%d", rel, pos.Line), Func: curFunc, InInit: curFunc == "init"}
				// a body that writes to the ranged map is left alone
				xs := types.ExprString(rs.X)
				mutates := false
				ast.Inspect(rs.Body, func(m ast.Node) bool {
					switch s := m.(type) {
					case *ast.AssignStmt:
						for _, l := range s.Lhs {
							if ix, ok := l.(*ast.IndexExpr); ok && types.ExprString(ix.X) == xs {
								mutates = true
							}
						}
					case *ast.CallExpr:
						if id, ok := s.Fun.(*ast.Ident); ok && id.Name == "delete" && len(s.Args) > 0 && types.ExprString(s.Args[0]) == xs {
							mutates = true
						}
					}
					return true
				})
				if mutates {
					site.Why = "the loop body mutates the ranged map"
					sites = append(sites, site)
					return true
				}
				counter++
				ev := fmt.Sprintf("vmapE%d_", counter)
				var pro []string
				asg := ":="
				if rs.Tok == token.ASSIGN {
					asg = "="
				}
				if id, ok := rs.Key.(*ast.Ident); rs.Key != nil && !(ok && id.Name == "_") {
					pro = append(pro, fmt.Sprintf("%s %s %s.K", types.ExprString(rs.Key), asg, ev))
				}
				if id, ok := rs.Value.(*ast.Ident); rs.Value != nil && !(ok && id.Name == "_") {
					pro = append(pro, fmt.Sprintf("%s %s %s.V", types.ExprString(rs.Value), asg, ev))
				}
				loopVar := ev
				if len(pro) == 0 {
					loopVar = "_"
				}
				from := fset.Position(rs.For).Offset
				to := fset.Position(rs.Body.Lbrace).Offset + 1
				xsrc := string(src[fset.Position(rs.X.Pos()).Offset:fset.Position(rs.X.End()).Offset])
				text := fmt.Sprintf("for _, %s := range vmap.Entries(%s, %q) { %s;", loopVar, xsrc, site.Site, strings.Join(pro, "; "))
				edits = append(edits, edit{from, to, text})
				site.Intercepted = true
				sites = append(sites, site)
				return true
			}
			ast.Inspect(f, inspect)
			if len(edits) == 0 {
				continue
			}
			sort.Slice(edits, func(i, j int) bool { return edits[i].from > edits[j].from })
			outSrc := append([]byte{}, src...)
			for _, e := range edits {
				outSrc = append(append(append([]byte{}, outSrc[:e.from]...), []byte(e.text)...), outSrc[e.to:]...)
			}
			// import the shim right after the package clause
			pkgEnd := fset.Position(f.Name.End()).Offset
			outSrc = append(append(append([]byte{}, outSrc[:pkgEnd]...), []byte("\n\nimport vmap \"github.com/gontainer/gontainer/xverif/vmap\"\n")...), outSrc[pkgEnd:]...)
			dst := filepath.Join(outDir, strings.ReplaceAll(strings.TrimPrefix(path, repo+"/"), "/", "__"))
			if err := os.WriteFile(dst, outSrc, 0o644); err != nil {
				return nil, nil, err
			}
			repl[path] = dst
		}
	}
	sort.Slice(sites, func(i, j int) bool { return sites[i].Site < sites[j].Site })
	return repl, sites, nil
}
