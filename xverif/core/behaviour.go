package core

import (
	"fmt"
	"regexp"
	"sort"
	"strings"
)

// BSession is one history executed on a fresh container of a behaviour case.
type BSession struct {
	Env map[string]string
	Ops []ProbeOp
}

// BCase is one accepted-by-construction configuration plus the histories to run on it.
type BCase struct {
	ID       string
	Cfg      *Cfg
	Files    []File   // optional: explicit input files (otherwise Cfg.YAML() in one file)
	Patterns []string // optional: the -i patterns (otherwise one -i per file, in the order of Files)
	Local    bool
	Sessions []BSession
	Flags    []string
}

// BOutcome is what the batch runner hands to the per-property oracle.
type BOutcome struct {
	Case      *BCase
	Build     BuildResult
	Sessions  [][]ProbeResult // per session: index 0 = post-construction counters
	NoBuild   string          // non-empty: the generated package did not compile (compiler output)
	InitPanic string          // non-empty: package initialisation panicked
}

var reInitPanic = regexp.MustCompile(`probe/(g\d+)\.init`)

func firstLine(s string) string {
	for _, l := range strings.Split(s, "\n") {
		if strings.HasPrefix(l, "panic:") {
			return l
		}
	}
	return strings.SplitN(s, "\n", 2)[0]
}

var reGenPkgErr = regexp.MustCompile(`(?m)^(?:\./)?(g\d+)/`)

// RunBehaviour builds every case with the real tool, links all accepted outputs into one probe, runs
// the sessions, and returns the outcomes (nil Sessions when rejected or not compiled).
func (w *W) RunBehaviour(cases []*BCase) ([]*BOutcome, error) {
	outs := make([]*BOutcome, len(cases))
	var pkgs []GenPkg
	idx := map[string]int{}
	for i, bc := range cases {
		if bc.Cfg.Meta == nil {
			bc.Cfg.Meta = &Meta{}
		}
		if bc.Cfg.Meta.Pkg == nil {
			bc.Cfg.Meta.Pkg = P("gen")
		}
		files := bc.Files
		if files == nil {
			files = []File{{"c.yaml", bc.Cfg.YAML()}}
			bc.Files = files
		}
		var br BuildResult
		if bc.Patterns != nil {
			br = w.BuildPatterns(files, bc.Patterns, bc.Flags...)
		} else {
			br = w.Build(files, bc.Flags...)
		}
		outs[i] = &BOutcome{Case: bc, Build: br}
		if br.Exit != 0 || br.Panic != "" || !br.OutExists {
			continue
		}
		ctor := "NewGontainer"
		if bc.Cfg.Meta.ContainerConstructor != nil {
			ctor = *bc.Cfg.Meta.ContainerConstructor
		}
		name := fmt.Sprintf("g%d", i)
		idx[name] = i
		pkgs = append(pkgs, GenPkg{Name: name, Source: br.Output, Clause: *bc.Cfg.Meta.Pkg, Ctor: ctor, Local: bc.Local})
	}
	for attempt := 0; attempt < 12; attempt++ {
		var sessions []ProbeSession
		var owner [][2]int
		for _, g := range pkgs {
			i := idx[g.Name]
			for si, s := range cases[i].Sessions {
				sessions = append(sessions, ProbeSession{Pkg: g.Name, Env: s.Env, Ops: s.Ops})
				owner = append(owner, [2]int{i, si})
			}
		}
		res, err := w.RunProbe(pkgs, sessions, false)
		if pe, ok := err.(*ProbeError); ok && pe.Stage == "build" {
			bad := map[string]bool{}
			for _, m := range reGenPkgErr.FindAllStringSubmatch(pe.Output, -1) {
				bad[m[1]] = true
			}
			if len(bad) == 0 {
				return outs, err
			}
			var keep []GenPkg
			for _, g := range pkgs {
				if bad[g.Name] {
					var lines []string
					for _, l := range strings.Split(pe.Output, "\n") {
						if strings.Contains(l, g.Name+"/") {
							lines = append(lines, l)
						}
					}
					outs[idx[g.Name]].NoBuild = strings.Join(lines, "\n")
				} else {
					keep = append(keep, g)
				}
			}
			pkgs = keep
			continue
		}
		if pe, ok := err.(*ProbeError); ok && pe.Stage == "run" && len(res) == 0 {
			if m := reInitPanic.FindStringSubmatch(pe.Output); m != nil {
				var keep []GenPkg
				for _, g := range pkgs {
					if g.Name == m[1] {
						outs[idx[g.Name]].InitPanic = firstLine(pe.Output)
					} else {
						keep = append(keep, g)
					}
				}
				if len(keep) < len(pkgs) {
					pkgs = keep
					continue
				}
			}
		}
		// distribute whatever sessions completed
		for k, r := range res {
			o := outs[owner[k][0]]
			for len(o.Sessions) <= owner[k][1] {
				o.Sessions = append(o.Sessions, nil)
			}
			o.Sessions[owner[k][1]] = r
		}
		return outs, err
	}
	return outs, fmt.Errorf("probe build did not converge")
}

// Expect is the model's expectation for one op.
// NotContains marks an element of MErr.Contains / Expect.Err as "the error text must NOT contain the rest".
const NotContains = "\x00not:"

// EndsWith marks an element as "the error text must end with the rest" (what a message wrapped in prefixes keeps).
const EndsWith = "\x00ends:"

type Expect struct {
	Text   string   // canonical text (value)
	Err    []string // expected error substrings
	IsErr  bool
	Panics bool // the error surfaces as a panic (Must-getters)
	Unspec string
}

// ModelSession runs the ops on the model and renders expectations with a session-wide canon.
func ModelSession(m *Model, ops []ProbeOp) []Expect {
	canon := NewCanon()
	out := make([]Expect, len(ops))
	for i, op := range ops {
		var v any
		var err error
		switch op.Op {
		case "get":
			v, err = m.Get(op.Name)
		case "getctx":
			v, err = m.GetInContext(op.Ctx, op.Name)
		case "param":
			v, err = m.GetParam(op.Name)
		case "tagged":
			v, err = m.GetTaggedBy(op.Tag)
		case "taggedctx":
			v, err = m.GetTaggedByInContext(op.Ctx, op.Tag)
		case "overrideParam":
			m.OverrideParam(op.Name, op.Val)
			v = nil
		case "overrideService":
			m.OverrideService(op.Name, op.Val)
			v = nil
		case "state":
			out[i] = Expect{Text: canon.Render(m.State())}
			continue
		case "circ":
			// configurations handed to the probe are acyclic by construction: no circular dependency is reported
			out[i] = Expect{Text: "nil"}
			continue
		case "counters":
			ks := make([]string, 0, len(m.Counters))
			for k, n := range m.Counters {
				ks = append(ks, fmt.Sprintf("%s=%d", k, n))
			}
			sort.Strings(ks)
			out[i] = Expect{Text: "COUNTERS{" + strings.Join(ks, " ") + "}"}
			continue
		case "getter", "getterctx", "mustgetter", "mustgetterctx":
			base := strings.TrimSuffix(strings.TrimPrefix(op.Name, "Must"), "InContext")
			if !strings.HasPrefix(op.Op, "must") {
				base = strings.TrimSuffix(op.Name, "InContext")
			}
			var svc *Service
			for k := range m.Cfg.Services {
				if g := m.Cfg.Services[k].Getter; g != nil && *g == base {
					svc = &m.Cfg.Services[k]
				}
			}
			if svc == nil {
				out[i] = Expect{Unspec: "no service with getter " + base}
				continue
			}
			if strings.HasSuffix(op.Op, "ctx") {
				v, err = m.GetInContext(op.Ctx, svc.Name)
			} else {
				v, err = m.Get(svc.Name)
			}
			static := "interface {}"
			if svc.Type != nil {
				r, ok := ParseType(*svc.Type)
				if !ok {
					out[i] = Expect{Unspec: "malformed type"}
					continue
				}
				static = r.Ptr + m.pkgID(r) + "." + r.Name
				if !r.HasImport || r.Import == "" {
					static = r.Ptr + "probe/" + strings.TrimPrefix(m.LocalID, "./") + "." + r.Name
				}
			}
			switch e := err.(type) {
			case nil:
				out[i] = Expect{Text: "<" + static + ">" + canon.Render(DescribeModel(v))}
			case *MErr:
				out[i] = Expect{IsErr: true, Err: e.Contains, Panics: strings.HasPrefix(op.Op, "must")}
			case *MUnspec:
				out[i] = Expect{Unspec: e.Why}
			}
			continue
		default:
			out[i] = Expect{Unspec: "op not modelled: " + op.Op}
			continue
		}
		switch e := err.(type) {
		case nil:
			out[i] = Expect{Text: canon.Render(DescribeModel(v))}
		case *MErr:
			out[i] = Expect{IsErr: true, Err: e.Contains}
		case *MUnspec:
			out[i] = Expect{Unspec: e.Why}
		}
	}
	return out
}

// CompareSession compares observed results with expectations; returns the index of the first
// disagreement (-1 if none), a message, and the number of ops compared before an unspecified one.
func CompareSession(exp []Expect, res []ProbeResult) (bad int, msg string, compared int, unspec bool) {
	canon := NewCanon()
	// res[0] is the post-construction record
	for i, e := range exp {
		if i+1 >= len(res) {
			return i, "probe returned too few results", compared, false
		}
		r := res[i+1]
		if e.Unspec != "" {
			return -1, "", compared, true
		}
		obs := canon.RenderResult(r)
		if e.IsErr && e.Panics {
			if r.Panic == "" {
				return i, fmt.Sprintf("expected a panic containing %q, observed %s", e.Err, obs), compared, false
			}
			for _, s := range e.Err {
				if rest, neg := strings.CutPrefix(s, NotContains); neg {
					if strings.Contains(r.Panic, rest) {
						return i, fmt.Sprintf("expected a panic that does not contain %q, observed %s", rest, obs), compared, false
					}
					continue
				}
				if _, end := strings.CutPrefix(s, EndsWith); end {
					continue // a panic value carries a stack behind the message
				}
				if !strings.Contains(r.Panic, s) {
					return i, fmt.Sprintf("expected a panic containing %q, observed %s", e.Err, obs), compared, false
				}
			}
			compared++
			continue
		}
		if e.IsErr {
			if r.Err == "" || r.Panic != "" {
				return i, fmt.Sprintf("expected an error containing %q, observed %s", e.Err, obs), compared, false
			}
			for _, s := range e.Err {
				if rest, neg := strings.CutPrefix(s, NotContains); neg {
					if strings.Contains(r.Err, rest) {
						return i, fmt.Sprintf("expected an error that does not contain %q, observed %s", rest, obs), compared, false
					}
					continue
				}
				if rest, end := strings.CutPrefix(s, EndsWith); end {
					if !strings.HasSuffix(r.Err, rest) {
						return i, fmt.Sprintf("expected an error ending with %q, observed %s", rest, obs), compared, false
					}
					continue
				}
				if !strings.Contains(r.Err, s) {
					return i, fmt.Sprintf("expected an error containing %q, observed %s", e.Err, obs), compared, false
				}
			}
			// an error must never come with another object
			if r.V != nil && carriesObject(r.V) {
				return i, "error returned together with a non-nil value: " + obs + " / " + canon.Render(r.V), compared, false
			}
			compared++
			continue
		}
		if obs != e.Text {
			return i, fmt.Sprintf("expected %s\nobserved %s", e.Text, obs), compared, false
		}
		compared++
	}
	return -1, "", compared, false
}

// carriesObject: the value returned next to an error is something other than a zero value.
func carriesObject(v map[string]any) bool {
	switch str(v["t"]) {
	case "wrap":
		return true
	case "obj":
		_, hasID := v["id"]
		return hasID
	case "slice":
		items, _ := v["items"].([]any)
		return len(items) > 0
	case "string":
		return str(v["v"]) != ""
	case "container", "rootcontainer":
		return true
	}
	return false
}
