package core

// Source of the fixture universe, written out to scratch at run time (module "fx").
// Every package exports the same self-identifying symbols; fx/rt holds the shared state and the describer.

const fxRT = `package rt

import (
	"context"
	"encoding/json"
	"fmt"
	"math"
	"os"
	"bufio"
	"reflect"
	"sort"
	"strings"
	"sync"
	"sync/atomic"
	"unsafe"

	"github.com/gontainer/gontainer-helpers/v3/container"
)

type Event struct {
	M    string
	Args []any
}

// View is what a fixture object looks like to the describer.
type View struct {
	Ident string // "" = no identity (zero value)
	Ty    string
	Ctor  string
	Args  []any
	F1, F2, F3 any
	Log   []Event
}

type Describable interface{ XDesc() View }

// Wrap is what decorators return.
type Wrap struct {
	Fn, Tag, SID string
	Args         []any
	Inner        any
}

var serial int64

func Next() int64 { return atomic.AddInt64(&serial, 1) }

var (
	mu       sync.Mutex
	counters = map[string]int64{}
	resets   []func()
	Ctors    = map[string]any{}
)

func Count(name string) {
	mu.Lock()
	counters[name]++
	mu.Unlock()
}

func Counters() map[string]int64 {
	mu.Lock()
	defer mu.Unlock()
	r := map[string]int64{}
	for k, v := range counters {
		r[k] = v
	}
	return r
}

func OnReset(f func()) { resets = append(resets, f) }

var retained []any

func Reset() {
	mu.Lock()
	counters = map[string]int64{}
	retained = nil
	mu.Unlock()
	for _, f := range resets {
		f()
	}
}

// ---- describer ------------------------------------------------------------------------------------

type Node map[string]any

type describer struct {
	seen map[string]bool
	root any
}

func Describe(v any, root any) Node {
	d := &describer{seen: map[string]bool{}, root: root}
	return d.desc(v)
}

func ptrIdent(v any) string { return fmt.Sprintf("p:%p", v) }

func (d *describer) list(xs []any) []any {
	r := make([]any, len(xs))
	for i, x := range xs {
		r[i] = d.desc(x)
	}
	return r
}

func (d *describer) desc(v any) Node {
	if v == nil {
		return Node{"t": "nil"}
	}
	if v == d.root {
		return Node{"t": "container"}
	}
	switch x := v.(type) {
	case *container.Container:
		if r, ok := d.root.(interface{ Root() *container.Container }); ok && r.Root() == x {
			return Node{"t": "rootcontainer"}
		}
		return Node{"t": "other", "go": "*container.Container"}
	case bool:
		return Node{"t": "bool", "v": fmt.Sprint(x)}
	case string:
		return Node{"t": "string", "v": x}
	case int, int8, int16, int32, int64, uint, uint8, uint16, uint32, uint64:
		return Node{"t": reflect.TypeOf(v).String(), "v": fmt.Sprint(v)}
	case float64:
		return Node{"t": "float64", "v": fmtFloat(x)}
	case float32:
		return Node{"t": "float32", "v": fmtFloat(float64(x))}
	case []any:
		return Node{"t": "slice", "items": d.list(x)}
	case *Wrap:
		id := ptrIdent(x)
		if d.seen[id] {
			return Node{"t": "ref", "id": id}
		}
		d.seen[id] = true
		return Node{"t": "wrap", "id": id, "fn": x.Fn, "tag": x.Tag, "sid": x.SID, "args": d.list(x.Args), "inner": d.desc(x.Inner)}
	case error:
		return Node{"t": "error", "v": x.Error()}
	}
	rv := reflect.ValueOf(v)
	if rv.Kind() == reflect.Ptr && rv.IsNil() {
		return Node{"t": "nilptr", "go": typeName(rv.Type())}
	}
	// named types over a basic kind describe themselves by their value (the static type of a getter is recorded apart)
	switch rv.Kind() {
	case reflect.String:
		return Node{"t": "string", "v": rv.String()}
	case reflect.Int, reflect.Int64:
		return Node{"t": rv.Kind().String(), "v": fmt.Sprint(rv.Int())}
	}
	if dd, ok := v.(Describable); ok {
		vw := dd.XDesc()
		if rv.Kind() == reflect.Ptr && !strings.HasPrefix(vw.Ty, "*") {
			vw.Ty = "*" + vw.Ty // a pointer to a type that describes itself by value (fx Val): not the same thing as a copy
		}
		return d.view(vw)
	}
	// a struct value whose pointer type is describable (fx Obj by value)
	if rv.Kind() == reflect.Struct {
		p := reflect.New(rv.Type())
		p.Elem().Set(rv)
		if dd, ok := p.Interface().(Describable); ok {
			vw := dd.XDesc()
			vw.Ident = ""
			vw.Ty = strings.TrimPrefix(vw.Ty, "*")
			return d.view(vw)
		}
	}
	if rv.Kind() == reflect.Ptr && rv.Elem().Kind() == reflect.Interface {
		return Node{"t": "ptrany", "elem": d.desc(rv.Elem().Interface())}
	}
	return Node{"t": "other", "go": fmt.Sprintf("%T", v), "s": fmt.Sprintf("%v", v)}
}

func typeName(t reflect.Type) string {
	if t.Kind() == reflect.Ptr {
		return "*" + typeName(t.Elem())
	}
	if t.PkgPath() != "" {
		return t.PkgPath() + "." + t.Name()
	}
	return t.String()
}

func fmtFloat(f float64) string {
	switch {
	case math.IsNaN(f):
		return "NaN"
	case math.IsInf(f, 1):
		return "+Inf"
	case math.IsInf(f, -1):
		return "-Inf"
	}
	return fmt.Sprintf("%v", f)
}

func (d *describer) view(vw View) Node {
	if vw.Ident != "" {
		if d.seen[vw.Ident] {
			return Node{"t": "ref", "id": vw.Ident}
		}
		d.seen[vw.Ident] = true
	}
	n := Node{"t": "obj", "ty": vw.Ty, "ctor": vw.Ctor, "args": d.list(vw.Args), "f1": d.desc(vw.F1), "f2": d.desc(vw.F2), "f3": d.desc(vw.F3)}
	if vw.Ident != "" {
		n["id"] = vw.Ident
	}
	log := make([]any, len(vw.Log))
	for i, e := range vw.Log {
		log[i] = Node{"m": e.M, "args": d.list(e.Args)}
	}
	n["log"] = log
	return n
}

// ---- probe engine ---------------------------------------------------------------------------------

type Op struct {
	Op   string ` + "`json:\"op\"`" + `
	Name string ` + "`json:\"name,omitempty\"`" + `
	Ctx  string ` + "`json:\"ctx,omitempty\"`" + `
	Tag  string ` + "`json:\"tag,omitempty\"`" + `
	Val  *Spec  ` + "`json:\"val,omitempty\"`" + `
}

// Spec describes an overriding definition.
type Spec struct {
	Kind string ` + "`json:\"kind\"`" + ` // value | ctor | providerfail | param
	V    any    ` + "`json:\"v,omitempty\"`" + `
	Ctor string ` + "`json:\"ctor,omitempty\"`" + `
	Args []any  ` + "`json:\"args,omitempty\"`" + `
	Deps []string ` + "`json:\"deps,omitempty\"`" + ` // service ids injected after Args
	Tags []string ` + "`json:\"tags,omitempty\"`" + ` // tags (priority 0) of an overriding service
	Scope string ` + "`json:\"scope,omitempty\"`" + ` // declared scope of an overriding service
}

type Session struct {
	Pkg string ` + "`json:\"pkg\"`" + `
	Env map[string]string ` + "`json:\"env,omitempty\"`" + `
	Ops []Op   ` + "`json:\"ops\"`" + `
}

type Result struct {
	V     Node   ` + "`json:\"v,omitempty\"`" + `
	Err   string ` + "`json:\"err,omitempty\"`" + `
	Panic string ` + "`json:\"panic,omitempty\"`" + `
	C     map[string]int64 ` + "`json:\"c,omitempty\"`" + `
}

type API interface {
	Get(string) (any, error)
	GetInContext(context.Context, string) (any, error)
	GetParam(string) (any, error)
	GetTaggedBy(string) ([]any, error)
	GetTaggedByInContext(context.Context, string) ([]any, error)
	CircularDeps() error
	IsTaggedBy(string, string) bool
	OverrideParam(string, container.Dependency)
	OverrideService(string, container.Service)
	Root() *container.Container
}

func fixNum(v any) any {
	// JSON numbers arrive as float64; the script marks ints as {"int": n}
	if m, ok := v.(map[string]any); ok {
		if i, ok := m["int"]; ok {
			return int(i.(float64))
		}
	}
	return v
}

func runOp(c any, ctxs map[string]context.Context, op Op) (res Result) {
	defer func() {
		if r := recover(); r != nil {
			res = Result{Panic: fmt.Sprint(r)}
		}
	}()
	api, _ := c.(API)
	ctx := func(name string) context.Context {
		if x, ok := ctxs[name]; ok {
			return x
		}
		base, cancel := context.WithCancel(context.Background())
		_ = cancel
		x := container.ContextWithContainer(base, api)
		ctxs[name] = x
		return x
	}
	wrap := func(v any, err error) Result {
		// keep every returned object alive until the session ends: identities are pointer values, and a collected
		// object's address may be reused by a later allocation
		mu.Lock()
		retained = append(retained, v)
		mu.Unlock()
		if err != nil {
			return Result{Err: err.Error(), V: Describe(v, c)}
		}
		return Result{V: Describe(v, c)}
	}
	switch op.Op {
	case "get":
		return wrap(api.Get(op.Name))
	case "getctx":
		return wrap(api.GetInContext(ctx(op.Ctx), op.Name))
	case "param":
		return wrap(api.GetParam(op.Name))
	case "tagged":
		v, err := api.GetTaggedBy(op.Tag)
		if v == nil {
			return wrap(nil, err)
		}
		return wrap(v, err)
	case "taggedctx":
		v, err := api.GetTaggedByInContext(ctx(op.Ctx), op.Tag)
		if v == nil {
			return wrap(nil, err)
		}
		return wrap(v, err)
	case "circ":
		if err := api.CircularDeps(); err != nil {
			return Result{Err: err.Error()}
		}
		return Result{V: Node{"t": "nil"}}
	case "istagged":
		return Result{V: Describe(api.IsTaggedBy(op.Name, op.Tag), c)}
	case "counters":
		return Result{C: Counters(), V: Node{"t": "counters"}}
	case "state":
		return Result{V: dumpState(api, ctxs)}
	case "getter", "getterctx", "mustgetter", "mustgetterctx":
		m := reflect.ValueOf(c).MethodByName(op.Name)
		if !m.IsValid() {
			return Result{Err: "no such method " + op.Name}
		}
		var in []reflect.Value
		if strings.HasSuffix(op.Op, "ctx") {
			in = append(in, reflect.ValueOf(ctx(op.Ctx)))
		}
		out := m.Call(in)
		if len(out) == 2 {
			var err error
			if !out[1].IsNil() {
				err = out[1].Interface().(error)
			}
			r := wrap(out[0].Interface(), err)
			r.V["static"] = typeName(m.Type().Out(0))
			return r
		}
		r := wrap(out[0].Interface(), nil)
		r.V["static"] = typeName(m.Type().Out(0))
		return r
	case "overrideParam":
		switch op.Val.Kind {
		case "value":
			api.OverrideParam(op.Name, container.NewDependencyValue(fixNum(op.Val.V)))
		case "providerfail":
			api.OverrideParam(op.Name, container.NewDependencyProvider(func() (any, error) { return nil, fmt.Errorf("%v", op.Val.V) }))
		case "provider":
			v := fixNum(op.Val.V)
			api.OverrideParam(op.Name, container.NewDependencyProvider(func() any { Count("override-provider:" + op.Name); return v }))
		}
		return Result{V: Node{"t": "nil"}}
	case "overrideService":
		s := container.NewService()
		switch op.Val.Kind {
		case "value":
			s.SetValue(fixNum(op.Val.V))
		case "ctor":
			deps := []container.Dependency{}
			for _, a := range op.Val.Args {
				deps = append(deps, container.NewDependencyValue(fixNum(a)))
			}
			for _, d := range op.Val.Deps {
				deps = append(deps, container.NewDependencyService(d))
			}
			s.SetConstructor(Ctors[op.Val.Ctor], deps...)
		}
		for _, t := range op.Val.Tags {
			s.Tag(t, 0)
		}
		switch op.Val.Scope {
		case "shared":
			s.SetScopeShared()
		case "contextual":
			s.SetScopeContextual()
		case "non_shared":
			s.SetScopeNonShared()
		}
		api.OverrideService(op.Name, s)
		return Result{V: Node{"t": "nil"}}
	}
	return Result{Err: "unknown op " + op.Op}
}

// RunOp executes one operation (exported for the schedule explorer and the race pass).
func RunOp(c any, ctxs map[string]context.Context, op Op) Result { return runOp(c, ctxs, op) }

// MakeCtx attaches a named context before threads start (the context map is not written concurrently).
func MakeCtx(c any, ctxs map[string]context.Context, name string) {
	base, cancel := context.WithCancel(context.Background())
	_ = cancel
	ctxs[name] = container.ContextWithContainer(base, c.(API))
}

// dumpState reads the container's private caches (shared services, parameters, per-context bags) by
// reflection: the canonical state of the cache/override state machine explored by HIST-X.
func dumpState(api API, ctxs map[string]context.Context) Node {
	root := reflect.ValueOf(api.Root()).Elem()
	keysOf := func(kv reflect.Value) []any {
		// kv: interface holding *safeMap{data map[string]any}
		for kv.Kind() == reflect.Interface || kv.Kind() == reflect.Ptr {
			if kv.IsNil() {
				return []any{}
			}
			kv = kv.Elem()
		}
		data := kv.FieldByName("data")
		var ks []string
		for _, k := range data.MapKeys() {
			ks = append(ks, k.String())
		}
		sort.Strings(ks)
		out := make([]any, len(ks))
		for i, k := range ks {
			out[i] = k
		}
		return out
	}
	n := Node{"t": "state", "shared": keysOf(root.FieldByName("cacheSharedServices")), "params": keysOf(root.FieldByName("cacheParams"))}
	idf := root.FieldByName("id")
	key := reflect.NewAt(idf.Type(), unsafe.Pointer(idf.UnsafeAddr())).Elem().Interface()
	bags := Node{}
	for name, ctx := range ctxs {
		if b := ctx.Value(key); b != nil {
			bags[name] = keysOf(reflect.ValueOf(b))
		}
	}
	n["bags"] = bags
	return n
}

// Main reads sessions (one JSON document per line) from stdin and prints one JSON line of results each.
func Main(factories map[string]func() any) {
	in := bufio.NewReaderSize(os.Stdin, 1<<20)
	out := bufio.NewWriter(os.Stdout)
	defer out.Flush()
	dec := json.NewDecoder(in)
	for {
		var s Session
		if err := dec.Decode(&s); err != nil {
			return
		}
		Reset()
		for k, v := range s.Env {
			if v == "\x00unset" {
				os.Unsetenv(k)
			} else {
				os.Setenv(k, v)
			}
		}
		f := factories[s.Pkg]
		results := make([]Result, 0, len(s.Ops)+1)
		var c any
		func() {
			defer func() {
				if r := recover(); r != nil {
					results = append(results, Result{Panic: "constructor: " + fmt.Sprint(r)})
				}
			}()
			if f == nil {
				panic("unknown package " + s.Pkg)
			}
			c = f()
			results = append(results, Result{C: Counters()})
		}()
		ctxs := map[string]context.Context{}
		if c != nil {
			for _, op := range s.Ops {
				results = append(results, runOp(c, ctxs, op))
			}
		}
		b, err := json.Marshal(results)
		if err != nil {
			b, _ = json.Marshal([]Result{{Panic: "marshal: " + err.Error()}})
		}
		out.Write(b)
		out.WriteByte('\n')
		out.Flush()
	}
}

var _ = sort.Strings
`

// fxPkg is the source of one fixture package; %PKG% = package clause name, %PATH% = import path reported
// by ID, %RT% = import of the shared runtime.
const fxPkg = `package %PKG%

import (
	"errors"
	"fmt"

	"fx/rt"
	"github.com/gontainer/gontainer-helpers/v3/container"
)

const ID = "%PATH%"

type Obj struct {
	Serial   int64
	Pkg      string
	Ctor     string
	Args     []any
	F1, F2   any
	f3       any
	Log      []rt.Event
}

type Val struct {
	Serial   int64
	Pkg      string
	Ctor     string
	Args     []any
	F1, F2   any
	f3       any
	Log      []rt.Event
}

// Iface is implemented by *Obj and Val.
type Iface interface{ XDesc() rt.View }

// T1..T4 are distinct named types (position markers for type references).
type (
	T1 struct{ Obj }
	T2 struct{ Obj }
	T3 struct{ Obj }
	T4 struct{ Obj }
	// named types with a basic underlying type: what a typed getter converts to
	Str string
	Num int
)

func (o *Obj) XDesc() rt.View {
	return rt.View{Ident: fmt.Sprintf("p:%p", o), Ty: "*" + ID + ".Obj", Ctor: o.Ctor, Args: o.Args, F1: o.F1, F2: o.F2, F3: o.f3, Log: o.Log}
}

func (v Val) XDesc() rt.View {
	id := ""
	if v.Serial != 0 {
		id = fmt.Sprintf("v:%d", v.Serial)
	}
	return rt.View{Ident: id, Ty: ID + ".Val", Ctor: v.Ctor, Args: v.Args, F1: v.F1, F2: v.F2, F3: v.f3, Log: v.Log}
}

func mk(ctor string, args []any) *Obj {
	rt.Count(ID + "." + ctor)
	return &Obj{Serial: rt.Next(), Pkg: ID, Ctor: ctor, Args: args}
}

func New(args ...any) *Obj  { return mk("New", args) }
func New1(args ...any) *Obj { return mk("New1", args) }
func New2(args ...any) *Obj { return mk("New2", args) }
func New3(args ...any) *Obj { return mk("New3", args) }
func New4(args ...any) *Obj { return mk("New4", args) }

// NewStr returns a plain string: a service that a getter of a named string type (Str) has to convert.
func NewStr(args ...any) string { return ID + ".NewStr(" + render(args) + ")" }

func NewVal(args ...any) Val {
	rt.Count(ID + ".NewVal")
	return Val{Serial: rt.Next(), Pkg: ID, Ctor: "NewVal", Args: args}
}

// NewE fails iff its first argument is the string "fail".
func NewE(args ...any) (*Obj, error) {
	if len(args) > 0 && args[0] == "fail" {
		rt.Count(ID + ".NewE!")
		return nil, errors.New(ID + ".NewE failed")
	}
	return mk("NewE", args), nil
}

func NewIface(args ...any) Iface { return mk("NewIface", args) }

func (o *Obj) Set1(args ...any) { o.Log = append(o.Log, rt.Event{M: "Set1", Args: args}) }
func (o *Obj) Set2(args ...any) { o.Log = append(o.Log, rt.Event{M: "Set2", Args: args}) }
func (o *Obj) with(m string, args []any) *Obj {
	c := *o
	c.Serial = rt.Next()
	c.Log = append(append([]rt.Event{}, o.Log...), rt.Event{M: m, Args: args})
	return &c
}
func (o *Obj) With1(args ...any) *Obj { return o.with("With1", args) }
func (o *Obj) With2(args ...any) *Obj { return o.with("With2", args) }

func (v *Val) Set1(args ...any) { v.Log = append(v.Log, rt.Event{M: "Set1", Args: args}) }
func (v *Val) Set2(args ...any) { v.Log = append(v.Log, rt.Event{M: "Set2", Args: args}) }
func (v Val) with(m string, args []any) Val {
	c := v
	c.Serial = rt.Next()
	c.Log = append(append([]rt.Event{}, v.Log...), rt.Event{M: m, Args: args})
	return c
}
func (v Val) With1(args ...any) Val { return v.with("With1", args) }
func (v Val) With2(args ...any) Val { return v.with("With2", args) }

var (
	Var    = &Obj{Pkg: ID, Ctor: "Var"}
	VarVal = Val{Pkg: ID, Ctor: "VarVal", F1: "field-one-of-" + ID}
	Const  = "const-of-" + ID
)

func decorate(fn string, p container.DecoratorPayload, args []any) *rt.Wrap {
	rt.Count(ID + "." + fn)
	return &rt.Wrap{Fn: ID + "." + fn, Tag: p.Tag, SID: p.ServiceID, Args: args, Inner: p.Service}
}

func Dec1(p container.DecoratorPayload, args ...any) any { return decorate("Dec1", p, args) }
func Dec2(p container.DecoratorPayload, args ...any) any { return decorate("Dec2", p, args) }
func Dec3(p container.DecoratorPayload, args ...any) any { return decorate("Dec3", p, args) }

// DecE fails iff its first extra argument is "fail".
func DecE(p container.DecoratorPayload, args ...any) (any, error) {
	if len(args) > 0 && args[0] == "fail" {
		return nil, errors.New(ID + ".DecE failed")
	}
	return decorate("DecE", p, args), nil
}

func render(args []any) string {
	s := ""
	for i, a := range args {
		if i > 0 {
			s += ","
		}
		s += fmt.Sprintf("%T:%v", a, a)
	}
	return s
}

func FnStr(args ...any) string { rt.Count(ID + ".FnStr"); return ID + ".FnStr(" + render(args) + ")" }
func FnInt(args ...any) int    { rt.Count(ID + ".FnInt"); return 40 + len(args) }
func FnNil(args ...any) any    { rt.Count(ID + ".FnNil"); return nil }
func FnObj(args ...any) any    { rt.Count(ID + ".FnObj"); return mk("FnObj", args) }

// FnTyped has parameter types that differ from the types literals have in a %fn(...)% token: the arguments arrive converted.
func FnTyped(a int64, b float64, c uint8, s string, rest ...float32) string {
	rt.Count(ID + ".FnTyped")
	args := []any{a, b, c, s}
	for _, r := range rest {
		args = append(args, r)
	}
	return ID + ".FnTyped(" + render(args) + ")"
}

// FnE fails iff its first argument is "fail".
func FnE(args ...any) (any, error) {
	rt.Count(ID + ".FnE")
	if len(args) > 0 && args[0] == "fail" {
		return nil, errors.New(ID + ".FnE failed")
	}
	return ID + ".FnE(" + render(args) + ")", nil
}

func init() {
	rt.Ctors[ID+".New"] = New
	rt.Ctors[ID+".New1"] = New1
	rt.Ctors[ID+".New2"] = New2
	rt.Ctors[ID+".NewVal"] = NewVal
	rt.Ctors[ID+".NewE"] = NewE
	rt.OnReset(func() {
		*Var = Obj{Pkg: ID, Ctor: "Var"}
		VarVal = Val{Pkg: ID, Ctor: "VarVal", F1: "field-one-of-" + ID}
	})
}
`

// fxTypesOnly is the types-only twin of a fixture package (C17: a stub must reference types only).
const fxTypesOnly = `package %PKG%

type Obj struct {
	Serial   int64
	Pkg      string
	Ctor     string
	Args     []any
	F1, F2   any
	f3       any
}

type Val struct {
	Serial   int64
	Pkg      string
	Ctor     string
	Args     []any
	F1, F2   any
	f3       any
}

type Iface interface{ XDesc() string }

type (
	T1 struct{ Obj }
	T2 struct{ Obj }
	T3 struct{ Obj }
	T4 struct{ Obj }
	// named types with a basic underlying type: what a typed getter converts to
	Str string
	Num int
)
`
