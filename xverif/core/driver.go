package core

import (
	"bytes"
	"crypto/sha256"
	"encoding/hex"
	"fmt"
	"os"
	"path/filepath"
	"runtime/debug"
	"sort"
	"strings"
	"time"

	"github.com/fatih/color"
	"github.com/gontainer/gontainer/internal/cmd"
)

// DriverInit pins the process-global knobs of the tool's dependencies.
func DriverInit() {
	color.NoColor = true                             // computed from the harness's own stdout otherwise
	if v := os.Getenv("XV_TOOL_WATCHDOG"); v != "" { // seconds; only used to try the hang path quickly
		if d, err := time.ParseDuration(v + "s"); err == nil {
			ToolWatchdog = d
		}
	}
}

// ToolWatchdog bounds one in-process run of the command (typical runs take 1-10 ms).
var ToolWatchdog = 60 * time.Second

// HangHook is called when a run exceeds ToolWatchdog (the worker installs one that exits the process).
var HangHook func()

// Run is the observation of one in-process execution of `gontainer build`.
type Run struct {
	Exit  int    // 0 iff Execute() returned nil (main.go maps a non-nil error to exit status 1)
	Out   string // everything printed (stdout and stderr of the command)
	Panic string // non-empty iff the command panicked
	Err   string
}

func (r Run) OK() bool { return r.Exit == 0 && r.Panic == "" }

// Tool executes the real build command in-process. version/buildInfo are what main.go would pass.
// ConstructAlso: build versions of command objects that Tool constructs after the one it runs.
var ConstructAlso []string

func Tool(version, buildInfo string, args ...string) (r Run) {
	var buf bytes.Buffer
	defer func() {
		if p := recover(); p != nil {
			r.Exit = 2
			r.Panic = fmt.Sprintf("%v\n%s", p, debug.Stack())
			r.Out = buf.String()
		}
	}()
	c := cmd.NewBuildCmd(version, buildInfo)
	for _, v := range ConstructAlso {
		// further command objects constructed (never run) after this one: what they are given is theirs alone
		_ = cmd.NewBuildCmd(v, v+" decoy")
	}
	c.SetArgs(args)
	c.SetOut(&buf)
	c.SetErr(&buf)
	// the command runs under its own watchdog: a run that does not return is a hang of the tool (the worker
	// process announces the case and exits; the parent confirms it three times in isolation). Slow harness
	// work around the run is not subject to this limit.
	type outcome struct {
		err error
		pv  any
		st  []byte
	}
	done := make(chan outcome, 1)
	go func() {
		var o outcome
		defer func() {
			if p := recover(); p != nil {
				o.pv, o.st = p, debug.Stack()
			}
			done <- o
		}()
		o.err = c.Execute()
	}()
	var o outcome
	select {
	case o = <-done:
	case <-time.After(ToolWatchdog):
		if HangHook != nil {
			HangHook()
		}
		o = <-done
	}
	if o.pv != nil {
		r.Exit = 2
		r.Panic = fmt.Sprintf("%v\n%s", o.pv, o.st)
		r.Out = buf.String()
		return r
	}
	err := o.err
	r.Out = buf.String()
	if err != nil {
		r.Exit = 1
		r.Err = err.Error()
	}
	return r
}

// File is one input file of a case.
type File struct {
	Name    string
	Content string
}

// FreshDir empties and re-creates ./case in the worker's directory and chdirs into it.
func (w *W) FreshDir() string {
	d := filepath.Join(w.Dir, "case")
	os.Chdir(w.Dir)
	chmodAll(d)
	os.RemoveAll(d)
	os.MkdirAll(d, 0o755)
	os.Chdir(d)
	return d
}

func chmodAll(d string) {
	filepath.Walk(d, func(p string, fi os.FileInfo, err error) error {
		if err == nil && fi.IsDir() {
			os.Chmod(p, 0o755)
		}
		return nil
	})
}

// BuildResult is a Run plus the state of the -o path afterwards.
type BuildResult struct {
	Run
	OutExists bool
	Output    string
}

// DefaultVersion: the build version the in-process command is constructed with. Not a semantic version, so the
// version gate (C18) is skipped; a check that wants the declared version to be observable sets a semantic version
// (its workers are processes of their own).
var DefaultVersion = "dev-verif"
var DefaultBuildInfo = "dev-verif unknown"

// Build writes files into a fresh directory and runs `build -i f1 -i f2 ... -o out.go flags...`.
func (w *W) Build(files []File, flags ...string) BuildResult {
	w.FreshDir()
	return w.BuildHere(files, flags...)
}

func (w *W) BuildHere(files []File, flags ...string) BuildResult {
	args := []string{}
	for _, f := range files {
		if dir := filepath.Dir(f.Name); dir != "." {
			os.MkdirAll(dir, 0o755)
		}
		os.WriteFile(f.Name, []byte(f.Content), 0o644)
		args = append(args, "-i", f.Name)
	}
	args = append(args, "-o", "out.go")
	args = append(args, flags...)
	os.Remove("out.go")
	r := Tool(DefaultVersion, DefaultBuildInfo, args...)
	br := BuildResult{Run: r}
	if b, err := os.ReadFile("out.go"); err == nil {
		br.OutExists = true
		br.Output = string(b)
	}
	return br
}

// ReachModes are the ways BuildReached lets the tool reach its input files (all denote the same bytes).
var ReachModes = []string{"symlink", "absolute-symlink", "symlink-chain", "hard-link", "through-a-symlinked-directory", "dot-slash", "absolute-path", "pattern-over-symlinks", "only-the-first-is-a-symlink", "only-the-last-is-a-symlink"}

// BuildReached writes the files below ./store in a fresh directory and names them to the tool in the given way.
func (w *W) BuildReached(files []File, mode string, flags ...string) BuildResult {
	dir := w.FreshDir()
	os.MkdirAll("store", 0o755)
	args := []string{}
	for i, f := range files {
		base := filepath.Base(f.Name)
		target := filepath.Join("store", base)
		os.WriteFile(target, []byte(f.Content), 0o644)
		link := func() { os.Symlink(target, base) }
		switch mode {
		case "symlink", "pattern-over-symlinks":
			link()
			args = append(args, "-i", base)
		case "absolute-symlink":
			os.Symlink(filepath.Join(dir, target), base)
			args = append(args, "-i", base)
		case "symlink-chain":
			os.Symlink(target, base+".hop")
			os.Symlink(base+".hop", base)
			args = append(args, "-i", base)
		case "hard-link":
			os.Link(target, base)
			args = append(args, "-i", base)
		case "through-a-symlinked-directory":
			os.Symlink("store", "linked")
			args = append(args, "-i", filepath.Join("linked", base))
		case "dot-slash":
			args = append(args, "-i", "./"+target)
		case "absolute-path":
			args = append(args, "-i", filepath.Join(dir, target))
		case "only-the-first-is-a-symlink", "only-the-last-is-a-symlink":
			if (mode == "only-the-first-is-a-symlink") == (i == 0) && (i == 0 || i == len(files)-1) {
				link()
				args = append(args, "-i", base)
			} else {
				args = append(args, "-i", target)
			}
		default:
			panic("BuildReached: " + mode)
		}
	}
	if mode == "pattern-over-symlinks" {
		args = []string{"-i", "*.yaml"}
	}
	args = append(args, "-o", "out.go")
	args = append(args, flags...)
	r := Tool(DefaultVersion, DefaultBuildInfo, args...)
	br := BuildResult{Run: r}
	if b, err := os.ReadFile("out.go"); err == nil {
		br.OutExists = true
		br.Output = string(b)
	}
	return br
}

// BuildPatterns writes the files into a fresh directory and passes the given -i patterns (relative to it).
func (w *W) BuildPatterns(files []File, patterns []string, flags ...string) BuildResult {
	w.FreshDir()
	args := []string{}
	for _, f := range files {
		if dir := filepath.Dir(f.Name); dir != "." {
			os.MkdirAll(dir, 0o755)
		}
		os.WriteFile(f.Name, []byte(f.Content), 0o644)
	}
	for _, p := range patterns {
		args = append(args, "-i", p)
	}
	args = append(args, "-o", "out.go")
	args = append(args, flags...)
	r := Tool(DefaultVersion, DefaultBuildInfo, args...)
	br := BuildResult{Run: r}
	if b, err := os.ReadFile("out.go"); err == nil {
		br.OutExists = true
		br.Output = string(b)
	}
	return br
}

func FilesMap(files []File) map[string]string {
	m := map[string]string{}
	for _, f := range files {
		m[f.Name] = f.Content
	}
	return m
}

// ErrorLines returns the numbered entries printed after "Errors:" (without the "N. " prefix).
func ErrorLines(out string) []string {
	i := strings.Index(out, "Errors:\n")
	if i < 0 {
		return nil
	}
	var res []string
	for _, l := range strings.Split(out[i+len("Errors:\n"):], "\n") {
		if l == "" {
			continue
		}
		j := strings.Index(l, ". ")
		if j > 0 && isDigits(l[:j]) {
			res = append(res, l[j+2:])
		} else if len(res) > 0 {
			// continuation of a multi-line error message
			res[len(res)-1] += "\n" + l
		}
	}
	return res
}

func isDigits(s string) bool {
	if s == "" {
		return false
	}
	for _, c := range s {
		if c < '0' || c > '9' {
			return false
		}
	}
	return true
}

// FailedSteps returns the names of the steps whose END line carries the x mark, in print order.
func FailedSteps(out string) []string {
	var res []string
	for _, l := range strings.Split(out, "\n") {
		if strings.Contains(l, "[⨉]") && strings.Contains(l, " END") {
			t := strings.TrimSpace(l)
			if k := strings.Index(t, " END"); k >= 0 {
				res = append(res, t[:k])
			}
		}
	}
	return res
}

// LinesWithPrefix filters error lines by the Go-side prefix the rule uses.
func LinesWithPrefix(lines []string, prefix string) []string {
	var r []string
	for _, l := range lines {
		if strings.HasPrefix(l, prefix) {
			r = append(r, l)
		}
	}
	return r
}

func Sha(s string) string {
	h := sha256.Sum256([]byte(s))
	return hex.EncodeToString(h[:8])
}

func SortedKeys[V any](m map[string]V) []string {
	ks := make([]string, 0, len(m))
	for k := range m {
		ks = append(ks, k)
	}
	sort.Strings(ks)
	return ks
}

// BuildWithVersion is Build with an explicit build version (what main.go passes as GitVersion).
func (w *W) BuildWithVersion(version string, files []File, flags ...string) BuildResult {
	w.FreshDir()
	args := []string{}
	for _, f := range files {
		os.WriteFile(f.Name, []byte(f.Content), 0o644)
		args = append(args, "-i", f.Name)
	}
	args = append(args, "-o", "out.go")
	args = append(args, flags...)
	r := Tool(version, version+" unknown", args...)
	br := BuildResult{Run: r}
	if b, err := os.ReadFile("out.go"); err == nil {
		br.OutExists = true
		br.Output = string(b)
	}
	return br
}
