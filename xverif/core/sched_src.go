package core

// Source of the cooperative scheduler + sync shim (package vsync, written into the scratch copy of the
// pinned runtime as github.com/gontainer/gontainer-helpers/v3/vsync) and of the schedule explorer
// (package fx/schedrt).

const vsyncSrc = `// Package vsync replaces "sync" in the runtime copy under test: Mutex, RWMutex and Once whose blocking
// operations are scheduling points of a cooperative scheduler. Exactly one thread runs at a time; the
// explorer decides at every point which enabled thread continues.
package vsync

import (
	"fmt"
	"sync"
)

type Locker interface {
	Lock()
	Unlock()
}

// ---- scheduler --------------------------------------------------------------------------------------

type thread struct {
	id      int
	wake    chan struct{}
	done    bool
	pending func() bool // nil = runnable
	what    string
}

// PointRec is one branching scheduling point of an execution.
type PointRec struct {
	Enabled        int  // number of enabled threads
	RunningEnabled bool // the thread that was running could have continued
	Chosen         int
}

type Sched struct {
	threads   []*thread
	cur       *thread
	plan      []int
	Trace     []PointRec
	Steps     int
	Blocked   int // times a thread had to wait for a lock / once
	Deadlock  string
	Diverged  string
	Aborted   bool
	finished  chan struct{}
	maxSteps  int
	real      sync.Mutex
}

var active *Sched

// Active reports whether a controlled execution is in progress.
func Active() bool { return active != nil }

func (s *Sched) enabledList() []*thread {
	var en []*thread
	if s.cur != nil && !s.cur.done && (s.cur.pending == nil || s.cur.pending()) {
		en = append(en, s.cur)
	}
	for _, t := range s.threads {
		if t == s.cur || t.done {
			continue
		}
		if t.pending == nil || t.pending() {
			en = append(en, t)
		}
	}
	return en
}

// pick chooses the next thread at a scheduling point; nil = nothing can run.
func (s *Sched) pick() *thread {
	en := s.enabledList()
	if len(en) == 0 {
		return nil
	}
	s.Steps++
	if s.maxSteps > 0 && s.Steps > s.maxSteps {
		s.Aborted = true
		return nil
	}
	if len(en) == 1 {
		return en[0]
	}
	choice := 0
	i := len(s.Trace)
	if i < len(s.plan) {
		choice = s.plan[i]
		if choice >= len(en) {
			s.Diverged = fmt.Sprintf("replay divergence at point %d: choice %d of %d enabled threads", i, choice, len(en))
			return nil
		}
	}
	s.Trace = append(s.Trace, PointRec{Enabled: len(en), RunningEnabled: en[0] == s.cur, Chosen: choice})
	return en[choice]
}

func (s *Sched) describeStuck() string {
	r := ""
	for _, t := range s.threads {
		if !t.done {
			r += fmt.Sprintf("thread %d waits for %s; ", t.id, t.what)
		}
	}
	return r
}

// yield is a scheduling point of the running thread; pred (may be nil) must hold before it continues.
func (s *Sched) yield(pred func() bool, what string) {
	t := s.cur
	t.pending = pred
	t.what = what
	if pred != nil && !pred() {
		s.Blocked++
	}
	n := s.pick()
	if n == nil {
		if s.Diverged == "" && !s.Aborted {
			s.Deadlock = s.describeStuck()
		}
		s.stop()
		select {} // this goroutine is abandoned
	}
	if n != t {
		s.cur = n
		n.wake <- struct{}{}
		<-t.wake
	}
	t.pending = nil
	t.what = ""
}

func (s *Sched) stop() {
	select {
	case <-s.finished:
	default:
		close(s.finished)
	}
}

func (s *Sched) exit() {
	t := s.cur
	t.done = true
	all := true
	for _, x := range s.threads {
		if !x.done {
			all = false
		}
	}
	if all {
		s.stop()
		return
	}
	n := s.pick()
	if n == nil {
		if s.Diverged == "" && !s.Aborted {
			s.Deadlock = s.describeStuck()
		}
		s.stop()
		return
	}
	s.cur = n
	n.wake <- struct{}{}
}

// Run executes the bodies as threads under the plan (choices at branching points; 0 afterwards).
func Run(plan []int, maxSteps int, bodies []func()) *Sched {
	s := &Sched{plan: plan, finished: make(chan struct{}), maxSteps: maxSteps}
	for i := range bodies {
		s.threads = append(s.threads, &thread{id: i, wake: make(chan struct{}, 1)})
	}
	active = s
	for i, b := range bodies {
		t, b := s.threads[i], b
		go func() {
			<-t.wake
			defer func() {
				// a panicking body is reported by the caller's own recover inside b; here we only hand off
				s.exit()
			}()
			b()
		}()
	}
	// the first scheduling decision: which thread starts
	s.cur = nil
	n := s.pick()
	if n != nil {
		s.cur = n
		n.wake <- struct{}{}
		<-s.finished
	}
	active = nil
	return s
}

// Point is a scheduling point without a condition (inserted before every statement of generated code).
func Point() {
	if s := active; s != nil {
		s.yield(nil, "point")
	}
}

// ---- Mutex ------------------------------------------------------------------------------------------

type Mutex struct {
	locked bool
}

func (m *Mutex) Lock() {
	if s := active; s != nil {
		s.yield(func() bool { return !m.locked }, "Mutex.Lock")
	} else if m.locked {
		panic("vsync: Lock of a locked Mutex outside a controlled execution (self-deadlock)")
	}
	m.locked = true
}

func (m *Mutex) Unlock() {
	if !m.locked {
		panic("vsync: unlock of unlocked Mutex")
	}
	m.locked = false
}

// ---- RWMutex (writer preference like sync.RWMutex) -----------------------------------------------------

type RWMutex struct {
	readers        int
	writer         bool
	writersWaiting int
}

func (rw *RWMutex) RLock() {
	if s := active; s != nil {
		s.yield(func() bool { return !rw.writer && rw.writersWaiting == 0 }, "RWMutex.RLock")
	} else if rw.writer {
		panic("vsync: RLock while write-locked outside a controlled execution")
	}
	rw.readers++
}

func (rw *RWMutex) RUnlock() {
	if rw.readers <= 0 {
		panic("vsync: RUnlock of unlocked RWMutex")
	}
	rw.readers--
}

func (rw *RWMutex) Lock() {
	if s := active; s != nil {
		s.yield(nil, "RWMutex.Lock (arrive)")
		if rw.writer || rw.readers > 0 {
			rw.writersWaiting++ // a waiting writer blocks new readers
			s.yield(func() bool { return !rw.writer && rw.readers == 0 }, "RWMutex.Lock")
			rw.writersWaiting--
		}
	} else if rw.writer || rw.readers > 0 {
		panic("vsync: Lock of a locked RWMutex outside a controlled execution")
	}
	rw.writer = true
}

func (rw *RWMutex) Unlock() {
	if !rw.writer {
		panic("vsync: Unlock of unlocked RWMutex")
	}
	rw.writer = false
}

func (rw *RWMutex) RLocker() Locker { return (*rlocker)(rw) }

type rlocker RWMutex

func (r *rlocker) Lock()   { (*RWMutex)(r).RLock() }
func (r *rlocker) Unlock() { (*RWMutex)(r).RUnlock() }

// ---- Once -------------------------------------------------------------------------------------------

type Once struct {
	done    bool
	running bool
}

func (o *Once) Do(f func()) {
	if s := active; s != nil {
		s.yield(func() bool { return !o.running }, "Once.Do")
	}
	if o.done {
		return
	}
	o.running = true
	defer func() {
		o.done = true
		o.running = false
	}()
	f()
}

// ---- WaitGroup: real one (only used outside the explored operations) ---------------------------------------

type WaitGroup = sync.WaitGroup
`

const schedrtSrc = `// Package schedrt is the schedule explorer: stateless depth-first search over the choices at branching
// scheduling points, bounded by the number of preemptions, on a fresh real container per execution.
package schedrt

import (
	"bufio"
	"context"
	"encoding/json"
	"fmt"
	"os"
	"sort"
	"strings"
	"time"

	"fx/rt"
	"github.com/gontainer/gontainer-helpers/v3/vsync"
)

type Spec struct {
	Threads   [][]rt.Op ` + "`json:\"threads\"`" + `
	Contexts  []string  ` + "`json:\"contexts\"`" + `
	Setup     []rt.Op   ` + "`json:\"setup,omitempty\"`" + ` // run sequentially before the threads start (overrides)
	Bound     int       ` + "`json:\"bound\"`" + `
	MaxExec   int       ` + "`json:\"max_exec\"`" + `
	BudgetSec int       ` + "`json:\"budget_sec\"`" + `
	Replay    []int     ` + "`json:\"replay,omitempty\"`" + `
	// shard: only explore subtrees whose first deviation index % NShards == Shard
	Shard, NShards int
}

type Violation struct {
	Kind     string ` + "`json:\"kind\"`" + `
	Msg      string ` + "`json:\"msg\"`" + `
	Schedule []int  ` + "`json:\"schedule\"`" + `
}

type Report struct {
	Executions      int            ` + "`json:\"executions\"`" + `
	Points          int64          ` + "`json:\"points\"`" + `
	Steps           int64          ` + "`json:\"steps\"`" + `
	MaxBranching    int            ` + "`json:\"max_branching_points\"`" + `
	WithBlocking    int            ` + "`json:\"executions_with_blocking\"`" + `
	Outcomes        map[string]int ` + "`json:\"outcomes\"`" + `
	BoundCompleted  int            ` + "`json:\"bound_completed\"`" + `
	Capped          bool           ` + "`json:\"capped\"`" + `
	Violations      []Violation    ` + "`json:\"violations\"`" + `
	Reference       string         ` + "`json:\"reference\"`" + `
	SampleSchedules [][]int        ` + "`json:\"sample_schedules\"`" + `
	Internal        string         ` + "`json:\"internal,omitempty\"`" + `
}

type exec struct {
	sched   *vsync.Sched
	outcome string
	panics  []string
}

// canonical text of all results: thread by thread, op by op, identities renumbered by first occurrence
func render(c any, results [][]rt.Result) string {
	ids := map[string]int{}
	var sb strings.Builder
	for ti, rs := range results {
		for oi, r := range rs {
			var body any
			switch {
			case r.Panic != "":
				body = "PANIC " + r.Panic
			case r.Err != "":
				body = "ERR " + r.Err
			default:
				body = walkOrdered(r.V, ids)
			}
			b, _ := json.Marshal(body)
			fmt.Fprintf(&sb, "t%d.%d=%s\n", ti, oi, b)
		}
	}
	return sb.String()
}

// walkOrdered renders a node as an ordered list so that identities are numbered in a deterministic order.
func walkOrdered(v any, ids map[string]int) any {
	switch x := v.(type) {
	case rt.Node:
		return walkOrdered(map[string]any(x), ids)
	case map[string]any:
		keys := make([]string, 0, len(x))
		for k := range x {
			keys = append(keys, k)
		}
		sort.Strings(keys)
		out := make([]any, 0, 2*len(keys))
		// the identity first
		if raw, ok := x["id"]; ok {
			r := fmt.Sprint(raw)
			n, ok := ids[r]
			if !ok {
				n = len(ids) + 1
				ids[r] = n
			}
			out = append(out, "id", n)
		}
		for _, k := range keys {
			if k == "id" {
				continue
			}
			out = append(out, k, walkOrdered(x[k], ids))
		}
		return out
	case []any:
		out := make([]any, len(x))
		for i := range x {
			out[i] = walkOrdered(x[i], ids)
		}
		return out
	}
	return v
}

func counters() string {
	c := rt.Counters()
	ks := make([]string, 0, len(c))
	for k, v := range c {
		ks = append(ks, fmt.Sprintf("%s=%d", k, v))
	}
	sort.Strings(ks)
	return strings.Join(ks, " ")
}

func runOnce(factory func() any, spec *Spec, plan []int, controlled bool) exec {
	rt.Reset()
	c := factory()
	ctxs := map[string]context.Context{}
	for _, n := range spec.Contexts {
		rt.MakeCtx(c, ctxs, n)
	}
	for _, op := range spec.Setup {
		rt.RunOp(c, ctxs, op)
	}
	results := make([][]rt.Result, len(spec.Threads))
	var bodies []func()
	for ti, ops := range spec.Threads {
		ti, ops := ti, ops
		results[ti] = make([]rt.Result, len(ops))
		bodies = append(bodies, func() {
			for oi, op := range ops {
				results[ti][oi] = rt.RunOp(c, ctxs, op)
			}
		})
	}
	var e exec
	if controlled {
		e.sched = vsync.Run(plan, 200000, bodies)
		if e.sched.Deadlock != "" || e.sched.Diverged != "" || e.sched.Aborted {
			return e
		}
	} else {
		for _, b := range bodies {
			b()
		}
	}
	e.outcome = render(c, results) + "counters: " + counters() + "\n"
	return e
}

func preemptionsBefore(tr []vsync.PointRec, i int) int {
	n := 0
	for k := 0; k < i; k++ {
		if tr[k].RunningEnabled && tr[k].Chosen != 0 {
			n++
		}
	}
	return n
}

// Main reads a Spec from stdin and writes a Report to stdout.
func Main(factory func() any) {
	var spec Spec
	if err := json.NewDecoder(bufio.NewReader(os.Stdin)).Decode(&spec); err != nil {
		fmt.Println(` + "`{\"internal\":\"bad spec\"}`" + `)
		return
	}
	rep := Report{Outcomes: map[string]int{}}
	ref := runOnce(factory, &spec, nil, false)
	rep.Reference = ref.outcome
	deadline := time.Now().Add(time.Duration(spec.BudgetSec) * time.Second)
	check := func(e exec, plan []int) {
		rep.Executions++
		s := e.sched
		rep.Points += int64(len(s.Trace))
		rep.Steps += int64(s.Steps)
		if len(s.Trace) > rep.MaxBranching {
			rep.MaxBranching = len(s.Trace)
		}
		if s.Blocked > 0 {
			rep.WithBlocking++
		}
		sched := make([]int, len(s.Trace))
		for i, p := range s.Trace {
			sched[i] = p.Chosen
		}
		add := func(kind, msg string) {
			if len(rep.Violations) < 5 {
				rep.Violations = append(rep.Violations, Violation{kind, msg, sched})
			}
		}
		switch {
		case s.Diverged != "":
			rep.Internal = s.Diverged
		case s.Aborted:
			add("livelock", "execution exceeded the step limit")
		case s.Deadlock != "":
			add("deadlock", s.Deadlock)
		default:
			rep.Outcomes[e.outcome]++
			if e.outcome != ref.outcome {
				// replay the same schedule once more before believing it
				again := runOnce(factory, &spec, sched, true)
				if again.outcome != e.outcome {
					rep.Internal = "replaying a schedule gave a different observation"
					return
				}
				add("differs-from-sequential", "observed:\n"+e.outcome+"sequential reference:\n"+ref.outcome)
			}
		}
		if len(rep.SampleSchedules) < 3 && len(sched) > 0 {
			rep.SampleSchedules = append(rep.SampleSchedules, sched)
		}
	}
	if spec.Replay != nil {
		e := runOnce(factory, &spec, spec.Replay, true)
		check(e, spec.Replay)
		rep.BoundCompleted = -1
		b, _ := json.Marshal(rep)
		fmt.Println(string(b))
		return
	}
	capped := false
	var explore func(prefix []int, bound int, top bool)
	explore = func(prefix []int, bound int, top bool) {
		if capped || rep.Internal != "" {
			return
		}
		if (spec.MaxExec > 0 && rep.Executions >= spec.MaxExec) || time.Now().After(deadline) {
			capped = true
			return
		}
		e := runOnce(factory, &spec, prefix, true)
		check(e, prefix)
		if e.sched.Deadlock != "" || e.sched.Aborted || e.sched.Diverged != "" {
			return
		}
		tr := e.sched.Trace
		for i := len(prefix); i < len(tr); i++ {
			cost := preemptionsBefore(tr, i)
			if tr[i].RunningEnabled {
				cost++
			}
			if cost > bound {
				continue
			}
			for alt := 1; alt < tr[i].Enabled; alt++ {
				if top && spec.NShards > 1 && (i*7+alt)%spec.NShards != spec.Shard {
					continue
				}
				np := make([]int, i+1)
				for k := 0; k < i; k++ {
					np[k] = tr[k].Chosen
				}
				np[i] = alt
				explore(np, bound, false)
			}
		}
	}
	// iterate the bound 0, 1, ... : the first counterexample found has the fewest preemptions. The counters of
	// the report describe the last pass (each pass re-runs the executions of the previous ones).
	for b := 0; b <= spec.Bound; b++ {
		rep.Executions, rep.Points, rep.Steps, rep.WithBlocking = 0, 0, 0, 0
		rep.Outcomes = map[string]int{}
		explore(nil, b, true)
		if capped || rep.Internal != "" {
			break
		}
		rep.BoundCompleted = b
		if len(rep.Violations) > 0 {
			break
		}
	}
	rep.Capped = capped
	b, _ := json.Marshal(rep)
	fmt.Println(string(b))
}
`

const racertSrc = `// Package racert is the free-running pass: the same operation lists on real goroutines with the real
// sync package, built with -race.
package racert

import (
	"bufio"
	"context"
	"encoding/json"
	"fmt"
	"math/rand"
	"os"
	"sync"
	"time"

	"fx/rt"
)

type Spec struct {
	Threads    [][]rt.Op ` + "`json:\"threads\"`" + `
	Contexts   []string  ` + "`json:\"contexts\"`" + `
	Setup      []rt.Op   ` + "`json:\"setup,omitempty\"`" + `
	Goroutines int       ` + "`json:\"goroutines\"`" + `
	Rounds     int       ` + "`json:\"rounds\"`" + `
	Seed       int64     ` + "`json:\"seed\"`" + `
}

type Report struct {
	Rounds     int      ` + "`json:\"rounds\"`" + `
	Ops        int      ` + "`json:\"ops\"`" + `
	Mismatches []string ` + "`json:\"mismatches\"`" + `
}

func render(rs []rt.Result) string {
	b, _ := json.Marshal(rs)
	return string(b)
}

// strip identities: pointer values differ between containers; the race pass compares shapes only
func shape(v any) any {
	switch x := v.(type) {
	case rt.Node:
		return shape(map[string]any(x))
	case map[string]any:
		o := map[string]any{}
		for k, e := range x {
			if k == "id" {
				continue
			}
			o[k] = shape(e)
		}
		return o
	case []any:
		o := make([]any, len(x))
		for i := range x {
			o[i] = shape(x[i])
		}
		return o
	}
	return v
}

func shapes(rs []rt.Result) string {
	var out []any
	for _, r := range rs {
		out = append(out, map[string]any{"v": shape(r.V), "err": r.Err, "panic": r.Panic})
	}
	b, _ := json.Marshal(out)
	return string(b)
}

func Main(factory func() any) {
	var spec Spec
	if err := json.NewDecoder(bufio.NewReader(os.Stdin)).Decode(&spec); err != nil {
		fmt.Println("{}")
		return
	}
	rng := rand.New(rand.NewSource(spec.Seed))
	// sequential reference per thread spec
	ref := make([]string, len(spec.Threads))
	for ti, ops := range spec.Threads {
		rt.Reset()
		c := factory()
		ctxs := map[string]context.Context{}
		for _, n := range spec.Contexts {
			rt.MakeCtx(c, ctxs, n)
		}
		for _, op := range spec.Setup {
			rt.RunOp(c, ctxs, op)
		}
		rs := make([]rt.Result, len(ops))
		for i, op := range ops {
			rs[i] = rt.RunOp(c, ctxs, op)
		}
		ref[ti] = shapes(rs)
	}
	rep := Report{}
	for round := 0; round < spec.Rounds; round++ {
		c := factory()
		ctxs := map[string]context.Context{}
		for _, n := range spec.Contexts {
			rt.MakeCtx(c, ctxs, n)
		}
		for _, op := range spec.Setup {
			rt.RunOp(c, ctxs, op)
		}
		var wg sync.WaitGroup
		start := make(chan struct{})
		results := make([][]rt.Result, spec.Goroutines)
		delays := make([]time.Duration, spec.Goroutines)
		for g := range delays {
			delays[g] = time.Duration(rng.Intn(50)) * time.Microsecond
		}
		for g := 0; g < spec.Goroutines; g++ {
			g := g
			ops := spec.Threads[g%len(spec.Threads)]
			results[g] = make([]rt.Result, len(ops))
			wg.Add(1)
			go func() {
				defer wg.Done()
				<-start
				time.Sleep(delays[g])
				for i, op := range ops {
					results[g][i] = rt.RunOp(c, ctxs, op)
				}
			}()
		}
		close(start)
		wg.Wait()
		for g := range results {
			rep.Ops += len(results[g])
			if got := shapes(results[g]); got != ref[g%len(spec.Threads)] && len(rep.Mismatches) < 3 {
				rep.Mismatches = append(rep.Mismatches, "goroutine result differs from the sequential reference: "+got+" vs "+ref[g%len(spec.Threads)])
			}
		}
		rep.Rounds++
	}
	b, _ := json.Marshal(rep)
	fmt.Println(string(b))
}
`
