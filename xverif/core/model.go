package core

import (
	"encoding/json"
	"fmt"
	"math"
	"sort"
	"strconv"
	"strings"
)

// Reference (behaviour) model: a small sequential interpreter of what the documentation says a generated
// container does, over the fixture universe. It is an oracle only; it never replaces the code under
// test. See DESIGN.md Appendix B.

type MObj struct {
	ID         string // "" = no identity
	Ty         string
	Ctor       string
	Args       []any
	F1, F2, F3 any
	Log        []MEvent
}

type MEvent struct {
	M    string
	Args []any
}

type MWrap struct {
	ID, Fn, Tag, SID string
	Args             []any
	Inner            any
}

type MContainer struct{}
type MNilPtr struct{ Ty string }

// MErr is an expected failure: the observed error text must contain every element of Contains.
type MErr struct{ Contains []string }

func (e *MErr) Error() string { return "expected error containing " + strings.Join(e.Contains, " & ") }

// MUnspec signals that the documentation does not decide the outcome.
type MUnspec struct{ Why string }

func (e *MUnspec) Error() string { return "unspecified: " + e.Why }

type Model struct {
	Cfg     *Cfg
	LocalID string // ID of the local fixture (references written as ".")
	Env     map[string]string

	nextID    int
	shared    map[string]any
	pcache    map[string]any
	bags      map[string]map[string]any
	ovParam   map[string]*ProbeSpec
	ovSvc     map[string]*ProbeSpec
	Counters  map[string]int64
	globals   map[string]*MObj
	argVals   map[string]any // container-construction-time values of "!value &T{}" arguments, by position key
	building  map[string]bool
	paramBusy map[string]bool
}

func NewModel(cfg *Cfg, localID string, env map[string]string) *Model {
	return &Model{Cfg: cfg, LocalID: localID, Env: env, shared: map[string]any{}, pcache: map[string]any{}, bags: map[string]map[string]any{},
		ovParam: map[string]*ProbeSpec{}, ovSvc: map[string]*ProbeSpec{}, Counters: map[string]int64{}, globals: map[string]*MObj{}, argVals: map[string]any{},
		building: map[string]bool{}, paramBusy: map[string]bool{}}
}

func (m *Model) fresh() string { m.nextID++; return fmt.Sprintf("m:%d", m.nextID) }

func (m *Model) aliases() []KV {
	if m.Cfg.Meta == nil {
		return nil
	}
	return m.Cfg.Meta.Imports
}

// pkgID resolves a written import to the fixture package's ID.
func (m *Model) pkgID(r Ref) string {
	if !r.HasImport || r.Import == "" {
		return m.LocalID
	}
	return ResolveImport(r.Import, m.aliases())
}

func (m *Model) count(k string) { m.Counters[k]++ }

// ---- scope ----------------------------------------------------------------------------------------

func (m *Model) svc(name string) *Service { return m.Cfg.Svc(name) }

func argStrings(s *Service) []any {
	var all []any
	all = append(all, s.Args...)
	for _, c := range s.Calls {
		all = append(all, c.Args...)
	}
	for _, f := range s.Fields {
		all = append(all, f.V)
	}
	return all
}

func (m *Model) carriers(tag string) []string {
	type e struct {
		n string
		p int
	}
	var es []e
	for n, ov := range m.ovSvc {
		for _, t := range ov.Tags {
			if t == tag {
				es = append(es, e{n, 0})
			}
		}
	}
	for i := range m.Cfg.Services {
		s := &m.Cfg.Services[i]
		if s.Todo != nil && *s.Todo {
			continue // a todo service has no attributes at run time
		}
		if _, ov := m.ovSvc[s.Name]; ov {
			continue // replaced at run time: the tags of the replacement count
		}
		for _, t := range s.Tags {
			if t.Name == tag {
				p := 0
				if t.Priority != nil {
					p = *t.Priority
				}
				es = append(es, e{s.Name, p})
			}
		}
	}
	sort.SliceStable(es, func(i, j int) bool {
		if es[i].p != es[j].p {
			return es[i].p > es[j].p
		}
		return es[i].n < es[j].n
	})
	r := make([]string, len(es))
	for i, x := range es {
		r[i] = x.n
	}
	return r
}

// directDeps lists the services s depends on directly (statement of C05/C07).
func (m *Model) directDeps(name string) []string {
	if ov, ok := m.ovSvc[name]; ok {
		// replaced at run time: what the replacement is built from, plus the decorators of its tags
		deps := append([]string{}, ov.Deps...)
		for _, t := range ov.Tags {
			for _, d := range m.Cfg.Decorators {
				if d.Tag == t {
					for _, a := range d.Args {
						if str, ok := a.(string); ok {
							if k, payload, wf := ArgKind(str); wf && k == "service" {
								deps = append(deps, payload)
							} else if wf && k == "tagged" {
								deps = append(deps, m.carriers(payload)...)
							}
						}
					}
				}
			}
		}
		return deps
	}
	s := m.svc(name)
	if s == nil || (s.Todo != nil && *s.Todo) {
		return nil
	}
	var deps []string
	fromArgs := func(args []any) {
		for _, a := range args {
			str, ok := a.(string)
			if !ok {
				continue
			}
			k, payload, wf := ArgKind(str)
			if !wf {
				continue
			}
			switch k {
			case "service":
				deps = append(deps, payload)
			case "tagged":
				deps = append(deps, m.carriers(payload)...)
			}
		}
	}
	fromArgs(argStrings(s))
	for _, t := range s.Tags {
		for _, d := range m.Cfg.Decorators {
			if d.Tag == t.Name {
				fromArgs(d.Args)
			}
		}
	}
	return deps
}

func (m *Model) Reaches(name string) map[string]bool {
	seen := map[string]bool{}
	st := m.directDeps(name)
	for len(st) > 0 {
		n := st[len(st)-1]
		st = st[:len(st)-1]
		if seen[n] {
			continue
		}
		seen[n] = true
		st = append(st, m.directDeps(n)...)
	}
	return seen
}

// Scope returns the effective scope of a configured service.
func (m *Model) Scope(name string) string {
	if d := m.declaredScope(name); d != "" {
		return d
	}
	if _, ov := m.ovSvc[name]; !ov {
		s := m.svc(name)
		if s == nil || (s.Todo != nil && *s.Todo) {
			return "shared"
		}
	}
	for d := range m.Reaches(name) {
		if m.declaredScope(d) == "contextual" {
			return "contextual"
		}
	}
	return "shared"
}

// declaredScope: the scope a service declares itself ("" if none) - the replacement's, once it has been replaced.
func (m *Model) declaredScope(name string) string {
	if ov, ok := m.ovSvc[name]; ok {
		return ov.Scope
	}
	s := m.svc(name)
	if s == nil || (s.Todo != nil && *s.Todo) || s.Scope == nil {
		return ""
	}
	return *s.Scope
}

// ---- parameters -----------------------------------------------------------------------------------

// Chunks splits a pattern the way the documentation describes: substrings surrounded by '%'.
func Chunks(s string) ([]string, bool) {
	if s == "" {
		return []string{""}, true
	}
	var r []string
	opened := false
	buf := ""
	for _, c := range s {
		if c == '%' {
			if opened {
				r = append(r, buf+"%")
				buf, opened = "", false
				continue
			}
			if buf != "" {
				r = append(r, buf)
			}
			buf, opened = "%", true
			continue
		}
		buf += string(c)
	}
	if opened {
		return nil, false
	}
	if buf != "" {
		r = append(r, buf)
	}
	return r, true
}

// FnCall parses "name(args)" inside a %...% chunk.
func FnCall(inner string) (name, args string, ok bool) {
	i := strings.Index(inner, "(")
	if i <= 0 || !strings.HasSuffix(inner, ")") {
		return "", "", false
	}
	name = inner[:i]
	if !IsGoToken(name) {
		return "", "", false
	}
	return name, inner[i+1 : len(inner)-1], true
}

func (m *Model) functions() map[string]string {
	f := map[string]string{"env": "<env>", "envInt": "<envInt>", "todo": "<todo>"}
	if m.Cfg.Meta != nil {
		for _, kv := range m.Cfg.Meta.Functions {
			f[kv.K], _ = kv.V.(string)
		}
	}
	return f
}

// CastToString is the documented string cast of multi-chunk patterns.
func CastToString(v any) (string, bool) {
	switch x := v.(type) {
	case nil:
		return "nil", true
	case string:
		return x, true
	case bool:
		return strconv.FormatBool(x), true
	case int:
		return strconv.Itoa(x), true
	case uint64:
		return strconv.FormatUint(x, 10), true
	case float64:
		return strconv.FormatFloat(x, 'f', -1, 64), true
	}
	return "", false
}

// parseLiteralArgs parses a comma separated list of Go literals (strings, ints, bools, nil).
func parseLiteralArgs(s string) ([]any, bool) {
	s = strings.TrimSpace(s)
	if s == "" {
		return nil, true
	}
	var out []any
	i := 0
	for i < len(s) {
		for i < len(s) && s[i] == ' ' {
			i++
		}
		if i >= len(s) {
			return nil, false
		}
		switch {
		case s[i] == '"':
			j := i + 1
			for j < len(s) && s[j] != '"' {
				if s[j] == '\\' {
					j++
				}
				j++
			}
			if j >= len(s) {
				return nil, false
			}
			u, err := strconv.Unquote(s[i : j+1])
			if err != nil {
				return nil, false
			}
			out = append(out, u)
			i = j + 1
		default:
			j := i
			for j < len(s) && s[j] != ',' && s[j] != ' ' {
				j++
			}
			tok := s[i:j]
			switch tok {
			case "true":
				out = append(out, true)
			case "false":
				out = append(out, false)
			case "nil":
				out = append(out, nil)
			default:
				n, err := strconv.Atoi(tok)
				if err != nil {
					return nil, false
				}
				out = append(out, n)
			}
			i = j
		}
		for i < len(s) && s[i] == ' ' {
			i++
		}
		if i < len(s) {
			if s[i] != ',' {
				return nil, false
			}
			i++
			if strings.TrimSpace(s[i:]) == "" {
				return nil, false
			}
		}
	}
	return out, true
}

func renderArgs(args []any) string {
	var p []string
	for _, a := range args {
		p = append(p, fmt.Sprintf("%T:%v", a, a))
	}
	return strings.Join(p, ",")
}

func (m *Model) callFn(chunk, name, argText string) (any, error) {
	fns := m.functions()
	target, ok := fns[name]
	if !ok {
		return nil, &MUnspec{"unknown function reaches run time"}
	}
	args, ok := parseLiteralArgs(argText)
	if !ok {
		return nil, &MUnspec{"function arguments are not a list of simple literals"}
	}
	fail := func(extra ...string) error {
		return &MErr{append([]string{"cannot execute " + chunk}, extra...)}
	}
	switch target {
	case "<env>":
		if len(args) < 1 || len(args) > 2 {
			return nil, &MUnspec{"env arity"}
		}
		k, ok := args[0].(string)
		if !ok {
			return nil, &MUnspec{"env key type"}
		}
		if v, ok := m.Env[k]; ok {
			return v, nil
		}
		if len(args) == 2 {
			d, ok := args[1].(string)
			if !ok {
				return nil, &MUnspec{"env default type"}
			}
			return d, nil
		}
		return nil, fail("does not exist")
	case "<envInt>":
		if len(args) < 1 || len(args) > 2 {
			return nil, &MUnspec{"envInt arity"}
		}
		k, ok := args[0].(string)
		if !ok {
			return nil, &MUnspec{"envInt key type"}
		}
		if v, ok := m.Env[k]; ok {
			n, err := strconv.Atoi(v)
			if err != nil {
				return nil, fail("cannot cast env")
			}
			return n, nil
		}
		if len(args) == 2 {
			d, ok := args[1].(int)
			if !ok {
				return nil, &MUnspec{"envInt default type"}
			}
			return d, nil
		}
		return nil, fail("does not exist")
	case "<todo>":
		if len(args) > 1 {
			return nil, &MUnspec{"todo arity"}
		}
		if len(args) == 1 {
			s, ok := args[0].(string)
			if !ok {
				return nil, &MUnspec{"todo message type"}
			}
			if !strings.Contains(s, "parameter todo") {
				return nil, fail(s, NotContains+"parameter todo", EndsWith+": "+s) // the given message, not the default one, verbatim
			}
			return nil, fail(s, EndsWith+": "+s)
		}
		return nil, fail("parameter todo")
	}
	r, ok := ParseGoFunc(target)
	if !ok {
		return nil, &MUnspec{"malformed go function"}
	}
	id := m.pkgID(r)
	m.count(id + "." + r.Name)
	switch r.Name {
	case "FnStr":
		return id + ".FnStr(" + renderArgs(args) + ")", nil
	case "FnInt":
		return 40 + len(args), nil
	case "FnNil":
		return nil, nil
	case "FnE":
		if len(args) > 0 && args[0] == "fail" {
			return nil, fail(id + ".FnE failed")
		}
		return id + ".FnE(" + renderArgs(args) + ")", nil
	case "FnTyped":
		// (int64, float64, uint8, string, ...float32): literals arrive converted to the parameter types
		if len(args) < 4 {
			return nil, &MUnspec{"FnTyped arity"}
		}
		num := func(v any) (float64, bool, bool) { // value, is a number, is an integer literal
			switch x := v.(type) {
			case int:
				return float64(x), true, true
			case float64:
				return x, true, false
			}
			return 0, false, false
		}
		a, okA, intA := num(args[0])
		b, okB, _ := num(args[1])
		c, okC, intC := num(args[2])
		str, okS := args[3].(string)
		if !okA || !intA || !okB || !okC || !intC || c < 0 || c > 255 || !okS {
			return nil, &MUnspec{"FnTyped argument types"}
		}
		conv := []any{int64(a), b, uint8(c), str}
		for _, r := range args[4:] {
			f, ok, _ := num(r)
			if !ok {
				return nil, &MUnspec{"FnTyped variadic argument type"}
			}
			conv = append(conv, float32(f))
		}
		return id + ".FnTyped(" + renderArgs(conv) + ")", nil
	case "FnObj":
		m.count(id + ".FnObj") // mk counts under the same key
		return &MObj{ID: m.fresh(), Ty: "*" + id + ".Obj", Ctor: "FnObj", Args: args}, nil
	}
	return nil, &MUnspec{"function " + r.Name + " not modelled"}
}

// EvalPattern evaluates a string the way a parameter value / string argument is evaluated.
func (m *Model) EvalPattern(s string) (any, error) {
	chunks, ok := Chunks(s)
	if !ok {
		return nil, &MUnspec{"unbalanced % reaches run time"}
	}
	vals := make([]any, len(chunks))
	for i, ch := range chunks {
		v, err := m.evalChunk(ch)
		if err != nil {
			return nil, err
		}
		vals[i] = v
	}
	if len(vals) == 1 {
		return vals[0], nil
	}
	var sb strings.Builder
	for _, v := range vals {
		s, ok := CastToString(v)
		if !ok {
			return nil, &MErr{[]string{"is not supported"}}
		}
		sb.WriteString(s)
	}
	return sb.String(), nil
}

func (m *Model) evalChunk(ch string) (any, error) {
	if ch == "%%" {
		return "%", nil
	}
	if len(ch) >= 2 && ch[0] == '%' && ch[len(ch)-1] == '%' {
		inner := ch[1 : len(ch)-1]
		if IsYamlToken(inner) {
			return m.GetParam(inner)
		}
		if name, args, ok := FnCall(inner); ok {
			return m.callFn(ch, name, args)
		}
		return nil, &MUnspec{"malformed token reaches run time"}
	}
	return ch, nil
}

func (m *Model) paramDef(name string) (any, bool) {
	for _, p := range m.Cfg.Params {
		if p.Name == name {
			return p.Val, true
		}
	}
	return nil, false
}

func fromSpecValue(v any) any {
	if mm, ok := v.(map[string]any); ok {
		if i, ok := mm["int"]; ok {
			switch x := i.(type) {
			case int:
				return x
			case float64:
				return int(x)
			}
		}
	}
	return v
}

func (m *Model) GetParam(name string) (any, error) {
	if v, ok := m.pcache[name]; ok {
		return v, nil
	}
	if m.paramBusy[name] {
		return nil, &MUnspec{"parameter cycle at run time"}
	}
	m.paramBusy[name] = true
	defer delete(m.paramBusy, name)
	var v any
	var err error
	if ov, ok := m.ovParam[name]; ok {
		switch ov.Kind {
		case "value":
			v = fromSpecValue(ov.V)
		case "provider":
			m.count("override-provider:" + name)
			v = fromSpecValue(ov.V)
		case "providerfail":
			err = &MErr{[]string{fmt.Sprint(ov.V)}}
		}
	} else {
		def, ok := m.paramDef(name)
		if !ok {
			return nil, &MErr{[]string{"param does not exist"}}
		}
		if s, ok := def.(string); ok {
			v, err = m.EvalPattern(s)
		} else {
			v = def
		}
	}
	if err != nil {
		if me, ok := err.(*MErr); ok {
			return nil, &MErr{append([]string{fmt.Sprintf("getParam(%q)", name)}, me.Contains...)}
		}
		return nil, err
	}
	m.pcache[name] = v
	return v, nil
}

// ---- services -------------------------------------------------------------------------------------

func (m *Model) bag(ctx string) map[string]any {
	if ctx == "" {
		return map[string]any{}
	}
	b := m.bags[ctx]
	if b == nil {
		b = map[string]any{}
		m.bags[ctx] = b
	}
	return b
}

func (m *Model) Get(name string) (any, error) { return m.get(name, m.bag("")) }
func (m *Model) GetInContext(ctx, name string) (any, error) {
	return m.get(name, m.bag(ctx))
}
func (m *Model) GetTaggedBy(tag string) (any, error) { return m.tagged(tag, m.bag("")) }
func (m *Model) GetTaggedByInContext(ctx, tag string) (any, error) {
	return m.tagged(tag, m.bag(ctx))
}

func (m *Model) tagged(tag string, bag map[string]any) (any, error) {
	live := m.carriers(tag)
	res := make([]any, 0, len(live))
	for _, n := range live {
		v, err := m.get(n, bag)
		if err != nil {
			if me, ok := err.(*MErr); ok {
				return nil, &MErr{append([]string{fmt.Sprintf("getTaggedBy(%q)", tag)}, me.Contains...)}
			}
			return nil, err
		}
		res = append(res, v)
	}
	return res, nil
}

func (m *Model) get(name string, bag map[string]any) (any, error) {
	wrapErr := func(err error) error {
		if me, ok := err.(*MErr); ok {
			return &MErr{append([]string{fmt.Sprintf("get(%q)", name)}, me.Contains...)}
		}
		return err
	}
	if ov, ok := m.ovSvc[name]; ok {
		// overriding definitions are built by a fixture constructor; their scope is the declared one, else inferred
		ovScope := m.Scope(name)
		switch ovScope {
		case "shared":
			if v, ok := m.shared[name]; ok {
				return v, nil
			}
		case "contextual":
			if v, ok := bag[name]; ok {
				return v, nil
			}
		}
		v, err := m.buildOverride(ov, bag)
		if err != nil {
			return nil, wrapErr(err)
		}
		var tags []Tag
		for _, t := range ov.Tags {
			tags = append(tags, Tag{Name: t})
		}
		v, err = m.decorate(v, name, tags, bag)
		if err != nil {
			return nil, wrapErr(err)
		}
		switch ovScope {
		case "shared":
			m.shared[name] = v
		case "contextual":
			bag[name] = v
		}
		return v, nil
	}
	s := m.svc(name)
	if s == nil {
		return nil, &MErr{[]string{fmt.Sprintf("get(%q)", name), "service does not exist"}}
	}
	scope := m.Scope(name)
	switch scope {
	case "shared":
		if v, ok := m.shared[name]; ok {
			return v, nil
		}
	case "contextual":
		if v, ok := bag[name]; ok {
			return v, nil
		}
	}
	if m.building[name] {
		return nil, &MUnspec{"service cycle at run time"}
	}
	m.building[name] = true
	defer delete(m.building, name)
	v, err := m.build(s, bag)
	if err != nil {
		return nil, wrapErr(err)
	}
	switch scope {
	case "shared":
		m.shared[name] = v
	case "contextual":
		bag[name] = v
	}
	return v, nil
}

func (m *Model) buildOverride(ov *ProbeSpec, bag map[string]any) (any, error) {
	switch ov.Kind {
	case "value":
		return fromSpecValue(ov.V), nil
	case "ctor":
		var args []any
		for _, a := range ov.Args {
			args = append(args, fromSpecValue(a))
		}
		var errs []error
		for _, d := range ov.Deps {
			v, err := m.get(d, bag)
			if err != nil {
				errs = append(errs, err)
			}
			args = append(args, v)
		}
		if len(errs) > 0 {
			return nil, joinErrs(errs)
		}
		k := strings.LastIndex(ov.Ctor, ".")
		return m.construct(ov.Ctor[:k], ov.Ctor[k+1:], args)
	}
	return nil, &MUnspec{"override kind"}
}

func joinErrs(errs []error) error {
	var contains []string
	for _, e := range errs {
		switch x := e.(type) {
		case *MUnspec:
			return x
		case *MErr:
			contains = append(contains, x.Contains...)
		}
	}
	return &MErr{contains}
}

func (m *Model) construct(id, fn string, args []any) (any, error) {
	switch fn {
	case "New", "New1", "New2", "New3", "New4", "NewIface":
		m.count(id + "." + fn)
		return &MObj{ID: m.fresh(), Ty: "*" + id + ".Obj", Ctor: fn, Args: args}, nil
	case "NewVal":
		m.count(id + ".NewVal")
		return &MObj{ID: m.fresh(), Ty: id + ".Val", Ctor: "NewVal", Args: args}, nil
	case "NewStr":
		// a plain string (what a getter typed with a named string type converts)
		return id + ".NewStr(" + renderArgs(args) + ")", nil
	case "NewE":
		if len(args) > 0 && args[0] == "fail" {
			m.count(id + ".NewE!")
			return nil, &MErr{[]string{id + ".NewE failed"}}
		}
		m.count(id + ".NewE")
		return &MObj{ID: m.fresh(), Ty: "*" + id + ".Obj", Ctor: "NewE", Args: args}, nil
	}
	return nil, &MUnspec{"constructor " + fn + " not modelled"}
}

func (m *Model) global(id, name string) *MObj {
	k := id + "." + name
	if g, ok := m.globals[k]; ok {
		return g
	}
	var g *MObj
	switch name {
	case "Var":
		g = &MObj{ID: "g:" + k, Ty: "*" + id + ".Obj", Ctor: "Var"}
	case "VarVal":
		g = &MObj{ID: "", Ty: id + ".Val", Ctor: "VarVal", F1: "field-one-of-" + id}
	}
	m.globals[k] = g
	return g
}

// value evaluates a value expression; fresh=true when the expression is evaluated anew (service value:
// once per construction; "!value" argument: once per container).
func (m *Model) value(expr string) (any, error) {
	r, ok := ParseValue(expr)
	if !ok {
		return nil, &MUnspec{"malformed value"}
	}
	id := m.pkgID(r)
	if r.Struct {
		ty := id + "." + r.Name
		switch r.Name {
		case "Obj", "Val":
		default:
			return nil, &MUnspec{"struct " + r.Name + " not modelled"}
		}
		o := &MObj{Ty: ty}
		if r.Ptr == "&" && r.Name == "Obj" {
			o.Ty = "*" + ty
			o.ID = m.fresh()
		}
		if r.Ptr == "&" && r.Name == "Val" {
			o.Ty = "*" + ty // no identity of its own (Val describes itself by value), but a pointer is not a copy
		}
		return o, nil
	}
	if len(r.Chain) == 0 {
		switch r.Name {
		case "Var":
			if r.Ptr == "&" {
				return nil, &MUnspec{"&Var not modelled"}
			}
			return m.global(id, "Var"), nil
		case "VarVal":
			g := m.global(id, "VarVal")
			if r.Ptr == "&" {
				p := *g
				p.Ty = "*" + g.Ty
				return &p, nil
			}
			return g, nil
		case "Const":
			if r.Ptr == "&" {
				return nil, &MUnspec{"&Const"}
			}
			return "const-of-" + id, nil
		case "ID":
			return id, nil
		}
		return nil, &MUnspec{"value " + r.Name + " not modelled"}
	}
	if r.Name == "VarVal" && len(r.Chain) == 1 && r.Chain[0] == "F1" && r.Ptr == "" {
		return "field-one-of-" + id, nil
	}
	if r.Name == "Var" && len(r.Chain) == 1 && r.Chain[0] == "Ctor" && r.Ptr == "" {
		return "Var", nil
	}
	return nil, &MUnspec{"value chain not modelled"}
}

// resolveArg evaluates one argument; posKey identifies the position (for per-container "!value" values).
func (m *Model) resolveArg(a any, bag map[string]any, posKey string) (any, error) {
	s, ok := a.(string)
	if !ok {
		return a, nil
	}
	kind, payload, wf := ArgKind(s)
	if !wf {
		return nil, &MUnspec{"malformed argument reaches run time"}
	}
	switch kind {
	case "service":
		return m.get(payload, bag)
	case "tagged":
		return m.tagged(payload, bag)
	case "gontainer":
		return MContainer{}, nil
	case "value":
		if v, ok := m.argVals[posKey]; ok {
			return v, nil
		}
		v, err := m.value(payload)
		if err != nil {
			return nil, err
		}
		m.argVals[posKey] = v
		return v, nil
	}
	return m.EvalPattern(s)
}

func (m *Model) resolveArgs(args []any, bag map[string]any, posKey string) ([]any, error) {
	out := make([]any, len(args))
	var errs []error
	for i, a := range args {
		v, err := m.resolveArg(a, bag, fmt.Sprintf("%s/%d", posKey, i))
		if err != nil {
			errs = append(errs, err)
			continue
		}
		out[i] = v
	}
	if len(errs) > 0 {
		return nil, joinErrs(errs)
	}
	return out, nil
}

func cloneObj(o *MObj) *MObj {
	c := *o
	c.Log = append([]MEvent{}, o.Log...)
	return &c
}

func (m *Model) build(s *Service, bag map[string]any) (any, error) {
	if s.Todo != nil && *s.Todo {
		return nil, &MErr{[]string{"service todo"}}
	}
	var cur any
	switch {
	case s.Constructor != nil:
		args, err := m.resolveArgs(s.Args, bag, "svc:"+s.Name+"/ctor")
		if err != nil {
			return nil, err
		}
		r, ok := ParseGoFunc(*s.Constructor)
		if !ok {
			return nil, &MUnspec{"malformed constructor"}
		}
		cur, err = m.construct(m.pkgID(r), r.Name, args)
		if err != nil {
			return nil, err
		}
	case s.Value != nil:
		v, err := m.value(*s.Value)
		if err != nil {
			return nil, err
		}
		if o, ok := v.(*MObj); ok && !strings.HasPrefix(o.ID, "g:") {
			v = cloneObj(o)
		}
		cur = v
	case s.Type != nil:
		r, ok := ParseType(*s.Type)
		if !ok {
			return nil, &MUnspec{"malformed type"}
		}
		id := m.pkgID(r)
		if r.Ptr == "*" {
			cur = MNilPtr{"*" + id + "." + r.Name}
		} else {
			switch r.Name {
			case "Obj", "Val":
				cur = &MObj{Ty: id + "." + r.Name}
			default:
				return nil, &MUnspec{"zero value of " + r.Name}
			}
		}
	default:
		return nil, &MUnspec{"no creation method"}
	}
	// fields, in name order
	fields := append([]KV{}, s.Fields...)
	sort.SliceStable(fields, func(i, j int) bool { return fields[i].K < fields[j].K })
	var errs []error
	for _, f := range fields {
		v, err := m.resolveArg(f.V, bag, "svc:"+s.Name+"/field/"+f.K)
		if err != nil {
			errs = append(errs, err)
			continue
		}
		o, ok := cur.(*MObj)
		if !ok {
			return nil, &MUnspec{"field on a non-object"}
		}
		switch f.K {
		case "F1":
			o.F1 = v
		case "F2":
			o.F2 = v
		case "f3":
			o.F3 = v
		default:
			return nil, &MUnspec{"field " + f.K + " not modelled"}
		}
	}
	if len(errs) > 0 {
		return nil, joinErrs(errs)
	}
	// calls, in declared order
	for ci, c := range s.Calls {
		args, err := m.resolveArgs(c.Args, bag, fmt.Sprintf("svc:%s/call/%d", s.Name, ci))
		if err != nil {
			errs = append(errs, err)
			continue
		}
		o, ok := cur.(*MObj)
		if !ok {
			return nil, &MUnspec{"call on a non-object"}
		}
		wither := c.Immutable != nil && *c.Immutable
		switch c.Method {
		case "Set1", "Set2":
			if wither {
				return nil, &MUnspec{"Set used as wither"}
			}
			o.Log = append(o.Log, MEvent{c.Method, args})
		case "With1", "With2":
			n := cloneObj(o)
			n.ID = m.fresh()
			if strings.HasSuffix(n.Ty, ".Obj") && !strings.HasPrefix(n.Ty, "*") {
				n.Ty = "*" + n.Ty // With* has a pointer receiver and returns *Obj
			}
			n.Log = append(n.Log, MEvent{c.Method, args})
			if wither {
				cur = n
			}
			// a wither called as a plain call: result discarded
		default:
			return nil, &MUnspec{"method " + c.Method + " not modelled"}
		}
	}
	if len(errs) > 0 {
		return nil, joinErrs(errs)
	}
	return m.decorate(cur, s.Name, s.Tags, bag)
}

// decorate applies the decorators of the carried tags, in declaration order.
func (m *Model) decorate(cur any, svcName string, tags []Tag, bag map[string]any) (any, error) {
	for di, d := range m.Cfg.Decorators {
		carried := false
		for _, t := range tags {
			if t.Name == d.Tag {
				carried = true
			}
		}
		if !carried {
			continue
		}
		args, err := m.resolveArgs(d.Args, bag, fmt.Sprintf("dec:%d", di))
		if err != nil {
			return nil, err
		}
		r, ok := ParseGoFunc(d.Decorator)
		if !ok {
			return nil, &MUnspec{"malformed decorator"}
		}
		id := m.pkgID(r)
		switch r.Name {
		case "Dec1", "Dec2", "Dec3":
		case "DecE":
			if len(args) > 0 && args[0] == "fail" {
				return nil, &MErr{[]string{id + ".DecE failed"}}
			}
		default:
			return nil, &MUnspec{"decorator " + r.Name + " not modelled"}
		}
		m.count(id + "." + r.Name)
		cur = &MWrap{ID: m.fresh(), Fn: id + "." + r.Name, Tag: d.Tag, SID: svcName, Args: args, Inner: cur}
	}
	return cur, nil
}

// ---- overrides ------------------------------------------------------------------------------------

func (m *Model) OverrideParam(name string, spec *ProbeSpec) {
	m.ovParam[name] = spec
	delete(m.pcache, name)
}

func (m *Model) OverrideService(name string, spec *ProbeSpec) {
	m.ovSvc[name] = spec
	delete(m.shared, name)
}

// ---- description (mirror of fx/rt.Describe) --------------------------------------------------------

type mdesc struct{ seen map[string]bool }

func DescribeModel(v any) map[string]any {
	d := &mdesc{seen: map[string]bool{}}
	return d.desc(v)
}

func (d *mdesc) list(xs []any) []any {
	r := make([]any, len(xs))
	for i, x := range xs {
		r[i] = d.desc(x)
	}
	return r
}

func modelFloat(f float64) string {
	switch {
	case math.IsNaN(f):
		return "NaN"
	case math.IsInf(f, 1):
		return "+Inf"
	case math.IsInf(f, -1):
		return "-Inf"
	}
	return fmt.Sprintf("%v", f)
}

func (d *mdesc) desc(v any) map[string]any {
	switch x := v.(type) {
	case nil:
		return map[string]any{"t": "nil"}
	case MContainer:
		return map[string]any{"t": "container"}
	case MNilPtr:
		return map[string]any{"t": "nilptr", "go": x.Ty}
	case bool:
		return map[string]any{"t": "bool", "v": fmt.Sprint(x)}
	case string:
		return map[string]any{"t": "string", "v": x}
	case int:
		return map[string]any{"t": "int", "v": fmt.Sprint(x)}
	case uint64:
		return map[string]any{"t": "uint64", "v": fmt.Sprint(x)}
	case float64:
		return map[string]any{"t": "float64", "v": modelFloat(x)}
	case []any:
		return map[string]any{"t": "slice", "items": d.list(x)}
	case *MWrap:
		if d.seen[x.ID] {
			return map[string]any{"t": "ref", "id": x.ID}
		}
		d.seen[x.ID] = true
		return map[string]any{"t": "wrap", "id": x.ID, "fn": x.Fn, "tag": x.Tag, "sid": x.SID, "args": d.list(x.Args), "inner": d.desc(x.Inner)}
	case *MObj:
		if x.ID != "" {
			if d.seen[x.ID] {
				return map[string]any{"t": "ref", "id": x.ID}
			}
			d.seen[x.ID] = true
		}
		n := map[string]any{"t": "obj", "ty": x.Ty, "ctor": x.Ctor, "args": d.list(x.Args), "f1": d.desc(x.F1), "f2": d.desc(x.F2), "f3": d.desc(x.F3)}
		if x.ID != "" {
			n["id"] = x.ID
		}
		log := make([]any, len(x.Log))
		for i, e := range x.Log {
			log[i] = map[string]any{"m": e.M, "args": d.list(e.Args)}
		}
		n["log"] = log
		return n
	}
	return map[string]any{"t": "other", "go": fmt.Sprintf("%T", v)}
}

// State mirrors the probe's "state" op: which cells of the caches are filled.
func (m *Model) State() map[string]any {
	keys := func(mm map[string]any) []any {
		ks := make([]string, 0, len(mm))
		for k := range mm {
			ks = append(ks, k)
		}
		sort.Strings(ks)
		out := make([]any, len(ks))
		for i, k := range ks {
			out[i] = k
		}
		return out
	}
	bags := map[string]any{}
	for n, b := range m.bags {
		bags[n] = keys(b)
	}
	return map[string]any{"t": "state", "shared": keys(m.shared), "params": keys(m.pcache), "bags": bags}
}

// StateKey is the canonical key of the model state (caches + current overrides).
func (m *Model) StateKey() string {
	b, _ := json.Marshal(m.State())
	ov := []string{}
	for k, v := range m.ovParam {
		ov = append(ov, fmt.Sprintf("p:%s=%s:%v", k, v.Kind, v.V))
	}
	for k, v := range m.ovSvc {
		ov = append(ov, fmt.Sprintf("s:%s=%s:%v:%s:%v:%v", k, v.Kind, v.V, v.Ctor, v.Args, v.Deps))
	}
	sort.Strings(ov)
	return string(b) + "|" + strings.Join(ov, ";")
}
