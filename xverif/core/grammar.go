package core

import "strings"

// Hand-written recognisers of the documented input grammar (DESIGN.md Appendix A). No regexp on purpose:
// an edit of one of the tool's regular expressions that changes its language becomes a disagreement
// between two independent implementations.

func isLetter(c byte) bool { return c >= 'A' && c <= 'Z' || c >= 'a' && c <= 'z' }
func isDigit(c byte) bool  { return c >= '0' && c <= '9' }

// IsGoToken: letter { letter | digit | '_' }
func IsGoToken(s string) bool {
	if s == "" || !isLetter(s[0]) {
		return false
	}
	for i := 1; i < len(s); i++ {
		if !(isLetter(s[i]) || isDigit(s[i]) || s[i] == '_') {
			return false
		}
	}
	return true
}

// IsYamlToken: letter { [ '.' | '-' | '_' ] ( letter | digit ) }
func IsYamlToken(s string) bool {
	if s == "" || !isLetter(s[0]) {
		return false
	}
	i := 1
	for i < len(s) {
		if s[i] == '.' || s[i] == '-' || s[i] == '_' {
			i++
			if i >= len(s) {
				return false
			}
		}
		if !(isLetter(s[i]) || isDigit(s[i])) {
			return false
		}
		i++
	}
	return true
}

func isImportChar(c byte) bool {
	return isLetter(c) || isDigit(c) || c == '.' || c == '_' || c == '-'
}

// IsBaseImport: letter { [ '/' ] importChar }
func IsBaseImport(s string) bool {
	if s == "" || !isLetter(s[0]) {
		return false
	}
	i := 1
	for i < len(s) {
		if s[i] == '/' {
			i++
			if i >= len(s) {
				return false
			}
		}
		if !isImportChar(s[i]) {
			return false
		}
		i++
	}
	return true
}

// ParseImport: BaseImport | '"' BaseImport '"' | '"."'. Returns the path ("" for the current package).
func ParseImport(s string) (path string, ok bool) {
	if s == `"."` {
		return "", true
	}
	if len(s) >= 2 && s[0] == '"' && s[len(s)-1] == '"' {
		in := s[1 : len(s)-1]
		if IsBaseImport(in) {
			return in, true
		}
		return "", false
	}
	if IsBaseImport(s) {
		return s, true
	}
	return "", false
}

// Ref is a parsed package-qualified reference.
type Ref struct {
	Ptr       string // "*" or "&" or ""
	HasImport bool
	Import    string   // path as written (after unquoting); "" with HasImport means current package (".")
	Name      string   // identifier (first of the chain for values)
	Chain     []string // further selectors (values only)
	Struct    bool     // value form ends with {}
}

// splitQualified splits s into import part and the rest at the position the tool's grammar implies:
// quoted import: up to the closing quote; unquoted: everything before the last dot.
func splitQualified(s string) (imp string, hasImp bool, rest string, ok bool) {
	if strings.HasPrefix(s, `"`) {
		j := strings.Index(s[1:], `"`)
		if j < 0 {
			return "", false, "", false
		}
		q := s[:j+2]
		p, ok := ParseImport(q)
		if !ok {
			return "", false, "", false
		}
		if len(s) <= j+2 || s[j+2] != '.' {
			return "", false, "", false
		}
		return p, true, s[j+3:], true
	}
	k := strings.LastIndex(s, ".")
	if k < 0 {
		return "", false, s, true
	}
	if !IsBaseImport(s[:k]) {
		return "", false, "", false
	}
	return s[:k], true, s[k+1:], true
}

// ParseGoFunc: [ Import '.' ] GoToken
func ParseGoFunc(s string) (Ref, bool) {
	imp, has, rest, ok := splitQualified(s)
	if !ok || !IsGoToken(rest) {
		return Ref{}, false
	}
	return Ref{HasImport: has, Import: imp, Name: rest}, true
}

// ParseType: [ '*' ] [ Import '.' ] GoToken
func ParseType(s string) (Ref, bool) {
	ptr := ""
	if strings.HasPrefix(s, "*") {
		ptr, s = "*", s[1:]
	}
	r, ok := ParseGoFunc(s)
	r.Ptr = ptr
	return r, ok
}

// ParseValue: [ '&' ] [ Import '.' ] GoToken { '.' GoToken }  |  [ '&' ] [ Import '.' ] GoToken '{}'
func ParseValue(s string) (Ref, bool) {
	ptr := ""
	if strings.HasPrefix(s, "&") {
		ptr, s = "&", s[1:]
	}
	if strings.HasSuffix(s, "{}") {
		r, ok := ParseGoFunc(s[:len(s)-2])
		r.Ptr, r.Struct = ptr, true
		return r, ok
	}
	if strings.HasPrefix(s, `"`) {
		imp, has, rest, ok := splitQualified(s)
		if !ok {
			return Ref{}, false
		}
		parts := strings.Split(rest, ".")
		for _, p := range parts {
			if !IsGoToken(p) {
				return Ref{}, false
			}
		}
		return Ref{Ptr: ptr, HasImport: has, Import: imp, Name: parts[0], Chain: parts[1:]}, true
	}
	// unquoted: the import is everything before the last dot, so a chain needs the quoted form
	r, ok := ParseGoFunc(s)
	r.Ptr = ptr
	return r, ok
}

func isRegexSpace(c byte) bool {
	return c == '\t' || c == '\n' || c == '\f' || c == '\r' || c == ' '
}

// ArgKind classifies a string argument by the tool's prefix dispatch.
//
//	"service"  "@..."            must be '@' YamlToken
//	"value"    "!value\s+..."    must be followed by a Value
//	"tagged"   "!tagged\s+..."   must be followed by a YamlToken
//	"gontainer" exactly "$gontainer"
//	"pattern"  anything else
func ArgKind(s string) (kind string, payload string, wellFormed bool) {
	if strings.HasPrefix(s, "!value") {
		rest := s[len("!value"):]
		n := 0
		for n < len(rest) && isRegexSpace(rest[n]) {
			n++
		}
		if n > 0 {
			_, ok := ParseValue(rest[n:])
			return "value", rest[n:], ok
		}
	}
	if strings.HasPrefix(s, "@") {
		return "service", s[1:], IsYamlToken(s[1:])
	}
	if strings.HasPrefix(s, "!tagged") {
		rest := s[len("!tagged"):]
		n := 0
		for n < len(rest) && isRegexSpace(rest[n]) {
			n++
		}
		if n > 0 {
			return "tagged", rest[n:], IsYamlToken(rest[n:])
		}
	}
	if s == "$gontainer" {
		return "gontainer", "", true
	}
	return "pattern", s, true
}

// Resolve maps an import as written to the package path it denotes under the alias table: if the first
// path segment equals an alias it is substituted, otherwise the path denotes itself.
func ResolveImport(written string, aliases []KV) string {
	seg := written
	rest := ""
	if i := strings.Index(written, "/"); i >= 0 {
		seg, rest = written[:i], written[i:]
	}
	for _, kv := range aliases {
		if kv.K == seg {
			p, _ := kv.V.(string)
			if up, ok := ParseImport(p); ok {
				p = up
			}
			return p + rest
		}
	}
	return written
}
