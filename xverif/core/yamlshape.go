package core

import (
	"bytes"
	"fmt"
	"os"
	"sort"
	"strings"

	"gopkg.in/yaml.v3"
)

// Presentation variants of one YAML document. A configuration means what its YAML data says; how the data is
// written (flow or block style, literal block scalars, key order, anchors and aliases, merge keys, explicit tags,
// line endings, a byte-order mark, document markers) is not part of the meaning. ShapeVariants re-renders a
// document (as emitted by Cfg.YAML, JSON flow style) in these presentations; the checks compare what the tool
// makes of each of them with what it makes of the original.
//
// The transformations work on yaml.v3's node tree of the harness's own emitter output; nothing the tool parses is
// ever read back by an oracle.

// ShapeVariants returns name -> document. Variants that cannot represent the document are left out.
func ShapeVariants(doc string) map[string]string {
	out := map[string]string{}
	parse := func() *yaml.Node {
		var n yaml.Node
		if err := yaml.Unmarshal([]byte(doc), &n); err != nil || n.Kind != yaml.DocumentNode || len(n.Content) != 1 {
			return nil
		}
		return &n
	}
	emit := func(n *yaml.Node) (string, bool) {
		var buf bytes.Buffer
		enc := yaml.NewEncoder(&buf)
		enc.SetIndent(2)
		if err := enc.Encode(n); err != nil {
			return "", false
		}
		enc.Close()
		// the re-rendered document must still hold the same data
		var a, b any
		ea, eb := yaml.Unmarshal([]byte(doc), &a), yaml.Unmarshal(buf.Bytes(), &b)
		if ea != nil || eb != nil || fmt.Sprintf("%#v", a) != fmt.Sprintf("%#v", b) {
			if os.Getenv("XV_SHAPE_DEBUG") != "" {
				sa, sb := fmt.Sprintf("%#v", a), fmt.Sprintf("%#v", b)
				k := 0
				for k < len(sa) && k < len(sb) && sa[k] == sb[k] {
					k++
				}
				lo := k - 60
				if lo < 0 {
					lo = 0
				}
				fmt.Fprintf(os.Stderr, "SHAPE-GATE %v %v at %d: %q vs %q\n", ea, eb, k, sa[lo:min(len(sa), k+40)], sb[lo:min(len(sb), k+40)])
			}
			return "", false
		}
		return buf.String(), true
	}
	walk := func(n *yaml.Node, f func(*yaml.Node)) {
		var rec func(*yaml.Node)
		rec = func(x *yaml.Node) {
			f(x)
			for _, c := range x.Content {
				rec(c)
			}
		}
		rec(n)
	}
	if parse() == nil {
		return out
	}
	// block style: mappings and sequences one entry per line, multi-line strings as literal block scalars
	if n := parse(); n != nil {
		walk(n, func(x *yaml.Node) {
			x.Style &^= yaml.FlowStyle
			if x.Kind == yaml.ScalarNode && x.Tag == "!!str" {
				x.Style = 0
				if strings.ContainsAny(x.Value, "\n\t") {
					// (left to itself the encoder picks the literal style for every multi-line string, also where it cannot
					// represent it, e.g. with a leading line feed)
					x.Style = yaml.DoubleQuotedStyle
					if literalRoundTrips(x.Value) {
						x.Style = yaml.LiteralStyle
					}
				}
			}
		})
		if s, ok := emit(n); ok {
			out["block-style"] = s
			out["block-style-crlf"] = strings.ReplaceAll(s, "\n", "\r\n")
			out["block-style-bom"] = "\ufeff" + s
			out["block-style-document-markers"] = "---\n" + s + "...\n"
		}
	}
	// every mapping with its keys in reverse order
	if n := parse(); n != nil {
		walk(n, func(x *yaml.Node) {
			if x.Kind == yaml.MappingNode {
				var pairs [][2]*yaml.Node
				for i := 0; i+1 < len(x.Content); i += 2 {
					pairs = append(pairs, [2]*yaml.Node{x.Content[i], x.Content[i+1]})
				}
				x.Content = nil
				for i := len(pairs) - 1; i >= 0; i-- {
					x.Content = append(x.Content, pairs[i][0], pairs[i][1])
				}
			}
		})
		if s, ok := emit(n); ok {
			out["keys-reversed"] = s
		}
	}
	// every mapping with its keys sorted (a third order)
	if n := parse(); n != nil {
		walk(n, func(x *yaml.Node) {
			if x.Kind == yaml.MappingNode {
				var pairs [][2]*yaml.Node
				for i := 0; i+1 < len(x.Content); i += 2 {
					pairs = append(pairs, [2]*yaml.Node{x.Content[i], x.Content[i+1]})
				}
				sort.SliceStable(pairs, func(i, j int) bool { return pairs[i][0].Value > pairs[j][0].Value })
				x.Content = nil
				for _, p := range pairs {
					x.Content = append(x.Content, p[0], p[1])
				}
			}
		})
		if s, ok := emit(n); ok {
			out["keys-sorted-descending"] = s
		}
	}
	// explicit tags and quoting: every string scalar double-quoted with an explicit !!str, keys included
	if n := parse(); n != nil {
		walk(n, func(x *yaml.Node) {
			if x.Kind == yaml.ScalarNode && x.Tag == "!!str" {
				x.Style = yaml.DoubleQuotedStyle | yaml.TaggedStyle
			}
		})
		if s, ok := emit(n); ok {
			out["explicit-str-tags"] = s
		}
	}
	// anchors and aliases: every value (scalar, sequence or mapping; not keys) that occurs again later with the same
	// content is written once and referred to afterwards
	if n := parse(); n != nil {
		seen := map[string]*yaml.Node{}
		count := 0
		var rec func(x *yaml.Node)
		key := func(x *yaml.Node) string {
			var buf bytes.Buffer
			e := yaml.NewEncoder(&buf)
			e.Encode(x)
			e.Close()
			return fmt.Sprint(x.Kind, "|", buf.String())
		}
		rec = func(x *yaml.Node) {
			visit := func(i int) {
				c := x.Content[i]
				if c.Kind == yaml.AliasNode {
					return
				}
				k := key(c)
				if first, ok := seen[k]; ok {
					if first.Anchor == "" {
						count++
						first.Anchor = fmt.Sprintf("a%d", count)
					}
					x.Content[i] = &yaml.Node{Kind: yaml.AliasNode, Alias: first, Value: first.Anchor}
					return
				}
				seen[k] = c
				rec(c)
			}
			switch x.Kind {
			case yaml.MappingNode:
				for i := 1; i < len(x.Content); i += 2 {
					visit(i)
				}
			case yaml.SequenceNode, yaml.DocumentNode:
				for i := range x.Content {
					visit(i)
				}
			}
		}
		rec(n)
		if count > 0 {
			if s, ok := emit(n); ok {
				out["anchors-and-aliases"] = s
			}
		}
	}
	// every value hoisted: each scalar, sequence and mapping in a value position (below the sections) is defined once
	// under a top-level key the tool does not know and referred to by an alias where it is used
	if n := parse(); n != nil {
		root := n.Content[0]
		if root.Kind == yaml.MappingNode {
			var pool []*yaml.Node
			hoist := func(c *yaml.Node) *yaml.Node {
				if c.Kind == yaml.AliasNode {
					return c
				}
				c.Anchor = fmt.Sprintf("h%d", len(pool)+1)
				pool = append(pool, c)
				return &yaml.Node{Kind: yaml.AliasNode, Alias: c, Value: c.Anchor}
			}
			var rec func(x *yaml.Node, depth int)
			rec = func(x *yaml.Node, depth int) {
				switch x.Kind {
				case yaml.MappingNode:
					for i := 1; i < len(x.Content); i += 2 {
						rec(x.Content[i], depth+1)
						if depth >= 2 {
							x.Content[i] = hoist(x.Content[i])
						}
					}
				case yaml.SequenceNode:
					for i := range x.Content {
						rec(x.Content[i], depth+1)
						if depth >= 2 {
							x.Content[i] = hoist(x.Content[i])
						}
					}
				}
			}
			rec(root, 0)
			if len(pool) > 0 {
				seq := &yaml.Node{Kind: yaml.SequenceNode, Tag: "!!seq", Content: pool}
				root.Content = append([]*yaml.Node{{Kind: yaml.ScalarNode, Tag: "!!str", Value: "x-anchors"}, seq}, root.Content...)
				var buf bytes.Buffer
				enc := yaml.NewEncoder(&buf)
				enc.SetIndent(2)
				if enc.Encode(n) == nil {
					enc.Close()
					var a, b map[string]any
					if yaml.Unmarshal([]byte(doc), &a) == nil && yaml.Unmarshal(buf.Bytes(), &b) == nil {
						delete(b, "x-anchors")
						if fmt.Sprintf("%#v", a) == fmt.Sprintf("%#v", b) {
							out["every-value-an-alias"] = buf.String()
						}
					}
				}
			}
		}
	}
	// merge keys: every mapping with at least two entries keeps its first entry and pulls the others in through
	// `<<: *mN`; the anchored mappings live under a top-level key the tool does not know
	if n := parse(); n != nil {
		root := n.Content[0]
		if root.Kind == yaml.MappingNode {
			var pool []*yaml.Node
			var rec func(x *yaml.Node, depth int)
			rec = func(x *yaml.Node, depth int) {
				for _, c := range x.Content {
					rec(c, depth+1)
				}
				if x.Kind != yaml.MappingNode || depth < 2 || len(x.Content) < 4 {
					return
				}
				rest := &yaml.Node{Kind: yaml.MappingNode, Tag: "!!map", Anchor: fmt.Sprintf("m%d", len(pool)+1), Style: yaml.FlowStyle}
				rest.Content = append(rest.Content, x.Content[2:]...)
				pool = append(pool, rest)
				x.Content = []*yaml.Node{
					{Kind: yaml.ScalarNode, Tag: "!!merge", Value: "<<"},
					{Kind: yaml.AliasNode, Alias: rest, Value: rest.Anchor},
					x.Content[0], x.Content[1],
				}
			}
			rec(root, 0)
			if len(pool) > 0 {
				seq := &yaml.Node{Kind: yaml.SequenceNode, Tag: "!!seq", Content: pool}
				root.Content = append([]*yaml.Node{{Kind: yaml.ScalarNode, Tag: "!!str", Value: "x-anchors"}, seq}, root.Content...)
				var buf bytes.Buffer
				enc := yaml.NewEncoder(&buf)
				enc.SetIndent(2)
				if enc.Encode(n) == nil {
					enc.Close()
					// same data apart from the extra top-level key
					var a, b map[string]any
					if yaml.Unmarshal([]byte(doc), &a) == nil && yaml.Unmarshal(buf.Bytes(), &b) == nil {
						delete(b, "x-anchors")
						if fmt.Sprintf("%#v", a) == fmt.Sprintf("%#v", b) {
							out["merge-keys"] = buf.String()
						}
					}
				}
			}
		}
	}
	return out
}

// literalRoundTrips: a literal block scalar holding exactly this string can be written and read back.
func literalRoundTrips(v string) bool {
	if strings.ContainsAny(v, "\r\x00") {
		return false
	}
	doc := &yaml.Node{Kind: yaml.MappingNode, Tag: "!!map", Content: []*yaml.Node{
		{Kind: yaml.ScalarNode, Tag: "!!str", Value: "k"},
		{Kind: yaml.ScalarNode, Tag: "!!str", Value: v, Style: yaml.LiteralStyle},
	}}
	b, err := yaml.Marshal(doc)
	if err != nil || !bytes.Contains(b, []byte("k: |")) {
		return false
	}
	var back map[string]string
	return yaml.Unmarshal(b, &back) == nil && back["k"] == v
}

// ShapeInvariance builds the files as they are and once per presentation variant of every file (all files of one
// build in the same presentation) and reports what differs: exit status, diagnostics, output bytes.
func (w *W) ShapeInvariance(c *C, id string, files []File, flags ...string) {
	w.shapeInvariance(c, id, files, nil, flags...)
}

// ShapeInvarianceOK additionally states whether the configuration (in its original presentation) is a valid one.
func (w *W) ShapeInvarianceOK(c *C, id string, files []File, wantAccepted bool, flags ...string) {
	w.shapeInvariance(c, id, files, &wantAccepted, flags...)
}

func (w *W) shapeInvariance(c *C, id string, files []File, wantAccepted *bool, flags ...string) {
	base := w.Build(files, flags...)
	if base.Panic != "" {
		c.Violation("panic", "tool panicked ("+id+"):\n"+base.Panic, FilesMap(files), nil)
		return
	}
	if wantAccepted != nil && *wantAccepted != base.OK() {
		c.Violation("presentation-base-verdict", fmt.Sprintf("the configuration of %s is meant to be accepted=%v, exit %d\n%s", id, *wantAccepted, base.Exit, strings.Join(ErrorLines(base.Out), "\n")), FilesMap(files), nil)
		return
	}
	names := map[string]bool{}
	variants := make([]map[string]string, len(files))
	for i, f := range files {
		variants[i] = ShapeVariants(f.Content)
		for n := range variants[i] {
			names[n] = true
		}
	}
	for _, must := range []string{"block-style", "keys-reversed", "explicit-str-tags"} {
		if !names[must] {
			w.Note("presentation variant " + must + " could not be produced for " + id)
			c.Count("shape_variants_missing")
		}
	}
	for _, n := range SortedKeys(names) {
		vf := make([]File, len(files))
		for i, f := range files {
			vf[i] = f
			if v, ok := variants[i][n]; ok {
				vf[i].Content = v
			}
		}
		br := w.Build(vf, flags...)
		if os.Getenv("XV_SHAPE_DEBUG") != "" {
			fmt.Fprintf(os.Stderr, "SHAPE %s %s exit=%d/%d out=%s/%s\n", id, n, br.Exit, base.Exit, Sha(br.Output)[:8], Sha(base.Output)[:8])
		}
		c.Count("shape_variants")
		c.Count("evaluations_extra")
		c.Distinct("nontrivial", "shape:"+id+"/"+n)
		switch {
		case br.Panic != "":
			c.Violation("panic:yaml-presentation:"+n, "tool panicked on the "+n+" presentation ("+id+"):\n"+br.Panic, FilesMap(vf), map[string]any{"flags": flags})
		case br.Exit != base.Exit:
			c.Violation("yaml-presentation-changes-verdict:"+n, fmt.Sprintf("the same data written as %s (%s): exit %d instead of %d\n%s", n, id, br.Exit, base.Exit, strings.Join(ErrorLines(br.Out), "\n")), FilesMap(vf), map[string]any{"flags": flags})
		case strings.Join(ErrorLines(br.Out), "\n") != strings.Join(ErrorLines(base.Out), "\n"):
			c.Violation("yaml-presentation-changes-diagnostics:"+n, fmt.Sprintf("the same data written as %s (%s): diagnostics differ\n%s\n--- instead of ---\n%s", n, id, strings.Join(ErrorLines(br.Out), "\n"), strings.Join(ErrorLines(base.Out), "\n")), FilesMap(vf), map[string]any{"flags": flags})
		case br.Output != base.Output:
			c.Violation("yaml-presentation-changes-output:"+n, fmt.Sprintf("the same data written as %s (%s) gives a different generated file: %s", n, id, FirstDiff(base.Output, br.Output)), FilesMap(vf), map[string]any{"flags": flags})
		}
	}
}

// FirstDiff shows the first differing line of two texts.
func FirstDiff(a, b string) string {
	la, lb := strings.Split(a, "\n"), strings.Split(b, "\n")
	for i := 0; i < len(la) || i < len(lb); i++ {
		x, y := "<end>", "<end>"
		if i < len(la) {
			x = la[i]
		}
		if i < len(lb) {
			y = lb[i]
		}
		if x != y {
			return fmt.Sprintf("line %d: %q vs %q", i+1, x, y)
		}
	}
	return "identical"
}
