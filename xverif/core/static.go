package core

import (
	"bytes"
	"fmt"
	"go/ast"
	"go/format"
	"go/types"
	"sort"
	"strconv"
	"strings"
)

// GenInfo is the go/types view of one generated file.
type GenInfo struct {
	Src            string
	PkgName        string
	Checked        *Checked
	Errs           []string
	ContainerType  string            // the struct type embedding *container.Container
	Methods        map[string]string // method set of *ContainerType: name -> signature (package paths spelled out)
	Funcs          map[string]string // package-level functions -> signature
	Imports        [][2]string       // (local name, path) in file order
	InitImplements *bool             // static value of the predicate init() evaluates by reflection
	GofmtStable    bool
	HasStubTag     bool
	UserValueRefs  []string // objects of non-runtime, non-std packages referenced that are not type names
}

func qual(p *types.Package) string { return p.Path() }

// SigString renders a signature without parameter/result names (so identical types print identically).
func SigString(t types.Type) string {
	sig, ok := t.(*types.Signature)
	if !ok {
		return types.TypeString(t, qual)
	}
	tuple := func(tp *types.Tuple, variadic bool) string {
		var p []string
		for i := 0; i < tp.Len(); i++ {
			ts := types.TypeString(tp.At(i).Type(), qual)
			if variadic && i == tp.Len()-1 {
				ts = "..." + strings.TrimPrefix(ts, "[]")
			}
			p = append(p, ts)
		}
		return "(" + strings.Join(p, ", ") + ")"
	}
	r := "func" + tuple(sig.Params(), sig.Variadic())
	switch sig.Results().Len() {
	case 0:
	case 1:
		r += " " + types.TypeString(sig.Results().At(0).Type(), qual)
	default:
		r += " " + tuple(sig.Results(), false)
	}
	return r
}

// ContainerMethods returns the exported method set of the runtime's *container.Container.
func (tc *TypeChecker) ContainerMethods() (methods map[string]string, fields []string, err error) {
	tc.mu.Lock()
	defer tc.mu.Unlock()
	pkg, err := tc.imp.Import(HelpersPath + "/container")
	if err != nil {
		return nil, nil, err
	}
	obj := pkg.Scope().Lookup("Container")
	if obj == nil {
		return nil, nil, fmt.Errorf("container.Container not found")
	}
	methods = map[string]string{}
	ms := types.NewMethodSet(types.NewPointer(obj.Type()))
	for i := 0; i < ms.Len(); i++ {
		m := ms.At(i).Obj()
		if m.Exported() {
			methods[m.Name()] = SigString(ms.At(i).Type())
		}
	}
	if st, ok := obj.Type().Underlying().(*types.Struct); ok {
		for i := 0; i < st.NumFields(); i++ {
			if st.Field(i).Exported() {
				fields = append(fields, st.Field(i).Name())
			}
		}
	}
	return methods, fields, nil
}

// Analyze type-checks src (plus optional extra files of the same package) and extracts the API view.
func Analyze(tc *TypeChecker, src string, extra map[string]string) *GenInfo {
	gi := &GenInfo{Src: src, Methods: map[string]string{}, Funcs: map[string]string{}}
	if f, err := format.Source([]byte(src)); err == nil && bytes.Equal(f, []byte(src)) {
		gi.GofmtStable = true
	}
	files := map[string]string{"gontainer.go": src}
	for k, v := range extra {
		files[k] = v
	}
	ch := tc.Check("probe/gen", files, nil)
	gi.Checked = ch
	for _, e := range ch.Errs {
		gi.Errs = append(gi.Errs, e.Error())
	}
	var gf *ast.File
	for _, f := range ch.Files {
		if ch.Fset.File(f.Pos()).Name() == "gontainer.go" {
			gf = f
		}
	}
	if gf == nil {
		return gi
	}
	gi.PkgName = gf.Name.Name
	for _, cg := range gf.Comments {
		for _, cm := range cg.List {
			if cm.Pos() < gf.Package && strings.HasPrefix(cm.Text, "//go:build") && strings.Contains(cm.Text, "gontainerstub") {
				gi.HasStubTag = true
			}
		}
	}
	for _, im := range gf.Imports {
		p, _ := strconv.Unquote(im.Path.Value)
		n := ""
		if im.Name != nil {
			n = im.Name.Name
		}
		gi.Imports = append(gi.Imports, [2]string{n, p})
	}
	if ch.Pkg == nil || ch.Info == nil {
		return gi
	}
	scope := ch.Pkg.Scope()
	// only objects declared in gontainer.go
	inGen := func(o types.Object) bool {
		return ch.Fset.File(o.Pos()) != nil && ch.Fset.File(o.Pos()).Name() == "gontainer.go"
	}
	for _, name := range scope.Names() {
		o := scope.Lookup(name)
		if !inGen(o) {
			continue
		}
		switch x := o.(type) {
		case *types.TypeName:
			if st, ok := x.Type().Underlying().(*types.Struct); ok {
				for i := 0; i < st.NumFields(); i++ {
					f := st.Field(i)
					if f.Embedded() && types.TypeString(f.Type(), qual) == "*"+HelpersPath+"/container.Container" {
						gi.ContainerType = name
					}
				}
			}
		case *types.Func:
			gi.Funcs[name] = SigString(x.Type())
		}
	}
	if gi.ContainerType != "" {
		named := scope.Lookup(gi.ContainerType).Type()
		ms := types.NewMethodSet(types.NewPointer(named))
		for i := 0; i < ms.Len(); i++ {
			sel := ms.At(i)
			gi.Methods[sel.Obj().Name()] = SigString(sel.Type())
		}
		// the predicate of init()
		for _, d := range gf.Decls {
			fd, ok := d.(*ast.FuncDecl)
			if !ok || fd.Name.Name != "init" || fd.Recv != nil || fd.Body == nil {
				continue
			}
			ast.Inspect(fd.Body, func(n ast.Node) bool {
				call, ok := n.(*ast.CallExpr)
				if !ok || gi.InitImplements != nil {
					return true
				}
				par, ok := call.Fun.(*ast.ParenExpr)
				if !ok {
					return true
				}
				star, ok := par.X.(*ast.StarExpr)
				if !ok {
					return true
				}
				if _, ok := star.X.(*ast.InterfaceType); !ok {
					return true
				}
				tv, ok := ch.Info.Types[call]
				if !ok {
					return true
				}
				pt, ok := tv.Type.(*types.Pointer)
				if !ok {
					return true
				}
				it, ok := pt.Elem().Underlying().(*types.Interface)
				if !ok {
					return true
				}
				v := types.Implements(types.NewPointer(named), it)
				gi.InitImplements = &v
				return false
			})
		}
	}
	// references into user packages that are not type names
	seen := map[string]bool{}
	for id, obj := range ch.Info.Uses {
		if obj == nil || obj.Pkg() == nil || obj.Pkg() == ch.Pkg {
			continue
		}
		if ch.Fset.File(id.Pos()).Name() != "gontainer.go" {
			continue
		}
		p := obj.Pkg().Path()
		if strings.HasPrefix(p, HelpersPath) || !strings.Contains(p, "/") && !strings.HasPrefix(p, "fx") {
			continue // runtime or standard library
		}
		if !strings.HasPrefix(p, "fx/") {
			continue
		}
		if _, isType := obj.(*types.TypeName); isType {
			continue
		}
		if _, isField := obj.(*types.Var); isField && obj.(*types.Var).IsField() {
			continue
		}
		k := p + "." + obj.Name()
		if !seen[k] {
			seen[k] = true
			gi.UserValueRefs = append(gi.UserValueRefs, k)
		}
	}
	sort.Strings(gi.UserValueRefs)
	return gi
}

// ExportedAPI renders the exported surface (package, container type, constructor(s), exported methods).
func (gi *GenInfo) ExportedAPI() string {
	var b strings.Builder
	fmt.Fprintf(&b, "package %s\ntype %s\n", gi.PkgName, gi.ContainerType)
	for _, n := range SortedKeys(gi.Funcs) {
		if ast.IsExported(n) || true {
			if n == "init" {
				continue
			}
			fmt.Fprintf(&b, "func %s %s\n", n, gi.Funcs[n])
		}
	}
	for _, n := range SortedKeys(gi.Methods) {
		if strings.HasPrefix(n, "_") {
			continue // internal helpers of the non-stub output
		}
		fmt.Fprintf(&b, "method %s %s\n", n, gi.Methods[n])
	}
	return b.String()
}

// SelectorPackages maps "pkgpath.Symbol" for every selector expression X.Sel in gontainer.go whose X is a
// package name: used to resolve which package a reference written in the configuration ended up in.
func (gi *GenInfo) SelectorPackages() map[string][]string {
	res := map[string][]string{}
	ch := gi.Checked
	if ch == nil || ch.Info == nil {
		return res
	}
	for _, f := range ch.Files {
		if ch.Fset.File(f.Pos()).Name() != "gontainer.go" {
			continue
		}
		ast.Inspect(f, func(n ast.Node) bool {
			se, ok := n.(*ast.SelectorExpr)
			if !ok {
				return true
			}
			id, ok := se.X.(*ast.Ident)
			if !ok {
				return true
			}
			pn, ok := ch.Info.Uses[id].(*types.PkgName)
			if !ok {
				return true
			}
			res[se.Sel.Name] = append(res[se.Sel.Name], pn.Imported().Path())
			return true
		})
	}
	return res
}
