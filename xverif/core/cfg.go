package core

import (
	"fmt"
	"math"
	"strconv"
	"strings"
)

// Abstract configuration. Generators build these values; the emitter renders YAML text (JSON flow style,
// which yaml.v3 reads as YAML) and the reference models compute expectations from the same value, so an
// oracle never parses the text the tool parses. Optional attributes are pointers: absent / null / empty
// are distinct.

type KV struct {
	K string
	V any
}

// Raw is YAML text inserted verbatim (node-kind confusion, grammar positions holding arbitrary text).
type Raw string

type Meta struct {
	Pkg, ContainerType, ContainerConstructor *string
	DefaultMustGetter                        *bool
	Imports                                  []KV // alias -> path (strings)
	Functions                                []KV // name -> go function (strings)
	HasImports, HasFunctions                 bool // emit the key even when empty
	Extra                                    []KV
}

type Tag struct {
	Name     string
	Priority *int // nil => plain string form
	MapForm  bool // {name: ..} without priority
}

type Call struct {
	Method    string
	Args      []any
	Immutable *bool // nil => 2-element form
	NoArgs    bool  // 1-element form
}

type Service struct {
	Name        string
	Getter      *string
	MustGetter  *bool
	Type        *string
	Value       *string
	Constructor *string
	Args        []any
	HasArgs     bool // emit "arguments" even when empty
	Calls       []Call
	Fields      []KV
	Tags        []Tag
	Scope       *string
	Todo        *bool
	Extra       []KV // additional raw attributes
	Order       []string
}

type Decorator struct {
	Tag, Decorator string
	Args           []any
}

type Param struct {
	Name string
	Val  any
}

type Cfg struct {
	Version                               *string
	VersionRaw                            *Raw
	Meta                                  *Meta
	Params                                []Param
	Services                              []Service
	Decorators                            []Decorator
	HasParams, HasServices, HasDecorators bool
	TopOrder                              []string // order of top-level keys; default version, meta, parameters, services, decorators
}

func P[T any](v T) *T { return &v }

// Scalar renders a primitive YAML scalar.
func Scalar(v any) string {
	switch x := v.(type) {
	case nil:
		return "null"
	case Raw:
		return string(x)
	case bool:
		if x {
			return "true"
		}
		return "false"
	case int:
		return strconv.Itoa(x)
	case int64:
		return strconv.FormatInt(x, 10)
	case uint64:
		return strconv.FormatUint(x, 10)
	case float64:
		switch {
		case math.IsInf(x, 1):
			return ".inf"
		case math.IsInf(x, -1):
			return "-.inf"
		case math.IsNaN(x):
			return ".nan"
		}
		s := strconv.FormatFloat(x, 'g', -1, 64)
		if !strings.ContainsAny(s, ".e") {
			s += ".0"
		}
		return s
	case string:
		return Quote(x)
	}
	panic(fmt.Sprintf("Scalar: unsupported %T", v))
}

// Quote renders a YAML double-quoted scalar (JSON-compatible escapes only).
func Quote(s string) string {
	var b strings.Builder
	b.WriteByte('"')
	for _, r := range s {
		switch {
		case r == '"':
			b.WriteString(`\"`)
		case r == '\\':
			b.WriteString(`\\`)
		case r == '\n':
			b.WriteString(`\n`)
		case r == '\t':
			b.WriteString(`\t`)
		case r == '\r':
			b.WriteString(`\r`)
		case r < 0x20 || r == 0x7f || r == 0x85 || r == 0xa0 || r == 0x2028 || r == 0x2029 || r == 0xfeff:
			fmt.Fprintf(&b, `\u%04x`, r)
		case r > 0xffff:
			fmt.Fprintf(&b, `\U%08x`, r)
		default:
			b.WriteRune(r)
		}
	}
	b.WriteByte('"')
	return b.String()
}

func seq(items []any) string {
	parts := make([]string, len(items))
	for i, it := range items {
		parts[i] = Scalar(it)
	}
	return "[" + strings.Join(parts, ", ") + "]"
}

func mapping(kvs []KV, indent string) string {
	if len(kvs) == 0 {
		return "{}"
	}
	var b strings.Builder
	b.WriteString("{\n")
	for i, kv := range kvs {
		b.WriteString(indent + "  " + Quote(kv.K) + ": " + Scalar(kv.V))
		if i < len(kvs)-1 {
			b.WriteString(",")
		}
		b.WriteString("\n")
	}
	b.WriteString(indent + "}")
	return b.String()
}

type entry struct{ k, v string }

func renderEntries(es []entry, indent string) string {
	if len(es) == 0 {
		return "{}"
	}
	var b strings.Builder
	b.WriteString("{\n")
	for i, e := range es {
		b.WriteString(indent + "  " + Quote(e.k) + ": " + e.v)
		if i < len(es)-1 {
			b.WriteString(",")
		}
		b.WriteString("\n")
	}
	b.WriteString(indent + "}")
	return b.String()
}

func reorder(es []entry, order []string) []entry {
	if len(order) == 0 {
		return es
	}
	var out []entry
	used := map[int]bool{}
	for _, k := range order {
		for i, e := range es {
			if e.k == k && !used[i] {
				out = append(out, e)
				used[i] = true
			}
		}
	}
	for i, e := range es {
		if !used[i] {
			out = append(out, e)
		}
	}
	return out
}

func (m *Meta) entries() []entry {
	var es []entry
	if m.Pkg != nil {
		es = append(es, entry{"pkg", Quote(*m.Pkg)})
	}
	if m.ContainerType != nil {
		es = append(es, entry{"container_type", Quote(*m.ContainerType)})
	}
	if m.ContainerConstructor != nil {
		es = append(es, entry{"container_constructor", Quote(*m.ContainerConstructor)})
	}
	if m.DefaultMustGetter != nil {
		es = append(es, entry{"default_must_getter", Scalar(*m.DefaultMustGetter)})
	}
	if len(m.Imports) > 0 || m.HasImports {
		es = append(es, entry{"imports", mapping(m.Imports, "    ")})
	}
	if len(m.Functions) > 0 || m.HasFunctions {
		es = append(es, entry{"functions", mapping(m.Functions, "    ")})
	}
	for _, kv := range m.Extra {
		es = append(es, entry{kv.K, Scalar(kv.V)})
	}
	return es
}

func (t Tag) render() string {
	if t.Priority == nil && !t.MapForm {
		return Quote(t.Name)
	}
	if t.Priority == nil {
		return "{" + `"name": ` + Quote(t.Name) + "}"
	}
	return "{" + `"name": ` + Quote(t.Name) + `, "priority": ` + strconv.Itoa(*t.Priority) + "}"
}

func (c Call) render() string {
	if c.NoArgs {
		return "[" + Quote(c.Method) + "]"
	}
	s := "[" + Quote(c.Method) + ", " + seq(c.Args)
	if c.Immutable != nil {
		s += ", " + Scalar(*c.Immutable)
	}
	return s + "]"
}

func (s *Service) entries() []entry {
	var es []entry
	if s.Getter != nil {
		es = append(es, entry{"getter", Quote(*s.Getter)})
	}
	if s.MustGetter != nil {
		es = append(es, entry{"must_getter", Scalar(*s.MustGetter)})
	}
	if s.Type != nil {
		es = append(es, entry{"type", Quote(*s.Type)})
	}
	if s.Value != nil {
		es = append(es, entry{"value", Quote(*s.Value)})
	}
	if s.Constructor != nil {
		es = append(es, entry{"constructor", Quote(*s.Constructor)})
	}
	if len(s.Args) > 0 || s.HasArgs {
		es = append(es, entry{"arguments", seq(s.Args)})
	}
	if len(s.Calls) > 0 {
		parts := make([]string, len(s.Calls))
		for i, c := range s.Calls {
			parts[i] = c.render()
		}
		es = append(es, entry{"calls", "[" + strings.Join(parts, ", ") + "]"})
	}
	if len(s.Fields) > 0 {
		es = append(es, entry{"fields", mapping(s.Fields, "      ")})
	}
	if len(s.Tags) > 0 {
		parts := make([]string, len(s.Tags))
		for i, t := range s.Tags {
			parts[i] = t.render()
		}
		es = append(es, entry{"tags", "[" + strings.Join(parts, ", ") + "]"})
	}
	if s.Scope != nil {
		es = append(es, entry{"scope", Quote(*s.Scope)})
	}
	if s.Todo != nil {
		es = append(es, entry{"todo", Scalar(*s.Todo)})
	}
	for _, kv := range s.Extra {
		es = append(es, entry{kv.K, Scalar(kv.V)})
	}
	return reorder(es, s.Order)
}

func (d Decorator) render() string {
	s := `{"tag": ` + Quote(d.Tag) + `, "decorator": ` + Quote(d.Decorator)
	if d.Args != nil {
		s += `, "arguments": ` + seq(d.Args)
	}
	return s + "}"
}

// YAML renders the configuration.
func (c *Cfg) YAML() string {
	var es []entry
	if c.VersionRaw != nil {
		es = append(es, entry{"version", string(*c.VersionRaw)})
	} else if c.Version != nil {
		es = append(es, entry{"version", Quote(*c.Version)})
	}
	if c.Meta != nil {
		es = append(es, entry{"meta", renderEntries(c.Meta.entries(), "  ")})
	}
	if len(c.Params) > 0 || c.HasParams {
		kvs := make([]KV, len(c.Params))
		for i, p := range c.Params {
			kvs[i] = KV{p.Name, p.Val}
		}
		es = append(es, entry{"parameters", mapping(kvs, "  ")})
	}
	if len(c.Services) > 0 || c.HasServices {
		var ss []entry
		for i := range c.Services {
			s := &c.Services[i]
			ss = append(ss, entry{s.Name, renderEntries(s.entries(), "    ")})
		}
		es = append(es, entry{"services", renderEntries(ss, "  ")})
	}
	if len(c.Decorators) > 0 || c.HasDecorators {
		parts := make([]string, len(c.Decorators))
		for i, d := range c.Decorators {
			parts[i] = "\n    " + d.render()
		}
		es = append(es, entry{"decorators", "[" + strings.Join(parts, ",") + "\n  ]"})
	}
	es = reorder(es, c.TopOrder)
	return renderEntries(es, "") + "\n"
}

// Svc looks a service up by name.
func (c *Cfg) Svc(name string) *Service {
	for i := range c.Services {
		if c.Services[i].Name == name {
			return &c.Services[i]
		}
	}
	return nil
}
