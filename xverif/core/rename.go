package core

import (
	"fmt"
	"regexp"
	"sort"
	"strings"
)

// Name invariance. The names of services, parameters and tags are labels: a configuration in which they are
// renamed consistently (a bijection, every reference following) denotes the same container under other labels.
// What may change is the order in which the tool lists things, nothing else. Renamed applies such a bijection to
// an abstract configuration; NameInvariance builds both and compares verdict, number of diagnostics and - after
// mapping the new labels back - the multiset of generated lines. The renamings change the relative order of
// every pair of names (reversed) or of about half of them (rotated), so a decision that depends on whether a
// dependant sorts before or after its dependency, or a decorator's tag before or after a service, becomes a
// difference between two builds.

// Renamed returns a deep-enough copy of the configuration with names mapped by f(kind, name), kind one of
// "service", "param", "tag". Getter names, types, constructors and functions are not names in that sense.
func (c *Cfg) Renamed(f func(kind, name string) string) *Cfg {
	r := *c
	arg := func(a any, paramOnly bool) any {
		s, ok := a.(string)
		if !ok {
			return a
		}
		kind, payload, wf := ArgKind(s)
		if paramOnly {
			kind, payload, wf = "pattern", s, true
		}
		switch kind {
		case "service":
			if wf {
				return "@" + f("service", payload)
			}
		case "tagged":
			if wf {
				return s[:len(s)-len(payload)] + f("tag", payload)
			}
		case "pattern":
			chunks, ok := Chunks(s)
			if !ok {
				return s
			}
			out := ""
			for _, ch := range chunks {
				if len(ch) > 2 && ch[0] == '%' && ch[len(ch)-1] == '%' {
					inner := ch[1 : len(ch)-1]
					if _, _, isFn := FnCall(inner); !isFn && IsYamlToken(inner) {
						ch = "%" + f("param", inner) + "%"
					}
				}
				out += ch
			}
			return out
		}
		return s
	}
	args := func(as []any, paramOnly bool) []any {
		if as == nil {
			return nil
		}
		o := make([]any, len(as))
		for i, a := range as {
			o[i] = arg(a, paramOnly)
		}
		return o
	}
	r.Params = make([]Param, len(c.Params))
	for i, p := range c.Params {
		r.Params[i] = Param{f("param", p.Name), arg(p.Val, true)}
	}
	r.Services = make([]Service, len(c.Services))
	for i, s := range c.Services {
		n := s
		n.Name = f("service", s.Name)
		n.Args = args(s.Args, false)
		n.Calls = make([]Call, len(s.Calls))
		for j, cl := range s.Calls {
			n.Calls[j] = cl
			n.Calls[j].Args = args(cl.Args, false)
		}
		if s.Calls == nil {
			n.Calls = nil
		}
		n.Fields = make([]KV, len(s.Fields))
		for j, kv := range s.Fields {
			n.Fields[j] = KV{kv.K, arg(kv.V, false)}
		}
		if s.Fields == nil {
			n.Fields = nil
		}
		n.Tags = make([]Tag, len(s.Tags))
		for j, t := range s.Tags {
			n.Tags[j] = t
			n.Tags[j].Name = f("tag", t.Name)
		}
		if s.Tags == nil {
			n.Tags = nil
		}
		r.Services[i] = n
	}
	r.Decorators = make([]Decorator, len(c.Decorators))
	for i, d := range c.Decorators {
		r.Decorators[i] = d
		if d.Tag != "*" {
			r.Decorators[i].Tag = f("tag", d.Tag)
		}
		r.Decorators[i].Args = args(d.Args, false)
	}
	return &r
}

// names collects the declared and referenced names per kind.
func (c *Cfg) names() map[string][]string {
	seen := map[string]map[string]bool{"service": {}, "param": {}, "tag": {}}
	c.Renamed(func(kind, name string) string { seen[kind][name] = true; return name })
	res := map[string][]string{}
	for k, m := range seen {
		res[k] = SortedKeys(m)
	}
	return res
}

// Renamings returns the name bijections used by NameInvariance: label -> (kind/name -> new name).
func (c *Cfg) Renamings() map[string]map[string]string {
	all := c.names()
	res := map[string]map[string]string{"reversed": {}, "rotated": {}}
	for kind, ns := range all {
		k := len(ns)
		for i, n := range ns {
			if n == "" || !isLetter(n[0]) {
				continue // a prefix would repair (or break) a name that starts with something else
			}
			rev := k - 1 - i
			rot := (i + (k+1)/2) % k
			res["reversed"][kind+"/"+n] = fmt.Sprintf("r%c%c_%s", 'a'+rev/26, 'a'+rev%26, n)
			res["rotated"][kind+"/"+n] = fmt.Sprintf("q%c%c_%s", 'a'+rot/26, 'a'+rot%26, n)
		}
	}
	return res
}

var aliasNumber = regexp.MustCompile(`\bi[0-9]+_`)

func lineBag(out string, back [][2]string) []string {
	for _, p := range back {
		out = strings.ReplaceAll(out, p[0], p[1])
	}
	out = aliasNumber.ReplaceAllString(out, "iN_")
	ls := strings.Split(out, "\n")
	for i := range ls {
		ls[i] = strings.TrimSpace(ls[i])
	}
	sort.Strings(ls)
	return ls
}

// NameInvariance builds cfg and its renamed twins and reports what differs beyond labels and order.
func (w *W) NameInvariance(c *C, id string, cfg *Cfg, flags ...string) {
	base := w.Build([]File{{"c.yaml", cfg.YAML()}}, flags...)
	if base.Panic != "" {
		c.Violation("panic", "tool panicked ("+id+"):\n"+base.Panic, map[string]string{"c.yaml": cfg.YAML()}, nil)
		return
	}
	baseBag := lineBag(base.Output, nil)
	rs := cfg.Renamings()
	for _, label := range SortedKeys(rs) {
		m := rs[label]
		var back [][2]string
		for k, v := range m {
			back = append(back, [2]string{v, k[strings.Index(k, "/")+1:]})
		}
		sort.Slice(back, func(i, j int) bool {
			if len(back[i][0]) != len(back[j][0]) {
				return len(back[i][0]) > len(back[j][0])
			}
			return back[i][0] < back[j][0]
		})
		rc := cfg.Renamed(func(kind, name string) string {
			if v, ok := m[kind+"/"+name]; ok {
				return v
			}
			return name
		})
		files := []File{{"c.yaml", rc.YAML()}}
		br := w.Build(files, flags...)
		c.Count("name_variants")
		c.Count("evaluations_extra")
		c.Distinct("nontrivial", "names:"+id+"/"+label)
		ctx := map[string]any{"flags": flags, "renaming": label, "original": cfg.YAML()}
		switch {
		case br.Panic != "":
			c.Violation("panic:names-"+label, "tool panicked on the "+label+" names ("+id+"):\n"+br.Panic, FilesMap(files), ctx)
		case br.Exit != base.Exit:
			c.Violation("renaming-changes-verdict:"+label, fmt.Sprintf("the same configuration under %s names (%s): exit %d instead of %d\n%s\n--- original ---\n%s", label, id, br.Exit, base.Exit, strings.Join(ErrorLines(br.Out), "\n"), strings.Join(ErrorLines(base.Out), "\n")), FilesMap(files), ctx)
		case len(ErrorLines(br.Out)) != len(ErrorLines(base.Out)):
			c.Violation("renaming-changes-diagnostics:"+label, fmt.Sprintf("the same configuration under %s names (%s): %d diagnostics instead of %d\n%s\n--- original ---\n%s", label, id, len(ErrorLines(br.Out)), len(ErrorLines(base.Out)), strings.Join(ErrorLines(br.Out), "\n"), strings.Join(ErrorLines(base.Out), "\n")), FilesMap(files), ctx)
		case base.OK():
			bag := lineBag(br.Output, back)
			if d := bagDiff(baseBag, bag); d != "" {
				c.Violation("renaming-changes-output:"+label, fmt.Sprintf("the same configuration under %s names (%s) generates other code (lines compared as a multiset, labels mapped back): %s", label, id, d), FilesMap(files), ctx)
			}
		}
	}
}

func bagDiff(a, b []string) string {
	ca := map[string]int{}
	for _, l := range a {
		ca[l]++
	}
	for _, l := range b {
		ca[l]--
	}
	var only []string
	for l, n := range ca {
		if n > 0 {
			only = append(only, fmt.Sprintf("only in the original (x%d): %q", n, l))
		} else if n < 0 {
			only = append(only, fmt.Sprintf("only in the renamed (x%d): %q", -n, l))
		}
	}
	sort.Strings(only)
	if len(only) > 6 {
		only = append(only[:6], fmt.Sprintf("... %d more", len(only)-6))
	}
	return strings.Join(only, "; ")
}
