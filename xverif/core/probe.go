package core

import (
	"bufio"
	"bytes"
	"encoding/json"
	"fmt"
	"os"
	"os/exec"
	"path/filepath"
	"sort"
	"strings"
	"time"
)

// PrepareUniverse writes the fixture universe, its types-only twin and the export-data maps into the
// shared directory (parent side).
func PrepareUniverse(p *Parent) error {
	return prepareUniverseIn(p.Env.Repo, p.Shared)
}

func prepareUniverseIn(repo, shared string) error {
	fx := filepath.Join(shared, "fx")
	fxt := filepath.Join(shared, "fxt")
	if err := WriteUniverse(repo, fx, false); err != nil {
		return err
	}
	if err := WriteUniverse(repo, fxt, true); err != nil {
		return err
	}
	for _, v := range []struct {
		dir, fx, out string
		t            bool
	}{{"probe", fx, "exports.json", false}, {"probe-t", fxt, "exports-t.json", true}} {
		pd := filepath.Join(shared, v.dir)
		if err := ProbeModule(repo, pd, v.fx); err != nil {
			return err
		}
		m, err := ExportMap(repo, pd, v.t)
		if err != nil {
			return err
		}
		b, _ := json.Marshal(m)
		if err := os.WriteFile(filepath.Join(shared, v.out), b, 0o644); err != nil {
			return err
		}
	}
	return nil
}

func init() {
	SetupHooks = append(SetupHooks, func(env Env) error {
		shared := filepath.Join(env.Scratch, "setup-shared")
		if err := prepareUniverseIn(env.Repo, shared); err != nil {
			return err
		}
		// warm the cache for a linked probe as well
		w := &W{Env: env, Shared: shared, Dir: filepath.Join(env.Scratch, "setup-w")}
		os.MkdirAll(w.Dir, 0o755)
		_, err := w.RunProbe([]GenPkg{}, nil, false)
		return err
	})
}

// TC returns the type checker for the real universe (typesOnly: the twin).
func (w *W) TC(typesOnly bool) *TypeChecker {
	if w.tc == nil {
		w.tc = map[bool]*TypeChecker{}
	}
	if w.tc[typesOnly] == nil {
		f := "exports.json"
		if typesOnly {
			f = "exports-t.json"
		}
		m, err := LoadExports(filepath.Join(w.Shared, f))
		if err != nil {
			panic(err)
		}
		w.tc[typesOnly] = NewTypeChecker(m)
	}
	return w.tc[typesOnly]
}

// GenPkg is one generated package to be linked into a probe.
type GenPkg struct {
	Name   string // directory / registry key, e.g. g0
	Source string // bytes of the -o file
	Clause string // package clause name
	Ctor   string // constructor function name
	Local  bool   // add the local fixture (references written as ".")
	Stub   string // optional stub source (built with -tags gontainerstub instead of Source)
}

type ProbeOp struct {
	Op   string     `json:"op"`
	Name string     `json:"name,omitempty"`
	Ctx  string     `json:"ctx,omitempty"`
	Tag  string     `json:"tag,omitempty"`
	Val  *ProbeSpec `json:"val,omitempty"`
}

type ProbeSpec struct {
	Kind  string   `json:"kind"`
	V     any      `json:"v,omitempty"`
	Ctor  string   `json:"ctor,omitempty"`
	Args  []any    `json:"args,omitempty"`
	Deps  []string `json:"deps,omitempty"`
	Tags  []string `json:"tags,omitempty"`  // tags (priority 0) of an overriding service
	Scope string   `json:"scope,omitempty"` // declared scope of an overriding service ("" = none declared)
}

type ProbeSession struct {
	Pkg string            `json:"pkg"`
	Env map[string]string `json:"env,omitempty"`
	Ops []ProbeOp         `json:"ops"`
}

type ProbeResult struct {
	V     map[string]any   `json:"v,omitempty"`
	Err   string           `json:"err,omitempty"`
	Panic string           `json:"panic,omitempty"`
	C     map[string]int64 `json:"c,omitempty"`
}

type ProbeError struct {
	Stage  string // build | run
	Output string
}

func (e *ProbeError) Error() string { return e.Stage + ": " + e.Output }

// probeDir prepares (once per worker) the probe module of this worker.
func (w *W) probeDir() string {
	d := filepath.Join(w.Dir, "probe")
	if _, err := os.Stat(filepath.Join(d, "go.mod")); err != nil {
		if err := ProbeModule(w.Env.Repo, d, filepath.Join(w.Shared, "fx")); err != nil {
			panic(err)
		}
	}
	return d
}

// RunProbe links the generated packages with the real runtime and the fixture universe, runs the
// sessions and returns one result list per session (index 0 of every list is the post-construction
// counters record).
func (w *W) RunProbe(pkgs []GenPkg, sessions []ProbeSession, stubTag bool) ([][]ProbeResult, error) {
	d := w.probeDir()
	// clean previous generated packages
	ents, _ := os.ReadDir(d)
	for _, e := range ents {
		if e.IsDir() {
			os.RemoveAll(filepath.Join(d, e.Name()))
		}
	}
	var imports, regs strings.Builder
	for _, g := range pkgs {
		gd := filepath.Join(d, g.Name)
		os.MkdirAll(gd, 0o755)
		src := g.Source
		if stubTag && g.Stub != "" {
			src = g.Stub
		}
		os.WriteFile(filepath.Join(gd, "gontainer.go"), []byte(src), 0o644)
		if g.Local {
			os.WriteFile(filepath.Join(gd, "fixture_local.go"), []byte(LocalFixture(g.Clause, "./"+g.Name)), 0o644)
		}
		fmt.Fprintf(&imports, "\t%s \"probe/%s\"\n", g.Name, g.Name)
		fmt.Fprintf(&regs, "\t\t%q: func() any { return %s.%s() },\n", g.Name, g.Name, g.Ctor)
	}
	main := "package main\n\nimport (\n\t\"fx/rt\"\n" + imports.String() + ")\n\nfunc main() {\n\trt.Main(map[string]func() any{\n" + regs.String() + "\t})\n}\n"
	os.WriteFile(filepath.Join(d, "main.go"), []byte(main), 0o644)
	bin := filepath.Join(w.Dir, "probe.bin")
	args := []string{"build", "-o", bin}
	if stubTag {
		args = append(args, "-tags", "gontainerstub")
	}
	args = append(args, ".")
	cmd := exec.Command("go", args...)
	cmd.Dir = d
	cmd.Env = append(os.Environ(), "GOMAXPROCS=4")
	if out, err := cmd.CombinedOutput(); err != nil {
		return nil, &ProbeError{"build", string(out)}
	}
	if len(sessions) == 0 {
		return nil, nil
	}
	var input bytes.Buffer
	enc := json.NewEncoder(&input)
	for _, s := range sessions {
		enc.Encode(s)
	}
	// the probe normally answers within a second; 300 s of silence is taken for a hang only when it happens three
	// times in a row (a machine that is short of memory or CPU for a while does not make a verdict)
	var stdout, stderr bytes.Buffer
	var werr error
	timedOut := false
	for attempt := 0; attempt < 3; attempt++ {
		stdout.Reset()
		stderr.Reset()
		run := exec.Command(bin)
		run.Stdin = bytes.NewReader(input.Bytes())
		run.Stdout = &stdout
		run.Stderr = &stderr
		if err := run.Start(); err != nil {
			return nil, &ProbeError{"run", err.Error()}
		}
		done := make(chan error, 1)
		go func() { done <- run.Wait() }()
		timedOut = false
		select {
		case werr = <-done:
		case <-time.After(300 * time.Second):
			run.Process.Kill()
			<-done
			timedOut = true
		}
		if !timedOut {
			break
		}
	}
	var res [][]ProbeResult
	sc := bufio.NewScanner(&stdout)
	sc.Buffer(make([]byte, 1<<20), 1<<28)
	for sc.Scan() {
		var r []ProbeResult
		if err := json.Unmarshal(sc.Bytes(), &r); err != nil {
			return res, &ProbeError{"run", "undecodable probe output: " + err.Error()}
		}
		res = append(res, r)
	}
	if timedOut {
		return res, &ProbeError{"hang", fmt.Sprintf("probe did not finish within 300s in three attempts; %d of %d sessions completed\n%s", len(res), len(sessions), tail(stderr.String(), 4000))}
	}
	if werr != nil || len(res) != len(sessions) {
		return res, &ProbeError{"run", fmt.Sprintf("probe exited abnormally (%v) after %d of %d sessions\n%s", werr, len(res), len(sessions), tail(stderr.String(), 6000))}
	}
	return res, nil
}

func tail(s string, n int) string {
	if len(s) > n {
		return s[:n/2] + "\n...\n" + s[len(s)-n/2:]
	}
	return s
}

// ---------------------------------------------------------------------------------------------------
// Canonical descriptions

// Canon renumbers identities by first occurrence (session-wide map) and renders a compact string.
type Canon struct {
	ids map[string]int
}

func NewCanon() *Canon { return &Canon{ids: map[string]int{}} }

func (c *Canon) id(raw string) string {
	n, ok := c.ids[raw]
	if !ok {
		n = len(c.ids) + 1
		c.ids[raw] = n
	}
	return fmt.Sprintf("#%d", n)
}

func (c *Canon) list(v any) string {
	xs, _ := v.([]any)
	parts := make([]string, len(xs))
	for i, x := range xs {
		m, _ := x.(map[string]any)
		parts[i] = c.Render(m)
	}
	return "[" + strings.Join(parts, ", ") + "]"
}

func str(v any) string {
	s, _ := v.(string)
	return s
}

// Render produces the canonical text of a description node.
func (c *Canon) Render(n map[string]any) string {
	if n == nil {
		return "<none>"
	}
	static := ""
	if s, ok := n["static"]; ok {
		static = "<" + str(s) + ">"
	}
	switch str(n["t"]) {
	case "nil":
		return static + "nil"
	case "container":
		return static + "$gontainer"
	case "rootcontainer":
		return static + "$root"
	case "bool", "string", "int", "int8", "int16", "int32", "int64", "uint", "uint8", "uint16", "uint32", "uint64", "float64", "float32", "error":
		if str(n["t"]) == "string" {
			return static + fmt.Sprintf("string:%q", str(n["v"]))
		}
		return static + str(n["t"]) + ":" + str(n["v"])
	case "slice":
		return static + c.list(n["items"])
	case "ref":
		return static + "ref" + c.id(str(n["id"]))
	case "nilptr":
		return static + "nilptr(" + str(n["go"]) + ")"
	case "ptrany":
		m, _ := n["elem"].(map[string]any)
		return static + "&any(" + c.Render(m) + ")"
	case "wrap":
		id := c.id(str(n["id"]))
		inner, _ := n["inner"].(map[string]any)
		return static + fmt.Sprintf("wrap%s{%s tag=%s sid=%s args=%s inner=%s}", id, str(n["fn"]), str(n["tag"]), str(n["sid"]), c.list(n["args"]), c.Render(inner))
	case "obj":
		id := ""
		if raw, ok := n["id"]; ok {
			id = c.id(str(raw))
		}
		f1, _ := n["f1"].(map[string]any)
		f2, _ := n["f2"].(map[string]any)
		f3, _ := n["f3"].(map[string]any)
		var log []string
		if l, ok := n["log"].([]any); ok {
			for _, e := range l {
				em, _ := e.(map[string]any)
				log = append(log, str(em["m"])+c.list(em["args"]))
			}
		}
		s := fmt.Sprintf("%s%s{%s%s", str(n["ty"]), id, str(n["ctor"]), c.list(n["args"]))
		if str(f1["t"]) != "nil" {
			s += " F1=" + c.Render(f1)
		}
		if str(f2["t"]) != "nil" {
			s += " F2=" + c.Render(f2)
		}
		if str(f3["t"]) != "nil" {
			s += " f3=" + c.Render(f3)
		}
		if len(log) > 0 {
			s += " log=" + strings.Join(log, ";")
		}
		return static + s + "}"
	case "other":
		return static + "other(" + str(n["go"]) + ":" + str(n["s"]) + ")"
	}
	b, _ := json.Marshal(n)
	return "?" + string(b)
}

// RenderResult renders a probe result (value, error or panic).
func (c *Canon) RenderResult(r ProbeResult) string {
	switch {
	case r.Panic != "":
		return "PANIC(" + r.Panic + ")"
	case r.Err != "":
		return "ERR(" + r.Err + ")"
	case r.C != nil || r.V != nil && str(r.V["t"]) == "counters":
		ks := make([]string, 0, len(r.C))
		for k, v := range r.C {
			ks = append(ks, fmt.Sprintf("%s=%d", k, v))
		}
		sort.Strings(ks)
		return "COUNTERS{" + strings.Join(ks, " ") + "}"
	}
	return c.Render(r.V)
}

// StubPkg is one --stub output to be compiled with -tags gontainerstub against the types-only universe.
type StubPkg struct {
	Name       string
	Source     string
	Clause     string
	Type       string   // container type
	Ctor       string   // constructor
	Getters    []string // methods without arguments
	CtxGetters []string // methods taking a context
	Local      bool
}

// RunStubProbe compiles the stubs with the tag against the types-only twin, calls the constructor and
// every listed method, and returns name -> recovered panic value ("<no panic>" when it returned).
func (w *W) RunStubProbe(pkgs []StubPkg) (map[string]string, error) {
	d := filepath.Join(w.Dir, "stubprobe")
	os.RemoveAll(d)
	os.MkdirAll(d, 0o755)
	ver, err := HelpersVersion(w.Env.Repo)
	if err != nil {
		return nil, err
	}
	gomod := fmt.Sprintf("module stubprobe\n\ngo 1.21\n\nrequire %s %s\nrequire fx v0.0.0\nreplace fx => %s\n", HelpersPath, ver, filepath.Join(w.Shared, "fxt"))
	os.WriteFile(filepath.Join(d, "go.mod"), []byte(gomod), 0o644)
	copyFile(filepath.Join(w.Env.Repo, "go.sum"), filepath.Join(d, "go.sum"))
	var imports, body strings.Builder
	for _, g := range pkgs {
		gd := filepath.Join(d, g.Name)
		os.MkdirAll(gd, 0o755)
		os.WriteFile(filepath.Join(gd, "stub.go"), []byte(g.Source), 0o644)
		if g.Local {
			os.WriteFile(filepath.Join(gd, "fixture_local.go"), []byte("//go:build gontainerstub\n\n"+LocalFixtureTypesOnly(g.Clause)), 0o644)
		}
		fmt.Fprintf(&imports, "\t%s \"stubprobe/%s\"\n", g.Name, g.Name)
		fmt.Fprintf(&body, "\ttry(%q, func() { %s.%s() })\n", g.Name+".ctor", g.Name, g.Ctor)
		for _, m := range g.Getters {
			fmt.Fprintf(&body, "\ttry(%q, func() { var c *%s.%s; c.%s() })\n", g.Name+"."+m, g.Name, g.Type, m)
		}
		for _, m := range g.CtxGetters {
			fmt.Fprintf(&body, "\ttry(%q, func() { var c *%s.%s; c.%s(context.Background()) })\n", g.Name+"."+m, g.Name, g.Type, m)
		}
	}
	main := "//go:build gontainerstub\n\npackage main\n\nimport (\n\t\"context\"\n\t\"fmt\"\n" + imports.String() + ")\n\nvar _ = context.Background\n\nfunc try(name string, f func()) {\n\tdefer func() {\n\t\tr := recover()\n\t\tif r == nil {\n\t\t\tfmt.Printf(\"%s\\t<no panic>\\n\", name)\n\t\t\treturn\n\t\t}\n\t\tfmt.Printf(\"%s\\t%v\\n\", name, r)\n\t}()\n\tf()\n}\n\nfunc main() {\n" + body.String() + "}\n"
	os.WriteFile(filepath.Join(d, "main.go"), []byte(main), 0o644)
	bin := filepath.Join(w.Dir, "stubprobe.bin")
	cmd := exec.Command("go", "build", "-tags", "gontainerstub", "-o", bin, ".")
	cmd.Dir = d
	cmd.Env = append(os.Environ(), "GOMAXPROCS=4")
	if out, err := cmd.CombinedOutput(); err != nil {
		return nil, &ProbeError{"build", string(out)}
	}
	out, err := exec.Command(bin).CombinedOutput()
	if err != nil {
		return nil, &ProbeError{"run", string(out)}
	}
	res := map[string]string{}
	for _, l := range strings.Split(string(out), "\n") {
		if i := strings.Index(l, "\t"); i > 0 {
			res[l[:i]] = l[i+1:]
		}
	}
	// without the tag every stub package must be excluded from the build
	if len(pkgs) > 0 {
		c2 := exec.Command("go", "build", "./"+pkgs[0].Name)
		c2.Dir = d
		o2, err2 := c2.CombinedOutput()
		if err2 == nil || !strings.Contains(string(o2), "build constraints exclude all Go files") {
			res["<untagged>"] = "stub package builds without the tag: " + string(o2)
		} else {
			res["<untagged>"] = "excluded"
		}
	}
	return res, nil
}
