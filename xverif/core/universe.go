package core

import (
	"bytes"
	"encoding/json"
	"fmt"
	"go/ast"
	"go/importer"
	"go/parser"
	"go/token"
	"go/types"
	"io"
	"os"
	"os/exec"
	"path/filepath"
	"regexp"
	"strings"
	"sync"
)

// FxPackages lists the fixture universe: import path -> package clause name.
var FxPackages = [][2]string{
	{"fx/pk", "pk"}, {"fx/pk2", "pk2"}, {"fx/a/pkg", "pkg"}, {"fx/b/pkg", "pkg"}, {"fx/p-k.g", "pkg"},
	{"fx/ab", "ab"}, {"fx/a", "a"}, {"fx/fmt", "fmt"}, {"fx/os", "os"}, {"fx/errors", "errors"},
	{"fx/ab/ab", "ab"},                                               // an alias followed by a sub-path that spells the alias again
	{"fx/pk2/sub", "sub"},                                            // a sub-package of a package that alias tables name with a quoted path
	{"fx/3rd/lib", "lib"}, {"fx/x/2go", "go2"}, {"fx/_u/v2.x", "vx"}, // path segments that start with a digit or an underscore
}

// FxManyPackages: fourteen more copies of the fixture package, for configurations with more distinct import paths
// than one hexadecimal digit can number.
var FxManyPackages = func() [][2]string {
	var out [][2]string
	for i := 0; i < 14; i++ {
		out = append(out, [2]string{fmt.Sprintf("fx/many/m%02d", i), fmt.Sprintf("m%02d", i)})
	}
	return out
}()

// HelpersVersion reads the pinned runtime version from the repository's go.mod.
func HelpersVersion(repo string) (string, error) {
	b, err := os.ReadFile(filepath.Join(repo, "go.mod"))
	if err != nil {
		return "", err
	}
	m := regexp.MustCompile(`github\.com/gontainer/gontainer-helpers/v3\s+(\S+)`).FindSubmatch(b)
	if m == nil {
		return "", fmt.Errorf("gontainer-helpers/v3 not required by %s/go.mod", repo)
	}
	return string(m[1]), nil
}

const HelpersPath = "github.com/gontainer/gontainer-helpers/v3"

func fxSource(tpl, pkg, path string) string {
	return strings.ReplaceAll(strings.ReplaceAll(tpl, "%PKG%", pkg), "%PATH%", path)
}

// LocalFixture is the fixture source for the generated package itself (references written as ".").
func LocalFixture(pkg string, id string) string { return fxSource(fxPkg, pkg, id) }
func LocalFixtureTypesOnly(pkg string) string   { return fxSource(fxTypesOnly, pkg, "") }

// WriteUniverse writes module fx (typesOnly: the types-only twin) under dir.
func WriteUniverse(repo, dir string, typesOnly bool) error {
	ver, err := HelpersVersion(repo)
	if err != nil {
		return err
	}
	os.MkdirAll(dir, 0o755)
	gomod := fmt.Sprintf("module fx\n\ngo 1.21\n\nrequire %s %s\n", HelpersPath, ver)
	if err := os.WriteFile(filepath.Join(dir, "go.mod"), []byte(gomod), 0o644); err != nil {
		return err
	}
	copyFile(filepath.Join(repo, "go.sum"), filepath.Join(dir, "go.sum"))
	if !typesOnly {
		os.MkdirAll(filepath.Join(dir, "rt"), 0o755)
		if err := os.WriteFile(filepath.Join(dir, "rt", "rt.go"), []byte(fxRT), 0o644); err != nil {
			return err
		}
	}
	for _, p := range append(append([][2]string{}, FxPackages...), FxManyPackages...) {
		d := filepath.Join(dir, strings.TrimPrefix(p[0], "fx/"))
		os.MkdirAll(d, 0o755)
		src := fxSource(fxPkg, p[1], p[0])
		if typesOnly {
			src = fxSource(fxTypesOnly, p[1], p[0])
		}
		if err := os.WriteFile(filepath.Join(d, "fx.go"), []byte(src), 0o644); err != nil {
			return err
		}
	}
	return nil
}

func copyFile(src, dst string) error {
	in, err := os.Open(src)
	if err != nil {
		return err
	}
	defer in.Close()
	out, err := os.Create(dst)
	if err != nil {
		return err
	}
	defer out.Close()
	_, err = io.Copy(out, in)
	return err
}

// ProbeModule creates a module "probe" in dir that can import fx/... and the pinned runtime.
func ProbeModule(repo, dir, fxDir string) error {
	ver, err := HelpersVersion(repo)
	if err != nil {
		return err
	}
	os.MkdirAll(dir, 0o755)
	gomod := fmt.Sprintf("module probe\n\ngo 1.21\n\nrequire %s %s\nrequire fx v0.0.0\nreplace fx => %s\n", HelpersPath, ver, fxDir)
	if err := os.WriteFile(filepath.Join(dir, "go.mod"), []byte(gomod), 0o644); err != nil {
		return err
	}
	return copyFile(filepath.Join(repo, "go.sum"), filepath.Join(dir, "go.sum"))
}

// stdForTemplates are the standard packages the templates may import.
var stdForTemplates = []string{"context", "errors", "fmt", "os", "reflect", "strconv"}

// ExportMap builds (with go list -export) and returns import path -> export data file for the universe,
// the runtime and the standard library packages generated code uses.
func ExportMap(repo, probeDir string, typesOnly bool) (map[string]string, error) {
	var imp []string
	for _, p := range append(append([][2]string{}, FxPackages...), FxManyPackages...) {
		imp = append(imp, p[0])
	}
	if !typesOnly {
		imp = append(imp, "fx/rt")
	}
	for _, s := range []string{"container", "grouperror", "exporter", "caller", "copier"} {
		imp = append(imp, HelpersPath+"/"+s)
	}
	imp = append(imp, stdForTemplates...)
	var b strings.Builder
	b.WriteString("package main\n\nimport (\n")
	for _, i := range imp {
		fmt.Fprintf(&b, "\t_ %q\n", i)
	}
	b.WriteString(")\n\nfunc main() {}\n")
	d := filepath.Join(probeDir, "allimports")
	os.MkdirAll(d, 0o755)
	if err := os.WriteFile(filepath.Join(d, "main.go"), []byte(b.String()), 0o644); err != nil {
		return nil, err
	}
	cmd := exec.Command("go", "list", "-export", "-deps", "-json=ImportPath,Export", "./allimports")
	cmd.Dir = probeDir
	var stderr bytes.Buffer
	cmd.Stderr = &stderr
	out, err := cmd.Output()
	if err != nil {
		return nil, fmt.Errorf("go list -export: %v\n%s", err, stderr.String())
	}
	res := map[string]string{}
	dec := json.NewDecoder(bytes.NewReader(out))
	for dec.More() {
		var e struct{ ImportPath, Export string }
		if err := dec.Decode(&e); err != nil {
			return nil, err
		}
		if e.Export != "" {
			res[e.ImportPath] = e.Export
		}
	}
	return res, nil
}

// TypeChecker type-checks generated files against gc export data.
type TypeChecker struct {
	exports map[string]string
	mu      sync.Mutex
	imp     types.Importer
	fset    *token.FileSet
}

func NewTypeChecker(exports map[string]string) *TypeChecker {
	tc := &TypeChecker{exports: exports, fset: token.NewFileSet()}
	tc.imp = importer.ForCompiler(tc.fset, "gc", func(path string) (io.ReadCloser, error) {
		f, ok := exports[path]
		if !ok {
			return nil, fmt.Errorf("no export data for %q", path)
		}
		return os.Open(f)
	})
	return tc
}

func LoadExports(file string) (map[string]string, error) {
	b, err := os.ReadFile(file)
	if err != nil {
		return nil, err
	}
	m := map[string]string{}
	return m, json.Unmarshal(b, &m)
}

type Checked struct {
	Fset  *token.FileSet
	Files []*ast.File
	Pkg   *types.Package
	Info  *types.Info
	Errs  []error
}

// Check parses and type-checks the given sources as one package.
func (tc *TypeChecker) Check(pkgPath string, srcs map[string]string, tags map[string]bool) *Checked {
	tc.mu.Lock()
	defer tc.mu.Unlock()
	res := &Checked{Fset: tc.fset}
	for _, name := range SortedKeys(srcs) {
		f, err := parser.ParseFile(tc.fset, name, srcs[name], parser.ParseComments|parser.SkipObjectResolution)
		if err != nil {
			res.Errs = append(res.Errs, err)
			continue
		}
		res.Files = append(res.Files, f)
	}
	if len(res.Errs) > 0 {
		return res
	}
	res.Info = &types.Info{
		Uses:       map[*ast.Ident]types.Object{},
		Defs:       map[*ast.Ident]types.Object{},
		Selections: map[*ast.SelectorExpr]*types.Selection{},
		Types:      map[ast.Expr]types.TypeAndValue{},
	}
	conf := types.Config{Importer: tc.imp, Error: func(err error) { res.Errs = append(res.Errs, err) }}
	res.Pkg, _ = conf.Check(pkgPath, tc.fset, res.Files, res.Info)
	return res
}
