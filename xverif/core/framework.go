// Package core is the shared machinery of the gontainer verification harness: the sharded exhaustive
// enumerator (parent/worker processes), the in-process driver of the real `gontainer build` command,
// evidence and known-finding bookkeeping.
package core

import (
	"bufio"
	"crypto/sha256"
	"encoding/binary"
	"encoding/hex"
	"encoding/json"
	"fmt"
	"hash/fnv"
	"os"
	"os/exec"
	"path/filepath"
	"runtime"
	"runtime/debug"
	"sort"
	"strconv"
	"strings"
	"time"
)

// Env describes one invocation.
type Env struct {
	Repo, Verif, Scratch, Modfile string
	Tier                          string
	Seed                          int64
}

func (e Env) Quick() bool { return e.Tier != "thorough" }

// Check is one property's decision procedure.
type Check struct {
	ID          string
	Level       string // exploration | fault_enumeration | model_checking
	Rule        string
	Assumptions []string
	// Prepare runs once in the parent before workers start (build binaries, export data, ...). Files it
	// writes under p.Shared are visible to all workers.
	Prepare func(p *Parent) error
	// Run is executed in every worker; it must enumerate the complete, deterministic case list and call
	// w.Case for each. Only the cases of this worker's shard are evaluated.
	Run func(w *W)
	// Finish may post-process the aggregate (cross-case oracles) in the parent.
	Finish func(p *Parent, a *Agg)
	// Budget is the soft wall-clock cap per tier; when it is hit the run stops enumerating, exits 0 and
	// reports exhaustive:false with what was completed.
	BudgetQuick, BudgetThorough time.Duration
	// Workers overrides the number of worker processes (default: NumCPU).
	Workers int
	// CaseTimeout is the per-case harness watchdog (default 45 min; exceeding it is an INTERNAL error, not a verdict).
	CaseTimeout time.Duration
	// ModelChecking extras copied into coverage when Level == model_checking.
	MC bool
}

var Registry = map[string]*Check{}

func Register(c *Check) { Registry[c.ID] = c }

// ---------------------------------------------------------------------------------------------------
// Worker side

type Violation struct {
	Key    string            `json:"key"`
	Case   string            `json:"case"`
	Msg    string            `json:"msg"`
	Files  map[string]string `json:"files,omitempty"`
	Extra  map[string]any    `json:"extra,omitempty"`
	Crash  bool              `json:"crash,omitempty"`
	Replay string            `json:"replay,omitempty"`
}

type workerResult struct {
	Counters   map[string]int64  `json:"counters"`
	Samples    []json.RawMessage `json:"samples"`
	Violations []Violation       `json:"violations"`
	Capped     bool              `json:"capped"`
	Partial    bool              `json:"partial"`
	CappedAt   int64             `json:"capped_at"`
	Evaluated  int64             `json:"evaluated"`
	Notes      []string          `json:"notes"`
}

// W is the per-worker context handed to Check.Run.
type W struct {
	Env     Env
	Shared  string // directory prepared by the parent
	Dir     string // private scratch directory of this worker
	Shard   int
	NShards int
	Only    string          // evaluate just this case id (replay / isolation)
	Skip    map[string]bool // case ids confirmed to crash the process

	idx          int64
	res          workerResult
	distinct     map[string]map[uint64]struct{}
	deadline     time.Time
	progress     *os.File
	cur          *C
	maxSample    int
	keyCount     map[string]int
	tc           map[bool]*TypeChecker
	caseWatchdog time.Duration
}

// C is the per-case context.
type C struct {
	W  *W
	ID string
}

// the case-level watchdog only guards against a harness that does not make progress; a hang of the tool is
// detected by the driver's own per-run watchdog (driver.go)
const defaultCaseWatchdog = 45 * time.Minute

func (w *W) mine() bool {
	i := w.idx
	w.idx++
	if w.Only != "" {
		return true
	}
	return int(i%int64(w.NShards)) == w.Shard
}

// Case evaluates fn if the case belongs to this shard.
func (w *W) Case(id string, fn func(c *C)) {
	if !w.mine() {
		return
	}
	if w.Only != "" && w.Only != id {
		return
	}
	if w.Skip[id] {
		return
	}
	if w.res.Capped {
		return
	}
	if !w.deadline.IsZero() && time.Now().After(w.deadline) {
		w.res.Capped = true
		w.res.CappedAt = w.idx - 1
		return
	}
	if w.progress != nil {
		w.progress.Truncate(0)
		w.progress.WriteAt([]byte(id), 0)
	}
	c := &C{W: w, ID: id}
	w.cur = c
	HangHook = func() {
		if w.progress != nil {
			w.progress.Truncate(0)
			w.progress.WriteAt([]byte("HANG\x00"+id), 0)
		}
		fmt.Fprintf(os.Stderr, "worker %d: the command did not return within %s in case %s\n", w.Shard, ToolWatchdog, id)
		os.Exit(3)
	}
	done := make(chan struct{})
	var pv any
	var stack []byte
	go func() {
		defer close(done)
		defer func() {
			if r := recover(); r != nil {
				pv = r
				stack = debug.Stack()
			}
		}()
		fn(c)
	}()
	select {
	case <-done:
	case <-time.After(w.caseWatchdog):
		fmt.Fprintf(os.Stderr, "INTERNAL: worker %d: harness case %s exceeded %s without finishing (no verdict)\n", w.Shard, id, w.caseWatchdog)
		os.Exit(4)
	}
	if pv != nil {
		// a panic in harness code (tool panics are recovered inside the driver) is an internal error
		fmt.Fprintf(os.Stderr, "INTERNAL: harness panic in case %s: %v\n%s\n", id, pv, stack)
		os.Exit(4)
	}
	w.res.Evaluated++
	if len(w.res.Samples) == 0 {
		// every worker contributes at least the identity of one case it really evaluated
		b, _ := json.Marshal(map[string]string{"case": id})
		w.res.Samples = append(w.res.Samples, b)
	}
}

func (c *C) Count(name string) { c.W.res.Counters[name]++ }

// Partial marks the run as not exhaustive (an inner exploration hit its own time or size cap).
func (c *C) Partial()                    { c.W.res.Partial = true }
func (c *C) Add(name string, n int64)    { c.W.res.Counters[name] += n }
func (w *W) Note(s string)               { w.res.Notes = append(w.res.Notes, s) }
func (w *W) CountW(name string, n int64) { w.res.Counters[name] += n }

// Distinct records key in the named set; the parent reports the size of the union over all workers.
func (c *C) Distinct(set, key string) {
	m := c.W.distinct[set]
	if m == nil {
		m = map[uint64]struct{}{}
		c.W.distinct[set] = m
	}
	h := fnv.New64a()
	h.Write([]byte(key))
	m[h.Sum64()] = struct{}{}
}

// Sample keeps a few cases per worker, written out in the evidence.
func (c *C) Sample(v any) {
	if len(c.W.res.Samples) >= c.W.maxSample {
		return
	}
	b, err := json.Marshal(v)
	if err == nil {
		c.W.res.Samples = append(c.W.res.Samples, b)
	}
}

// Violation records a property violation. key identifies *what* fails (used to match known findings and
// to de-duplicate); files are the inputs needed to replay it.
func (c *C) Violation(key, msg string, files map[string]string, extra map[string]any) {
	w := c.W
	w.res.Counters["violations_raw"]++
	w.keyCount[key]++
	if w.keyCount[key] > 3 { // keep at most 3 witnesses per key per worker
		return
	}
	w.res.Violations = append(w.res.Violations, Violation{Key: key, Case: c.ID, Msg: msg, Files: files, Extra: extra})
}

// ---------------------------------------------------------------------------------------------------
// Parent side

type Parent struct {
	Env    Env
	Check  *Check
	Shared string
	Start  time.Time
	Extra  map[string]any // merged into coverage
	Notes  []string
	// WorkerBinary, when set by Prepare, is the executable the workers run (an instrumented build of the
	// harness + tool made with go build -overlay); default: this executable.
	WorkerBinary string
}

type Agg struct {
	Counters   map[string]int64
	Distinct   map[string]int
	Samples    []json.RawMessage
	Violations []Violation
	Capped     bool
	Evaluated  int64
	Notes      []string
}

func Main(args []string) int {
	if len(args) < 1 {
		fmt.Fprintln(os.Stderr, "usage: xv check|worker|replay|setup ...")
		return 2
	}
	mode := args[0]
	var env Env
	env.Tier = "quick"
	var shard, nshards int
	var only, shared, dir, skip string
	rest := []string{}
	for i := 1; i < len(args); i++ {
		a := args[i]
		next := func() string { i++; return args[i] }
		switch a {
		case "--repo":
			env.Repo = next()
		case "--verif":
			env.Verif = next()
		case "--scratch":
			env.Scratch = next()
		case "--modfile":
			env.Modfile = next()
		case "--tier":
			env.Tier = next()
		case "--seed":
			env.Seed, _ = strconv.ParseInt(next(), 10, 64)
		case "--shard":
			shard, _ = strconv.Atoi(next())
		case "--nshards":
			nshards, _ = strconv.Atoi(next())
		case "--only":
			only = next()
		case "--shared":
			shared = next()
		case "--dir":
			dir = next()
		case "--skip":
			skip = next()
		default:
			rest = append(rest, a)
		}
	}
	switch mode {
	case "check":
		if len(rest) != 1 || Registry[rest[0]] == nil {
			fmt.Fprintf(os.Stderr, "unknown check %v\n", rest)
			return 2
		}
		return runParent(env, Registry[rest[0]], "")
	case "worker":
		ch := Registry[rest[0]]
		return runWorker(env, ch, shard, nshards, only, shared, dir, skip)
	case "replay":
		return runReplay(env, rest)
	case "setup":
		return runSetup(env)
	}
	return 2
}

func runWorker(env Env, ch *Check, shard, nshards int, only, shared, dir, skip string) int {
	w := &W{Env: env, Shared: shared, Dir: dir, Shard: shard, NShards: nshards, Only: only,
		distinct: map[string]map[uint64]struct{}{}, maxSample: 3, keyCount: map[string]int{}, Skip: map[string]bool{}}
	if skip != "" {
		b, _ := os.ReadFile(skip)
		for _, l := range strings.Split(string(b), "\n") {
			if l != "" {
				w.Skip[l] = true
			}
		}
	}
	w.res.Counters = map[string]int64{}
	w.caseWatchdog = defaultCaseWatchdog
	if ch.CaseTimeout > 0 {
		w.caseWatchdog = ch.CaseTimeout
	}
	os.MkdirAll(dir, 0o755)
	if err := os.Chdir(dir); err != nil {
		fmt.Fprintln(os.Stderr, "INTERNAL:", err)
		return 4
	}
	budget := ch.BudgetQuick
	if !env.Quick() {
		budget = ch.BudgetThorough
	}
	if budget > 0 && only == "" {
		w.deadline = time.Now().Add(budget)
	}
	pf, err := os.Create(filepath.Join(dir, "progress"))
	if err == nil {
		w.progress = pf
	}
	DriverInit()
	ch.Run(w)
	// result
	out := filepath.Join(dir, "result.json")
	b, _ := json.Marshal(w.res)
	if err := os.WriteFile(out, b, 0o644); err != nil {
		fmt.Fprintln(os.Stderr, "INTERNAL:", err)
		return 4
	}
	// distinct sets, binary
	for set, m := range w.distinct {
		f, err := os.Create(filepath.Join(dir, "distinct-"+set+".bin"))
		if err != nil {
			return 4
		}
		bw := bufio.NewWriter(f)
		var buf [8]byte
		for h := range m {
			binary.LittleEndian.PutUint64(buf[:], h)
			bw.Write(buf[:])
		}
		bw.Flush()
		f.Close()
	}
	return 0
}

type shardRun struct {
	shard int
	dir   string
	skip  []string
}

func spawnWorker(env Env, ch *Check, self string, shard, nshards int, only, shared, dir, skipFile string) *exec.Cmd {
	args := []string{"worker", "--repo", env.Repo, "--verif", env.Verif, "--scratch", env.Scratch, "--modfile", env.Modfile,
		"--tier", env.Tier, "--seed", fmt.Sprint(env.Seed), "--shard", fmt.Sprint(shard), "--nshards", fmt.Sprint(nshards),
		"--shared", shared, "--dir", dir}
	if only != "" {
		args = append(args, "--only", only)
	}
	if skipFile != "" {
		args = append(args, "--skip", skipFile)
	}
	args = append(args, ch.ID)
	cmd := exec.Command(self, args...)
	cmd.Stdout = os.Stderr
	cmd.Stderr = os.Stderr
	cmd.Env = append(os.Environ(), "GOMAXPROCS=2")
	return cmd
}

func runParent(env Env, ch *Check, only string) int {
	start := time.Now()
	self, _ := os.Executable()
	p := &Parent{Env: env, Check: ch, Shared: filepath.Join(env.Scratch, "shared"), Start: start, Extra: map[string]any{}}
	os.MkdirAll(p.Shared, 0o755)
	if ch.Prepare != nil {
		if err := ch.Prepare(p); err != nil {
			fmt.Fprintf(os.Stderr, "INTERNAL: prepare failed: %v\n", err)
			return 2
		}
	}
	if p.WorkerBinary != "" {
		self = p.WorkerBinary
	}
	n := ch.Workers
	if n <= 0 {
		n = runtime.NumCPU()
	}
	if only != "" {
		n = 1
	}
	agg := &Agg{Counters: map[string]int64{}, Distinct: map[string]int{}}
	distinct := map[string]map[uint64]struct{}{}
	type job struct {
		shard int
		cmd   *exec.Cmd
		dir   string
		skip  []string
		try   int
	}
	results := make(chan *job, n)
	launch := func(j *job) {
		os.RemoveAll(j.dir)
		os.MkdirAll(j.dir, 0o755)
		skipFile := ""
		if len(j.skip) > 0 {
			skipFile = filepath.Join(env.Scratch, fmt.Sprintf("skip-%d", j.shard))
			os.WriteFile(skipFile, []byte(strings.Join(j.skip, "\n")), 0o644)
		}
		j.cmd = spawnWorker(env, ch, self, j.shard, n, only, p.Shared, j.dir, skipFile)
		go func() {
			j.cmd.Run()
			results <- j
		}()
	}
	for s := 0; s < n; s++ {
		launch(&job{shard: s, dir: filepath.Join(env.Scratch, fmt.Sprintf("w%d", s))})
	}
	pending := n
	internal := false
	confirmedFaults := 0
	stoppedEarly := false
	for pending > 0 {
		j := <-results
		b, err := os.ReadFile(filepath.Join(j.dir, "result.json"))
		if err != nil || !j.cmd.ProcessState.Success() {
			code := j.cmd.ProcessState.ExitCode()
			if code == 4 || code == 2 {
				internal = true
				pending--
				continue
			}
			// the worker died (fatal error of the tool, OOM, watchdog): find the culprit and confirm
			pb, _ := os.ReadFile(filepath.Join(j.dir, "progress"))
			culprit := strings.TrimRight(string(pb), "\x00")
			hang := false
			if strings.HasPrefix(culprit, "HANG\x00") {
				hang = true
				culprit = strings.TrimPrefix(culprit, "HANG\x00")
			}
			if culprit == "" || j.try > 20 {
				fmt.Fprintf(os.Stderr, "INTERNAL: worker %d died (exit %d) without a culprit\n", j.shard, code)
				internal = true
				pending--
				continue
			}
			if confirmedFaults >= 3 {
				// the check already fails; every further culprit would cost minutes of isolated re-runs
				if !stoppedEarly {
					stoppedEarly = true
					agg.Notes = append(agg.Notes, "three crashes / hangs of the tool confirmed in isolation: remaining cases of the affected shards were not evaluated")
				}
				agg.Capped = true
				pending--
				continue
			}
			// three isolated re-runs, side by side
			confirmed := 0
			isoDone := make(chan bool, 3)
			for k := 0; k < 3; k++ {
				go func(k int) {
					d := filepath.Join(env.Scratch, fmt.Sprintf("iso-%d-%d", j.shard, k))
					os.RemoveAll(d)
					os.MkdirAll(d, 0o755)
					c := spawnWorker(env, ch, self, 0, 1, culprit, p.Shared, d, "")
					if hang && os.Getenv("XV_TOOL_WATCHDOG") == "" {
						// the confirmation runs give the command four times as long: a machine that was merely busy when
						// the first limit expired does not confirm, a command that does not return still does
						c.Env = append(c.Env, "XV_TOOL_WATCHDOG=240")
					}
					c.Run()
					isoDone <- !c.ProcessState.Success()
					os.RemoveAll(d)
				}(k)
			}
			for k := 0; k < 3; k++ {
				if <-isoDone {
					confirmed++
				}
			}
			kind := "crash"
			if hang {
				kind = "hang"
			}
			if confirmed == 3 {
				agg.Violations = append(agg.Violations, Violation{Key: kind + ":" + culprit, Case: culprit, Crash: true,
					Msg: fmt.Sprintf("the tool %s: worker process died (exit %d) on this case in 3/3 isolated re-runs", kind, code)})
			} else {
				agg.Notes = append(agg.Notes, fmt.Sprintf("worker %d died once on case %q (exit %d) but only %d/3 isolated re-runs failed; not reported", j.shard, culprit, code, confirmed))
			}
			j.skip = append(j.skip, culprit)
			j.try++
			if confirmed == 3 {
				confirmedFaults++
			}
			if confirmedFaults >= 3 {
				// the check already fails; every further culprit would cost minutes of isolated re-runs
				if !stoppedEarly {
					stoppedEarly = true
					agg.Notes = append(agg.Notes, "three crashes / hangs of the tool confirmed in isolation: remaining cases of the affected shards were not evaluated")
				}
				agg.Capped = true
				pending--
				continue
			}
			launch(j)
			continue
		}
		pending--
		var r workerResult
		if err := json.Unmarshal(b, &r); err != nil {
			internal = true
			continue
		}
		for k, v := range r.Counters {
			agg.Counters[k] += v
		}
		agg.Evaluated += r.Evaluated
		agg.Capped = agg.Capped || r.Capped || r.Partial
		agg.Samples = append(agg.Samples, r.Samples...)
		agg.Violations = append(agg.Violations, r.Violations...)
		agg.Notes = append(agg.Notes, r.Notes...)
		ents, _ := os.ReadDir(j.dir)
		for _, e := range ents {
			nm := e.Name()
			if strings.HasPrefix(nm, "distinct-") && strings.HasSuffix(nm, ".bin") {
				set := strings.TrimSuffix(strings.TrimPrefix(nm, "distinct-"), ".bin")
				data, _ := os.ReadFile(filepath.Join(j.dir, nm))
				m := distinct[set]
				if m == nil {
					m = map[uint64]struct{}{}
					distinct[set] = m
				}
				for i := 0; i+8 <= len(data); i += 8 {
					m[binary.LittleEndian.Uint64(data[i:])] = struct{}{}
				}
			}
		}
		os.RemoveAll(j.dir)
	}
	if internal {
		fmt.Fprintln(os.Stderr, "INTERNAL: a worker failed for a reason internal to the harness; no verdict")
		return 2
	}
	for set, m := range distinct {
		agg.Distinct[set] = len(m)
	}
	if ch.Finish != nil {
		ch.Finish(p, agg)
	}
	if only != "" {
		for _, v := range agg.Violations {
			fmt.Printf("REPLAY-VIOLATION property=%s case=%s key=%s\n  %s\n", ch.ID, v.Case, v.Key, strings.ReplaceAll(v.Msg, "\n", "\n  "))
		}
		if len(agg.Violations) > 0 {
			return 1
		}
		fmt.Printf("replay: property %s holds on case %s\n", ch.ID, only)
		return 0
	}
	return report(p, agg)
}

// ---------------------------------------------------------------------------------------------------
// Known findings, reporting, evidence

type knownFinding struct {
	Property, Key, Text string
}

func loadKnown(verif string) []knownFinding {
	b, err := os.ReadFile(filepath.Join(verif, "known_findings.txt"))
	if err != nil {
		return nil
	}
	var out []knownFinding
	for _, l := range strings.Split(string(b), "\n") {
		l = strings.TrimSpace(l)
		if !strings.HasPrefix(l, "known:") {
			continue // "fixed:" lines and comments suppress nothing
		}
		f := strings.Fields(strings.TrimPrefix(l, "known:"))
		k := knownFinding{}
		var text []string
		for _, x := range f {
			switch {
			case strings.HasPrefix(x, "property=") && k.Property == "":
				k.Property = strings.TrimPrefix(x, "property=")
			case strings.HasPrefix(x, "key=") && k.Key == "":
				k.Key = strings.TrimPrefix(x, "key=")
			default:
				text = append(text, x)
			}
		}
		k.Text = strings.Join(text, " ")
		out = append(out, k)
	}
	return out
}

func report(p *Parent, agg *Agg) int {
	env, ch := p.Env, p.Check
	known := map[string]knownFinding{}
	for _, k := range loadKnown(env.Verif) {
		if k.Property == ch.ID {
			known[k.Key] = k
		}
	}
	sort.SliceStable(agg.Violations, func(i, j int) bool {
		a, b := agg.Violations[i], agg.Violations[j]
		if a.Key != b.Key {
			return a.Key < b.Key
		}
		if len(a.Case) != len(b.Case) {
			return len(a.Case) < len(b.Case)
		}
		return a.Case < b.Case
	})
	seenKnown := map[string]bool{}
	seenKey := map[string]bool{}
	nViol := 0
	nKnown := 0
	for i := range agg.Violations {
		v := &agg.Violations[i]
		if k, ok := known[v.Key]; ok {
			if !seenKnown[v.Key] {
				seenKnown[v.Key] = true
				nKnown++
				fmt.Printf("KNOWN-FINDING: property=%s %s (key=%s, witness case %s)\n", ch.ID, k.Text, v.Key, v.Case)
			}
			continue
		}
		if seenKey[v.Key] {
			continue
		}
		seenKey[v.Key] = true
		nViol++
		if nViol > 25 {
			continue
		}
		dir := writeReplay(env, ch.ID, v)
		v.Replay = dir
		fmt.Printf("VIOLATION property=%s replay=%s\n", ch.ID, dir)
		fmt.Printf("  case: %s\n  key:  %s\n  %s\n", v.Case, v.Key, strings.ReplaceAll(v.Msg, "\n", "\n  "))
	}
	if nViol > 25 {
		fmt.Printf("(%d further distinct violations not printed)\n", nViol-25)
	}
	writeEvidence(p, agg, nViol, nKnown)
	for _, n := range agg.Notes {
		fmt.Fprintln(os.Stderr, "note:", n)
	}
	fmt.Fprintf(os.Stderr, "%s %s: evaluations=%d violations=%d known=%d capped=%v wall=%.1fs\n", ch.ID, env.Tier, agg.Evaluated, nViol, nKnown, agg.Capped, time.Since(p.Start).Seconds())
	if nViol > 0 {
		return 1
	}
	return 0
}

func writeReplay(env Env, id string, v *Violation) string {
	h := sha256.Sum256([]byte(v.Key + "\x00" + v.Case))
	dir := filepath.Join(outRoot(env), "replays", id, hex.EncodeToString(h[:6]))
	os.MkdirAll(dir, 0o755)
	meta := map[string]any{"property": id, "case": v.Case, "key": v.Key, "msg": v.Msg, "tier": env.Tier, "extra": v.Extra}
	b, _ := json.MarshalIndent(meta, "", "  ")
	os.WriteFile(filepath.Join(dir, "case.json"), b, 0o644)
	var inputs []string
	for name, content := range v.Files {
		fp := filepath.Join(dir, "files", name)
		os.MkdirAll(filepath.Dir(fp), 0o755)
		os.WriteFile(fp, []byte(content), 0o644)
		if strings.HasSuffix(name, ".yaml") {
			inputs = append(inputs, name)
		}
	}
	// a plain script that runs the real CLI on the recorded input, without the harness
	if len(inputs) > 0 {
		sort.Strings(inputs)
		args := ""
		if a := anyStrings(v.Extra["args"]); len(a) > 0 {
			args = strings.Join(quoteAll(a), " ")
		} else {
			for _, in := range inputs {
				args += " -i " + in
			}
			args += " -o out.go"
			if fl := anyStrings(v.Extra["flags"]); len(fl) > 0 {
				args += " " + strings.Join(fl, " ")
			}
		}
		sh := "#!/usr/bin/env bash\n# replays the recorded input of this violation with the real CLI (no harness involved)\n" +
			"export GOFLAGS=-mod=mod GOPROXY=off GOSUMDB=off GOTOOLCHAIN=local\ncd \"$(dirname \"$0\")/files\" && go run " + env.Repo + " build " + args + "; echo \"exit status: $?\"\n"
		os.WriteFile(filepath.Join(dir, "replay.sh"), []byte(sh), 0o755)
	}
	return dir
}

func writeEvidence(p *Parent, agg *Agg, nViol, nKnown int) {
	env, ch := p.Env, p.Check
	cov := map[string]any{}
	for k, v := range agg.Counters {
		cov["n_"+k] = v
	}
	for k, v := range agg.Distinct {
		cov["distinct_"+k] = v
	}
	cov["evaluations"] = agg.Evaluated
	dn := agg.Distinct["nontrivial"]
	cov["distinct_nontrivial"] = dn
	if o, ok := agg.Counters["evaluations_extra"]; ok {
		// checks whose unit of work is finer than the sharded case (a batch of configurations, a history, a schedule)
		cov["evaluations"] = agg.Evaluated + o
		delete(cov, "n_evaluations_extra")
	}
	if o, ok := agg.Counters["distinct_nontrivial_extra"]; ok {
		// units that are distinct by construction (DFS schedules) and counted inside a probe
		cov["distinct_nontrivial"] = int64(dn) + o
		delete(cov, "n_distinct_nontrivial_extra")
	}
	cov["rule"] = ch.Rule
	samples := []any{}
	// richer samples (inputs written out) first, bare case identities last
	sort.SliceStable(agg.Samples, func(i, j int) bool { return len(agg.Samples[i]) > len(agg.Samples[j]) })
	for i, s := range agg.Samples {
		if i >= 6 {
			break
		}
		var v any
		json.Unmarshal(s, &v)
		samples = append(samples, v)
	}
	if len(samples) == 0 {
		samples = append(samples, "no sample recorded")
	}
	cov["samples"] = samples
	cov["exhaustive"] = !agg.Capped
	if agg.Capped {
		cov["cap_hit"] = "wall-clock budget of this tier reached; the remaining cases of the enumeration were not evaluated"
	}
	if ch.Level == "model_checking" {
		if s, ok := agg.Counters["states"]; ok {
			cov["states"] = s
		}
		if s, ok := agg.Distinct["states"]; ok {
			cov["states"] = s
		}
		if t, ok := agg.Counters["transitions"]; ok {
			cov["transitions"] = t
		}
		if t, ok := agg.Counters["traces"]; ok {
			cov["traces_validated_against_impl"] = t
		}
	}
	for k, v := range p.Extra {
		cov[k] = v
	}
	if len(agg.Notes) > 0 {
		n := agg.Notes
		if len(n) > 20 {
			n = n[:20]
		}
		cov["notes"] = n
	}
	ev := map[string]any{
		"property_id":    ch.ID,
		"tier":           env.Tier,
		"seed":           env.Seed,
		"level":          ch.Level,
		"coverage":       cov,
		"assumptions":    ch.Assumptions,
		"wall_s":         time.Since(p.Start).Seconds(),
		"violations":     nViol,
		"known_findings": nKnown,
		"repo_tree":      repoState(env.Repo),
	}
	b, _ := json.MarshalIndent(ev, "", " ")
	os.MkdirAll(filepath.Join(outRoot(env), "evidence"), 0o755)
	os.WriteFile(filepath.Join(outRoot(env), "evidence", ch.ID+".json"), append(b, '\n'), 0o644)
}

func repoState(repo string) string {
	out, err := exec.Command("git", "-C", repo, "rev-parse", "HEAD").Output()
	if err != nil {
		return "unknown"
	}
	s := strings.TrimSpace(string(out))
	st, _ := exec.Command("git", "-C", repo, "status", "--porcelain").Output()
	if len(strings.TrimSpace(string(st))) > 0 {
		s += "+dirty"
	}
	return s
}

func runReplay(env Env, rest []string) int {
	if len(rest) != 1 {
		fmt.Fprintln(os.Stderr, "usage: replay <dir>")
		return 2
	}
	b, err := os.ReadFile(filepath.Join(rest[0], "case.json"))
	if err != nil {
		fmt.Fprintln(os.Stderr, err)
		return 2
	}
	var meta struct {
		Property, Case, Tier string
	}
	json.Unmarshal(b, &meta)
	ch := Registry[meta.Property]
	if ch == nil {
		return 2
	}
	if meta.Tier != "" {
		env.Tier = meta.Tier
	}
	return runParent(env, ch, meta.Case)
}

func runSetup(env Env) int {
	// Warm the build cache: everything a check compiles that does not depend on /repo's content.
	for _, f := range SetupHooks {
		if err := f(env); err != nil {
			fmt.Fprintln(os.Stderr, "setup:", err)
			return 1
		}
	}
	return 0
}

var SetupHooks []func(Env) error

// Hash is a short content hash used for distinct-case accounting.
func Hash(parts ...string) string {
	h := sha256.New()
	for _, p := range parts {
		h.Write([]byte(p))
		h.Write([]byte{0})
	}
	return hex.EncodeToString(h.Sum(nil)[:8])
}

// BuildInstrumented builds the harness binary again with go build -overlay: files maps absolute paths of
// repository sources to replacement files. Used by the choice-point explorers (map order, fs answers).
func (p *Parent) BuildInstrumented(name string, files map[string]string) (string, error) {
	ov := struct {
		Replace map[string]string
	}{files}
	b, _ := json.Marshal(ov)
	ovPath := filepath.Join(p.Shared, name+"-overlay.json")
	if err := os.WriteFile(ovPath, b, 0o644); err != nil {
		return "", err
	}
	out := filepath.Join(p.Shared, name)
	cmd := exec.Command("go", "build", "-modfile="+p.Env.Modfile, "-overlay", ovPath, "-o", out, "./cmd/xv")
	cmd.Dir = filepath.Join(p.Env.Verif, "xverif")
	if o, err := cmd.CombinedOutput(); err != nil {
		return "", fmt.Errorf("instrumented build failed: %v\n%s", err, o)
	}
	return out, nil
}

// outRoot: evidence and replays go to /verif unless XV_OUT redirects them (used when the harness is pointed
// at a scratch copy of the repository to try a deliberate property-breaking change).
func outRoot(env Env) string {
	if o := os.Getenv("XV_OUT"); o != "" {
		return o
	}
	return env.Verif
}

func quoteAll(a []string) []string {
	out := make([]string, len(a))
	for i, x := range a {
		out[i] = "'" + strings.ReplaceAll(x, "'", "'\\''") + "'"
	}
	return out
}

func anyStrings(v any) []string {
	switch x := v.(type) {
	case []string:
		return x
	case []any:
		var out []string
		for _, e := range x {
			if s, ok := e.(string); ok {
				out = append(out, s)
			}
		}
		return out
	}
	return nil
}
