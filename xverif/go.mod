// Placeholder: run.sh builds with -modfile=<scratch>/go.mod whose require block is copied verbatim
// from /repo/go.mod (so the harness resolves exactly the dependency versions the tool resolves).
module github.com/gontainer/gontainer/xverif

go 1.21
