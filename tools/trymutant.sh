#!/usr/bin/env bash
# tools/trymutant.sh <patch.diff> <check id>...   — applies a deliberate property-breaking change to a scratch
# worktree of /repo (never to /repo itself), confirms the repository's own tests still pass, runs the given
# checks (quick tier) against that worktree and prints a one-line verdict per check. Evidence and replays of
# these runs go to a scratch directory, not to /verif/evidence.
set -u
export GOFLAGS=-mod=mod GOPROXY=off GOSUMDB=off GOTOOLCHAIN=local
patch="$(realpath "$1")"; shift
tier="${TIER:-quick}"
wt="$(mktemp -d /tmp/mutant-wt.XXXXXX)"; out="$(mktemp -d /tmp/mutant-out.XXXXXX)"
cleanup() { git -C /repo worktree remove --force "$wt" >/dev/null 2>&1; rm -rf "$wt" "$out"; }
trap cleanup EXIT
rmdir "$wt"; git -C /repo worktree add -q --detach "$wt" HEAD || exit 2
if ! git -C "$wt" apply "$patch"; then echo "PATCH-DOES-NOT-APPLY"; exit 2; fi
if ! (cd "$wt" && go build ./... && go test -vet=off -count=1 ./... >"$out/tests.log" 2>&1); then
  echo "MUTANT-KILLED-BY-REPO-TESTS"; grep -v "^ok\|no test files" "$out/tests.log" | head -5; exit 3
fi
echo "repo tests: pass"
for c in "$@"; do
  VERIF_REPO="$wt" XV_OUT="$out" "$(dirname "$0")/../run.sh" "$c" "$tier" >"$out/$c.log" 2>"$out/$c.err"; rc=$?
  n=$(grep -c '^VIOLATION' "$out/$c.log")
  echo "$c: exit=$rc violations=$n $(grep -m1 -A2 '^VIOLATION' "$out/$c.log" | grep 'key:' | head -1)"
  if [ "${SHOW:-0}" = 1 ]; then grep -m1 -A6 '^VIOLATION' "$out/$c.log" | cut -c1-400; fi
  if [ $rc -eq 2 ]; then tail -5 "$out/$c.err"; fi
done
