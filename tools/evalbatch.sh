#!/usr/bin/env bash
# evalbatch.sh <verif dir> <outfile> <seed ids...>
v=$1; out=$2; shift 2
for s in "$@"; do timeout 1500 $v/tools/evalseed.sh /verif/seeded/$s ${s%%-*} 2>&1 | grep ^SEED >> $out || echo "SEED seeded/$s TIMEOUT-or-error" >> $out; done
