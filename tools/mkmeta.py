#!/usr/bin/env python3
"""tools/mkmeta.py <round> <first-pass results file> [<after-strengthening results file>]
Writes seeded/<id>/meta.json for every seed named in the result files (lines printed by tools/evalseed.sh)."""
import json, os, re, sys
rnd, first = sys.argv[1], sys.argv[2]
after = sys.argv[3] if len(sys.argv) > 3 else None
root = os.path.join(os.path.dirname(os.path.abspath(__file__)), '..', 'seeded')
def parse(path):
    out = {}
    for l in open(path):
        m = re.match(r'SEED seeded/(\S+) demo_clean=(\S+) tests=(\S+) demo_mutated=(\S+) checks:(.*)', l.strip())
        if not m: continue
        checks = {}
        for tok in m.group(5).split():
            cid, ex, key = tok.split(':', 2)
            checks[cid] = {"exit": int(ex.split('=')[1]), "first_key": key}
        out[m.group(1)] = (m.group(2), m.group(3), m.group(4), checks)
    return out
f = parse(first); a = parse(after) if after else {}
for sid, (dc, t, dm, checks) in sorted(f.items()):
    d = os.path.join(root, sid)
    if not os.path.isdir(d): continue
    meta = {
        "breaks": [sid.split('-')[0]],
        "origin": f"independent sub-agent, round {rnd} (saw only the text of property {sid.split('-')[0]} and its own scratch worktree)",
        "needs_to_manifest": "see notes.md",
        "confirmed": {"demo_on_clean_tree_exit": dc, "repository_tests_with_change": t, "demo_with_change_exit": dm,
            "how": "tools/evalseed.sh in a scratch worktree of /repo (git worktree add; git apply patch.diff; go build ./... && go test -vet=off -count=1 ./...; bash demo.sh <worktree>)"},
    }
    missed = all(c["exit"] != 1 for c in checks.values())
    if missed:
        meta["first_pass_quick_tier"] = {k: {"exit": v["exit"], "first_key": ""} for k, v in checks.items()}
        if sid in a:
            meta["detected_by_quick_tier"] = a[sid][3]
            meta["note"] = f"missed by the checks as they were when the change was written; detected after the strengthening described in DESIGN.md section 11 (round {rnd})"
    else:
        meta["detected_by_quick_tier"] = checks
    json.dump(meta, open(os.path.join(d, 'meta.json'), 'w'), indent=1)
    print(sid, "missed-first" if missed else "detected-first", "now", (a.get(sid) or (0,0,0,checks))[3])
