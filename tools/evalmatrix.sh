#!/usr/bin/env bash
# tools/evalmatrix.sh [pattern]  — evaluates every seeded change (seeded/<name>/patch.diff) against the check(s)
# of the property it breaks and appends one line per seed to seeded/RESULTS.txt
cd "$(dirname "$0")/.."
for d in seeded/${1:-*}/; do
  d=${d%/}; n=$(basename "$d")
  [ -f "$d/patch.diff" ] || continue
  if [ -f "$d/meta.json" ] && python3 -c "import json,sys; sys.exit(0 if 'breaks' in json.load(open('$d/meta.json')) else 1)" 2>/dev/null; then
    checks=$(python3 -c "import json; print(' '.join(json.load(open('$d/meta.json'))['breaks']))")
  else
    checks=${n%%-*}
  fi
  tools/evalseed.sh "$d" $checks 2>&1 | tail -1
done
