#!/usr/bin/env python3
"""tools/seedbases.py - records in every seeded/<id>/meta.json which of the last 16 commits of /repo the patch applies to
(the repository gains `fix:` commits over time; a seeded change is measured on the newest commit it applies to)."""
import subprocess, json, os, glob
commits = subprocess.run(['git','-C','/repo','log','--format=%h','-n','16'],capture_output=True,text=True).stdout.split()
wt='/tmp/applies-wt'
subprocess.run(['git','-C','/repo','worktree','add','-q','--detach',wt,'HEAD'],check=True)
res={}
try:
    for c in commits:
        subprocess.run(['git','-C',wt,'checkout','-q','--detach',c],check=True)
        for d in sorted(glob.glob('/verif/seeded/*/')):
            pf=os.path.join(d,'patch.diff')
            if os.path.exists(pf) and subprocess.run(['git','-C',wt,'apply','--check',pf],capture_output=True).returncode==0:
                res.setdefault(d,[]).append(c)
finally:
    subprocess.run(['git','-C','/repo','worktree','remove','--force',wt])
for d in sorted(glob.glob('/verif/seeded/*/')):
    mf=os.path.join(d,'meta.json')
    if not os.path.exists(mf): continue
    m=json.load(open(mf)); ap=res.get(d,[])
    m['applies_to_repo_commits']=ap
    m['newest_repo_commit_it_applies_to']=ap[0] if ap else None
    json.dump(m,open(mf,'w'),indent=1)
print('seeds:',len(res),'applying to HEAD:',sum(1 for a in res.values() if a and a[0]==commits[0]))
