#!/usr/bin/env bash
# tools/evalseed.sh <seed dir with patch.diff + demo.sh> <check id>...
# Confirms a seeded change (demo passes on the clean tree, repository tests pass with the change, demo fails
# with the change) in a scratch worktree, then runs the given checks against it. Prints one summary line.
set -u
export GOFLAGS=-mod=mod GOPROXY=off GOSUMDB=off GOTOOLCHAIN=local
seed="$(realpath "$1")"; shift
wt="$(mktemp -d /tmp/seed-wt.XXXXXX)"; out="$(mktemp -d /tmp/seed-out.XXXXXX)"
cleanup() { git -C /repo worktree remove --force "$wt" >/dev/null 2>&1; rm -rf "$wt" "$out"; }
trap cleanup EXIT
rmdir "$wt"; git -C /repo worktree add -q --detach "$wt" "${SEED_BASE:-HEAD}" || exit 2
clean=skip; mutated=skip
if [ -f "$seed/demo.sh" ]; then timeout 600 bash "$seed/demo.sh" "$wt" >"$out/demo-clean.log" 2>&1; clean=$?; fi
git -C "$wt" checkout -q -- . ; git -C "$wt" clean -fdq
if ! git -C "$wt" apply "$seed/patch.diff"; then echo "{\"seed\":\"$seed\",\"error\":\"patch does not apply\"}"; exit 2; fi
tests=pass
(cd "$wt" && go build ./... && go test -vet=off -count=1 ./...) >"$out/tests.log" 2>&1 || tests=FAIL
if [ -f "$seed/demo.sh" ]; then timeout 600 bash "$seed/demo.sh" "$wt" >"$out/demo-mut.log" 2>&1; mutated=$?; fi
res=""
for c in "$@"; do
  VERIF_REPO="$wt" XV_OUT="$out" "$(dirname "$0")/../run.sh" "$c" "${TIER:-quick}" >"$out/$c.log" 2>"$out/$c.err"; rc=$?
  key=$(grep -m1 -A2 '^VIOLATION' "$out/$c.log" | grep 'key:' | head -1 | sed 's/^ *key: *//' | cut -c1-120)
  res="$res $c:exit=$rc:${key// /_}"
  if [ "${SHOW:-0}" = 1 ]; then grep -m1 -A8 '^VIOLATION' "$out/$c.log" | cut -c1-500; fi
done
echo "SEED $(basename "$(dirname "$seed")")/$(basename "$seed") demo_clean=$clean tests=$tests demo_mutated=$mutated checks:$res"
